#!/usr/bin/env python3
"""
vcheck -- static-analysis checker for the properties C01..C20 of asynciojobs.

    vcheck.py --property C07 [--tier quick|thorough]
    vcheck.py --all
    vcheck.py --explain evidence/replay/<file>.json

Reads the source of $VERIF_REPO (default /repo) afresh on every run; imports
nothing from it.  Exit 0 = every obligation discharged (or refuted only at known
findings); 1 = VIOLATION; 2 = ANALYSIS-ERROR (cannot decide).
"""

import argparse
import importlib
import json
import os
import sys
import traceback

HERE = os.path.dirname(os.path.abspath(__file__))
sys.path.insert(0, HERE)

from sa.report import Report          # noqa: E402
from sa.index import AnalysisError    # noqa: E402

PROPS = ["C%02d" % i for i in range(1, 21)]


def _resilient_rules():
    """a rule that cannot read the tree (`AnalysisError`: a role not resolved, an exploration that meets nothing to
    reason from, a budget exhausted) says so and lets the other rules of the property run: the ones that need no
    exploration at all still give their verdict"""
    import functools
    import inspect
    import pkgutil
    import re
    import sa.rules
    for m in pkgutil.iter_modules(sa.rules.__path__):
        if re.match(r'c\d\d$', m.name):
            continue
        mod = importlib.import_module('sa.rules.' + m.name)
        for name, fn in list(vars(mod).items()):
            if not inspect.isfunction(fn) or fn.__module__ != mod.__name__ or getattr(fn, '_resilient', False):
                continue
            if list(inspect.signature(fn).parameters)[:2] != ['ctx', 'rep']:
                continue

            def make(f):
                @functools.wraps(f)
                def w(ctx, rep, *a, **k):
                    try:
                        return f(ctx, rep, *a, **k)
                    except AnalysisError as e:
                        seen = rep.__dict__.setdefault('_engine_seen', set())
                        if str(e) not in seen:
                            seen.add(str(e))
                            rep.error("engine", str(e))
                        return None
                w._resilient = True
                return w
            setattr(mod, name, make(fn))


def run_property(prop, tier, seed, root=None, write_evidence=True, quiet=False):
    from sa.ctx import Ctx
    _resilient_rules()
    rep = Report(prop, tier, seed)
    cmd = "%s %s --property %s --tier %s" % (sys.executable, os.path.join(HERE, "vcheck.py"), prop, tier)
    try:
        ctx = Ctx(root)
        mod = importlib.import_module("sa.rules." + prop.lower())
        mod.check(ctx, rep)
        rep.extra['source_digest'] = ctx.prog.digest
        rep.extra['modules_parsed'] = len(ctx.prog.modules)
        rep.extra['functions_in_package'] = len(ctx.prog.funcs)
        rep.extra['functions_analysed'] = sorted(ctx.stats['functions_analysed'])
        rep.extra['paths'] = ctx.stats['states']
        rep.extra['call_sites'] = ctx.stats['calls']
        rep.extra['roles'] = {k: str(v) for k, v in ctx.roles.notes.items()}
        if tier == 'thorough' and hasattr(mod, 'thorough'):
            mod.thorough(ctx, rep)
        if tier == 'thorough':
            from sa import selftest
            selftest.run_for_property(prop, rep, seed)
    except AnalysisError as e:
        rep.error("engine", str(e))
    except Exception as e:                                  # noqa: BLE001
        rep.error("engine", "internal error: %r\n%s" % (e, traceback.format_exc(limit=8)))
    rc, lines = rep.finish(write_evidence=write_evidence, checker_cmd=cmd)
    if not quiet:
        for ln in lines:
            print(ln)
    return rc, lines, rep


def main():
    ap = argparse.ArgumentParser()
    ap.add_argument("--property", "-p")
    ap.add_argument("--all", action="store_true")
    ap.add_argument("--tier", default=os.environ.get("VERIF_TIER", "quick"))
    ap.add_argument("--root", default=None)
    ap.add_argument("--no-evidence", action="store_true")
    ap.add_argument("--explain")
    a = ap.parse_args()
    try:
        seed = int(os.environ.get("VERIF_SEED", "0"))
    except ValueError:
        seed = 0
    tier = a.tier if a.tier in ("quick", "thorough") else "quick"
    if a.explain:
        with open(a.explain) as f:
            d = json.load(f)
        print(json.dumps(d, indent=1))
        rc, _, _ = run_property(d['property'], tier, seed, a.root, write_evidence=False)
        sys.exit(rc)
    props = PROPS if a.all else [a.property]
    worst = 0
    for p in props:
        if p not in PROPS:
            print("ANALYSIS-ERROR unknown property %r" % p)
            sys.exit(2)
        rc, _, _ = run_property(p, tier, seed, a.root, write_evidence=not a.no_evidence)
        if rc == 1 or (rc == 2 and worst == 0):
            worst = rc
    sys.exit(worst)


if __name__ == "__main__":
    main()
