#!/usr/bin/env python3
"""regenerates MANIFEST.json from sa/rules/*.py (claimed) and the table below"""
import json, os, sys
HERE = os.path.dirname(os.path.abspath(__file__))
sys.path.insert(0, HERE)
from sa.manifest_data import CLAIMS, NOT_YET

PY = "/venv/bin/python"
checks = []
na = []
for i in range(1, 21):
    pid = "C%02d" % i
    if pid in CLAIMS and os.path.exists(os.path.join(HERE, "sa", "rules", pid.lower() + ".py")):
        c = CLAIMS[pid]
        checks.append({
            "property_id": pid,
            "quick_cmd": "%s vcheck.py --property %s --tier quick" % (PY, pid),
            "thorough_cmd": "%s vcheck.py --property %s --tier thorough" % (PY, pid),
            "evidence_file": "evidence/%s.json" % pid,
            "replay_cmd_template": "%s vcheck.py --explain {path}" % PY,
            "engine": "sa",
            "level_claimed": {"category": "other", "text": c["text"], "design_ref": "DESIGN.md §5 " + pid},
            "level_note": c["note"],
            "technique": c["technique"],
        })
    else:
        na.append({"property_id": pid, "reason": NOT_YET.get(pid, "rule set not implemented yet; see DESIGN.md §5")})
m = {
    "version": 1,
    "setup_cmd": "%s -c \"import ast, sys; sys.path.insert(0, '.'); import sa.flow, sa.runmodel, sa.report\"" % PY,
    "hooks": {
        "guard": "PARMENTELAT_ASYNCIOJOBS_VERIF",
        "enable": "none needed: the checks parse the source of /repo and never import or run it; no hook exists in the package",
        "baseline_off_cmd": "cd /repo && /venv/bin/python -m pytest -ra -q -p no:cacheprovider --timeout=900 --continue-on-collection-errors",
        "source_commits": [],
        "add_only": True,
    },
    "engines": [{"name": "sa", "path": "sa/", "serves_properties": [c["property_id"] for c in checks],
                 "kind_free_text": "custom static analysis over the stdlib ast: class table + C3 MRO, resolved calls, "
                                   "structured path-sensitive abstract interpreter with exceptional edges, typestate "
                                   "automata, fold summaries, provenance terms, truth tables of pure predicates"}],
    "checks": checks,
    "not_applicable": na,
    "notes": "Family: static analysis only. Every verdict is computed from the source text of /repo/asynciojobs at run "
             "time; nothing is imported, executed or sent to a solver. Known genuine defects: known_findings.jsonl.",
}
json.dump(m, open(os.path.join(HERE, "MANIFEST.json"), "w"), indent=1)
print("claimed:", [c["property_id"] for c in checks], "n/a:", len(na))
