#!/usr/bin/env python3
"""
Install confirmed seeded changes under /verif/seeded/<id>/ and (re)evaluate every
seed against every check.  Usage:
    tools_seed_install.py --from /tmp/seed/out      # copy new seeds in, then evaluate
    tools_seed_install.py                           # re-evaluate what is installed
Each seed directory holds patch.diff, demo.py, notes.md and meta.json.
"""
import argparse, concurrent.futures, json, os, shutil, subprocess, sys, tempfile

HERE = os.path.dirname(os.path.abspath(__file__))
SEEDED = os.path.join(HERE, "seeded")
sys.path.insert(0, HERE)


def evaluate(sid):
    d = os.path.join(SEEDED, sid)
    meta = json.load(open(os.path.join(d, "meta.json")))
    tmp = tempfile.mkdtemp(prefix="seed-")
    try:
        shutil.copytree("/repo/asynciojobs", os.path.join(tmp, "asynciojobs"),
                        ignore=shutil.ignore_patterns("__pycache__"))
        r = subprocess.run(["patch", "-p1", "-s", "-d", tmp, "-i", os.path.join(d, "patch.diff")],
                           capture_output=True, text=True)
        if r.returncode != 0:
            meta["evaluation"] = {"error": "patch does not apply to the current /repo: " + (r.stdout + r.stderr)[:300]}
            return sid, meta
        demo = {}
        for label, pkg in (("unchanged", "/repo"), ("changed", tmp)):
            env = dict(os.environ, PKG=pkg, PYTHONPATH=pkg)
            try:
                x = subprocess.run(["/venv/bin/python", os.path.join(d, "demo.py")], capture_output=True, text=True,
                                   env=env, timeout=90)
                last = (x.stdout.strip().splitlines() or [""])[-1]
                demo[label] = {"exit": x.returncode, "last_line": last[:300]}
            except subprocess.TimeoutExpired:
                demo[label] = {"exit": "timeout", "last_line": ""}
        import vcheck
        det = {}
        for p in vcheck.PROPS:
            rc, lines, rep = vcheck.run_property(p, "quick", 0, root=tmp, write_evidence=False, quiet=True)
            if rc != 0:
                bad = [o for o in rep.obls if not o.ok and not o.known]
                det[p] = {"rc": rc, "rules": sorted({o.rule for o in bad}),
                          "first": ("%s | %s | %s" % (bad[0].rule, bad[0].function, bad[0].construct[:160])) if bad else
                          (rep.errors[0][1][:160] if rep.errors else "")}
        own = meta["property"]
        meta["evaluation"] = {
            "demo": demo,
            # a demo that no longer returns on the changed tree (a wedged run: its own watchdog cancels co_run(),
            # and since the repair F12 a cancelled tidy goes on waiting for tasks that never end) shows the
            # violation as a hang
            "demo_confirms": demo.get("unchanged", {}).get("exit") == 0
            and demo.get("changed", {}).get("exit") in (1, "timeout"),
            "demo_hangs_on_changed_tree": demo.get("changed", {}).get("exit") == "timeout",
            "detected_by_own_check": det.get(own, {}).get("rc") == 1,
            "own_check_rules": det.get(own, {}).get("rules", []),
            "violations_in": sorted(p for p, v in det.items() if v["rc"] == 1),
            "inconclusive_in": sorted(p for p, v in det.items() if v["rc"] == 2),
            "details": det,
        }
        return sid, meta
    finally:
        shutil.rmtree(tmp, ignore_errors=True)


def main():
    ap = argparse.ArgumentParser()
    ap.add_argument("--from", dest="src")
    ap.add_argument("--tag", default="")
    ap.add_argument("--older-than", type=float, default=0, help="minutes: only re-evaluate seeds evaluated before")
    a = ap.parse_args()
    os.makedirs(SEEDED, exist_ok=True)
    if a.src:
        for pid in sorted(os.listdir(a.src)):
            for x in ("A", "B", "C"):
                diff = os.path.join(a.src, pid, x + ".diff")
                if not os.path.exists(diff):
                    continue
                sid = "%s-%s%s" % (pid, a.tag, x)
                d = os.path.join(SEEDED, sid)
                os.makedirs(d, exist_ok=True)
                shutil.copy(diff, os.path.join(d, "patch.diff"))
                shutil.copy(os.path.join(a.src, pid, "demo_%s.py" % x), os.path.join(d, "demo.py"))
                md = os.path.join(a.src, pid, x + ".md")
                notes = open(md).read() if os.path.exists(md) else ""
                open(os.path.join(d, "notes.md"), "w").write(notes)
                suite = os.path.join(a.src, pid, "confirm_%s.txt" % x)
                meta = {
                    "id": sid, "property": pid,
                    "origin": "independent sub-agent given only the property text and a scratch worktree of /repo",
                    "what_it_needs_to_manifest": " ".join(notes.split())[:700],
                    "confirmed": {
                        "test_suite_with_change": open(suite).read().strip() if os.path.exists(suite) else "not run",
                        "how": "git apply in a scratch worktree of /repo HEAD; /venv/bin/python -m pytest -p no:cacheprovider "
                               "--timeout=900 -q; demo run with PKG=<tree> on the unchanged and on the changed tree",
                    },
                }
                json.dump(meta, open(os.path.join(d, "meta.json"), "w"), indent=1)
    sids = sorted(s for s in os.listdir(SEEDED) if os.path.isdir(os.path.join(SEEDED, s)))
    todo = sids
    if a.older_than:
        # only the seeds whose evaluation is older than that many minutes (an interrupted run is resumed)
        import time
        limit = time.time() - 60 * a.older_than
        todo = [s for s in sids if os.path.getmtime(os.path.join(SEEDED, s, "meta.json")) < limit]
        print("re-evaluating %d of %d seeds" % (len(todo), len(sids)), flush=True)
    with concurrent.futures.ProcessPoolExecutor(max_workers=14) as ex:
        futs = {ex.submit(evaluate, sid): sid for sid in todo}
        for fut in concurrent.futures.as_completed(futs):
            sid, meta = fut.result()
            json.dump(meta, open(os.path.join(SEEDED, sid, "meta.json"), "w"), indent=1)
    rows = []
    for sid in sids:
        meta = json.load(open(os.path.join(SEEDED, sid, "meta.json")))
        ev = meta.get("evaluation", {})
        rows.append((sid, meta["property"], ev.get("demo_confirms"), ev.get("detected_by_own_check"),
                     ev.get("own_check_rules"), ev.get("violations_in"), ev.get("inconclusive_in"), ev.get("error")))
    with open(os.path.join(SEEDED, "README.md"), "w") as f:
        f.write("# Seeded property-breaking changes\n\nNone of these is ever committed to /repo. Each was written by an "
                "independent sub-agent that saw only the property text, confirmed (demo fails with the change, holds "
                "without; test suite green with the change), and is re-evaluated against the current checks by "
                "`tools_seed_install.py`.\n\n| seed | property | demo confirms | own check detects | rules (own check) | "
                "violations reported by | inconclusive in |\n|---|---|---|---|---|---|---|\n")
        for r in sorted(rows):
            f.write("| %s | %s | %s | %s | %s | %s | %s |\n" % (r[0], r[1], r[2], r[3], ", ".join(r[4] or []),
                                                              ", ".join(r[5] or []), ", ".join(r[6] or []) + (" ERROR " + r[7] if r[7] else "")))
    n = len(rows)
    print("seeds: %d, demo confirmed: %d, detected by own check: %d, detected by some check: %d"
          % (n, sum(1 for r in rows if r[2]), sum(1 for r in rows if r[3]), sum(1 for r in rows if r[5])))
    for r in sorted(rows):
        if not r[3]:
            print("NOT DETECTED BY OWN CHECK:", r)


if __name__ == "__main__":
    main()
