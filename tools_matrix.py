#!/usr/bin/env python3
"""run every catalogue variant against every property; report benign variants that are
not silent somewhere (false alarms) and, for breaking variants, which properties detect them"""
import concurrent.futures, json, os, sys
HERE = os.path.dirname(os.path.abspath(__file__))
sys.path.insert(0, HERE)
from sa import selftest
from sa.selftest_catalogue import CATALOGUE
import vcheck

def main():
    only = set(sys.argv[1:])
    tasks = [(v.vid, p, "/repo") for v in CATALOGUE for p in vcheck.PROPS if (not only or v.vid in only)]
    res = {}
    with concurrent.futures.ProcessPoolExecutor(max_workers=14) as ex:
        for r in ex.map(selftest.run_variant, tasks, chunksize=4):
            res.setdefault(r[0], {})[r[1]] = (r[2], r[4], r[3])
    byid = {v.vid: v for v in CATALOGUE}
    bad = 0
    out = {}
    for vid, d in res.items():
        v = byid[vid]
        det = sorted(p for p, (rc, fired, msg) in d.items() if rc == 1)
        inc = sorted(p for p, (rc, fired, msg) in d.items() if rc == 2)
        out[vid] = {'expect': v.expect, 'declared': v.props, 'violation_in': det, 'inconclusive_in': inc}
        if v.expect in ('silent', 'nofalse') and det:
            bad += 1
            print("FALSE ALARM %s: violation in %s %s" % (vid, det, {p: d[p][1] for p in det}))
        if v.expect == 'silent' and inc:
            print("INCONCLUSIVE on benign %s: %s %s" % (vid, inc, {p: d[p][2][:120] for p in inc}))
        if v.expect == 'fire' and not det:
            skipped = all(rc == 'skipped' for rc, _, _ in d.values())
            print("%s %s: nothing fires anywhere" % ("SKIPPED" if skipped else "MISSED", vid))
    json.dump(out, open(os.path.join(HERE, "evidence", "selftest_matrix.json"), "w"), indent=1)
    print("variants:", len(res), "false alarms:", bad)

if __name__ == "__main__":
    main()
