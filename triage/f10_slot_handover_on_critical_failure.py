"""
F10 (C05): when a critical job that holds a window slot raises, the wrapper releases its slot before
its task is seen as done; a job queued for that slot starts executing its body, and is only
cancelled afterwards, when the scheduler reacts to the critical failure.
Prints `DEFECT F10 reproduced` / `DEFECT F10 not reproduced`.
"""
import _pkg  # noqa
import asyncio
from asynciojobs import PureScheduler, Job

events = []


async def boom():
    await asyncio.sleep(0.05)
    events.append('boom')
    raise RuntimeError("critical failure")


async def queued():
    events.append('start q')          # the body of q begins
    try:
        await asyncio.sleep(0.2)
        events.append('end q')
    except asyncio.CancelledError:
        events.append('cancel q')
        raise


async def main():
    s = PureScheduler(Job(boom(), critical=True, label='boom'),
                      Job(queued(), critical=False, label='q'), jobs_window=1)
    ok = await s.co_run()
    return ok

reproduced = 0
for _ in range(20):
    events.clear()
    try:
        asyncio.run(main())
    except Exception as e:                      # noqa
        pass
    if events and events[0] == 'boom' and 'start q' in events:
        reproduced += 1
print("events of the last run:", events)
print("DEFECT F10 reproduced (%d/20 runs: q's body began after the critical failure)" % reproduced
      if reproduced else "DEFECT F10 not reproduced")
