"""F4..F9: pure / single-run defects (C16, C19, C04, C14, C13, C20)."""
import _pkg, asyncio, io, contextlib
from asynciojobs import Scheduler, Job, AbstractJob, Sequence
class J(AbstractJob):
    def __init__(self, name, **k): self.name = name; super().__init__(label=name, **k)
    async def co_run(self): return self.name
    async def co_shutdown(self): pass
    def __repr__(self): return self.name
def report(fid, bad, what): print("DEFECT", fid, ("reproduced: " + what) if bad else "not reproduced")
quiet = lambda: contextlib.redirect_stdout(io.StringIO())

# F4 sanitize truthfulness on a tree
a = J("a"); b = J("b", required=a); top = Scheduler(Scheduler(a, b), J("c"))
clean = top.sanitize()
y = J("y", required=J("ghost")); top2 = Scheduler(Scheduler(J("x"), y))
dirty = top2.sanitize()
report("F4", clean is not True or dirty is not False, f"clean tree -> {clean}, tree with a dangling nested edge -> {dirty}")

# F5 append / requires(remove=True)
j1, j2, j3 = J("1"), J("2"), J("3"); s = Sequence(j1); s.append(j2, j3)
try: Sequence(J("p")).append(None); crash = None
except Exception as e: crash = type(e).__name__
q1, q2, q3 = J("q1"), J("q2"), J("q3"); sq = Sequence(q1, q2)
q3.requires(sq); q3.requires(sq, remove=True)
report("F5a", j3.required != {j2}, f"append(j2, j3): j3.required == {j3.required}")
report("F5b", crash is not None, f"append(None) raises {crash}")
report("F5c", bool(q3.required), f"requires(seq, remove=True) leaves {q3.required}")

# F6 timeout = 0
async def slp(): await asyncio.sleep(0.1)
with quiet():
    t = Scheduler(Job(slp()), timeout=0, critical=False); r = t.run()
    t2 = Scheduler(Job(slp()), timeout=0, critical=True)
    try: t2.run(); exc = None
    except Exception as e: exc = type(e).__name__
report("F6", t.why() == "FINE" or exc != "TimeoutError",
       f"run -> {r}, failed_time_out() -> {t.failed_time_out()!r}, why() -> {t.why()!r}, critical twin raises {exc}")

# F7 / F8
report("F7", J("z").raised_exception() is not None, f"idle job raised_exception() -> {J('z').raised_exception()!r}")
with quiet():
    sch = Scheduler(J("k")); sch.run(); again = sch.shutdown()
report("F8", again is not True, f"second shutdown() -> {again!r}")

# F9 dot with an empty nested scheduler that has / is a requirement
f = J("f"); e = Scheduler(label="empty"); e.requires(f)
try: Scheduler(f, e).dot_format(); exc1 = None
except Exception as ex: exc1 = f"{type(ex).__name__}: {ex}"
g = J("g"); e2 = Scheduler(label="empty2"); g.requires(e2)
try: Scheduler(g, e2).dot_format(); exc2 = None
except Exception as ex: exc2 = f"{type(ex).__name__}: {ex}"
report("F9", exc1 or exc2, f"dot_format(): {exc1} / {exc2}")
