"""
F12 (C11): a nested scheduler cancelled a second time while it waits for the tasks it has just cancelled
(three levels of nesting, jobs / shutdown handlers that need time to react to cancellation) ended with these
tasks still running after the toplevel run() had returned. Reproducer written by the C11 seeding sub-agent
(round 3) against the unchanged tree; prints PROPERTY VIOLATED on a tree without commit df43e44, PROPERTY HOLDS with it.
usage: PKG=<tree> /venv/bin/python f12_second_cancellation.py
"""
import os
import sys
import asyncio

if os.environ.get("PKG"):
    sys.path.insert(0, os.environ["PKG"])

from asynciojobs import Scheduler, AbstractJob      # noqa: E402


async def slow_to_cancel(events, name, what, duration, cleanup):
    events.append((what + "-begin", name))
    try:
        await asyncio.sleep(duration)
        events.append((what + "-end", name))
    except asyncio.CancelledError:
        events.append((what + "-cancelled", name))
        try:
            await asyncio.sleep(cleanup)
            events.append((what + "-cleanup-end", name))
        except asyncio.CancelledError:
            events.append((what + "-cleanup-interrupted", name))
        raise


class Tracked(AbstractJob):
    def __init__(self, events, name, *, run, shutdown, **kwds):
        super().__init__(label=name, **kwds)
        self.events, self.name = events, name
        self.run_spec, self.shutdown_spec = run, shutdown

    async def co_run(self):
        await slow_to_cancel(self.events, self.name, "run", *self.run_spec)

    async def co_shutdown(self):
        await slow_to_cancel(self.events, self.name, "shutdown",
                             *self.shutdown_spec)


def observe(title, build):
    loop = asyncio.new_event_loop()
    asyncio.set_event_loop(loop)
    events = []
    top = build(events)
    top.run()
    leftover = [t for t in asyncio.all_tasks(loop) if not t.done()]
    mark = len(events)
    loop.run_until_complete(asyncio.sleep(1.5))
    print(title, "events:", events)
    print(title, "unfinished tasks when run() returned:", len(leftover),
          "- activity afterwards:", events[mark:])
    bad = bool(leftover or events[mark:])
    loop.close()
    return bad


def scenario1(events):
    # depth 3: middle times out at 0.2 -> cancels inner -> inner cancels its
    # job (cleanup 1s) and waits; top times out at 0.5 -> cancels middle ->
    # middle cancels inner AGAIN -> the wait in inner's CancelledError handler
    # is interrupted, inner ends while its job is still cleaning up
    job = Tracked(events, "worker", run=(5, 1), shutdown=(0, 0))
    inner = Scheduler(job, label="inner", critical=False)
    middle = Scheduler(inner, timeout=0.2, label="middle", critical=False)
    return Scheduler(middle, timeout=0.5, label="top", critical=False)


def scenario2(events):
    # same in the shutdown phase: inner is cancelled in its main loop at 0.1
    # (middle times out), middle shuts inner down, gives up at 0.1 + 0.2 and
    # cancels inner.co_shutdown(), which cancels the handler (cleanup 1s) and
    # waits; top times out at 0.5 and cancels middle, whose co_shutdown()
    # cancels inner.co_shutdown() AGAIN
    job = Tracked(events, "closer", run=(5, 0), shutdown=(5, 1))
    inner = Scheduler(job, label="inner", critical=False)
    middle = Scheduler(inner, timeout=0.1, shutdown_timeout=0.2,
                       label="middle", critical=False)
    return Scheduler(middle, timeout=0.5, label="top", critical=False)


if __name__ == "__main__":
    bad1 = observe("scenario1", scenario1)
    bad2 = observe("scenario2", scenario2)
    if bad1 or bad2:
        print("PROPERTY VIOLATED on this tree: scenario1={} scenario2={}"
              .format(bad1, bad2))
        sys.exit(1)
    print("PROPERTY HOLDS")
