"""
F15 (C19): `requires(collection, remove=True)` iterates the collection it is given while it removes from
`self.required`; when the collection is that very set (`job.requires(job.required, remove=True)`, the natural
"drop all my requirements"), the removal changes the set under the iteration: RuntimeError, and the removal is
left half done. The documented semantics (sets are admissible arguments; remove=True removes exactly the named
requirements) give an empty set and no exception. Observation of the C19 seeding sub-agent (round 5).
Prints `DEFECT F15 reproduced` / `DEFECT F15 not reproduced`.
usage: PKG=<tree> /venv/bin/python f15_requires_own_set.py
"""
import _pkg  # noqa
from asynciojobs.job import AbstractJob


class J(AbstractJob):
    async def co_run(self):
        pass

    async def co_shutdown(self):
        pass


def main():
    a, b, c = J(label='a'), J(label='b'), J(label='c')
    c.requires(a, b)
    bad = False
    try:
        c.requires(c.required, remove=True)
    except RuntimeError as exc:
        print("RuntimeError:", exc, "- left:", sorted(j.label for j in c.required))
        bad = True
    if c.required:
        bad = True
    # nested form
    d = J(label='d')
    d.requires(a, b)
    try:
        d.requires([None, (d.required,)], remove=True)
    except RuntimeError as exc:
        print("RuntimeError (nested):", exc)
        bad = True
    if d.required:
        bad = True
    # absent requirement still raises KeyError
    try:
        d.requires({a}, remove=True)
        bad = True
    except KeyError:
        pass
    print("DEFECT F15 reproduced" if bad else "DEFECT F15 not reproduced")


main()
