"""F1 (C03/C06/C12): a raising non-critical job never gives its window slot back."""
import _pkg, asyncio, io, contextlib
from asynciojobs import PureScheduler, Job

async def boom(d):
    await asyncio.sleep(d); raise RuntimeError("boom")
async def ok(d, log):
    log.append("start b"); await asyncio.sleep(d); log.append("end b")

hit = False
for _ in range(20):          # set iteration order decides who gets the slot first
    log = []
    a = Job(boom(0.02), critical=False, label="a")
    b = Job(ok(0.02, log), label="b")
    s = PureScheduler(a, b, jobs_window=1, timeout=0.5)   # timeout = watchdog only
    with contextlib.redirect_stdout(io.StringIO()):
        r = s.run()
    if r is False and a.is_done() and not log:
        hit = True; break
print("DEFECT F1", "reproduced: b never started, run ended only by the watchdog timeout" if hit else "not reproduced")
