"""
F16 (C05): since F10 the slot of the failing critical job is kept, but not the slots of the OTHER running jobs:
a job that completes in the same loop iteration as the critical failure, or one iteration later - before
co_run() has resumed and cancelled everything - gives its slot back, which wakes a job queued on the window:
that job starts its body after the critical job has raised. (The wake-up of the queued job is scheduled before
the wake-up of co_run(): only the window wrapper can stop it.) Observation of the C05 seeding sub-agent (round 5).
Prints `DEFECT F16 reproduced` / `DEFECT F16 not reproduced`.
usage: PKG=<tree> /venv/bin/python f16_slot_of_another_job_after_critical_failure.py
"""
import _pkg  # noqa
import asyncio
import warnings
from asynciojobs import PureScheduler, Job


async def scenario(extra_iterations, n_raises):
    log = []
    event = asyncio.Event()

    async def opener():
        await asyncio.sleep(0.05)

    async def normal():
        await event.wait()
        for _ in range(extra_iterations):
            await asyncio.sleep(0)
        log.append("N over")
        if n_raises:
            raise ValueError("non critical")

    async def boom():
        await event.wait()
        log.append("C raises")
        raise RuntimeError("critical job fails")

    async def follower(name):
        log.append(name + " STARTS")
        await asyncio.sleep(10)

    j_opener = Job(opener(), critical=False, label='opener')
    followers = [Job(follower("F%d" % i), critical=False, required=j_opener) for i in range(2)]
    sched = PureScheduler(j_opener, Job(normal(), critical=False, label='N'), Job(boom(), critical=True, label='C'),
                          *followers, jobs_window=3, verbose=False)
    asyncio.get_running_loop().call_later(0.2, event.set)
    await sched.co_run()
    where = log.index("C raises")
    return [x for x in log[where:] if x.endswith("STARTS")], log


async def main():
    found = []
    for n_raises in (False, True):
        for extra in (0, 1, 2, 3):
            late, log = await scenario(extra, n_raises)
            if late:
                found.append((n_raises, extra, log))
    return found


warnings.filterwarnings('ignore', category=RuntimeWarning)
import io, contextlib
buf = io.StringIO()
with contextlib.redirect_stdout(buf):
    FOUND = asyncio.run(main())
for f in FOUND:
    print("a queued job started after the critical failure:", f)
print("DEFECT F16 reproduced" if FOUND else "DEFECT F16 not reproduced")
