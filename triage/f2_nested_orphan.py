"""F2 (C11/C13): a parent that times out leaves the jobs of a nested scheduler running."""
import _pkg, asyncio, io, contextlib
from asynciojobs import Scheduler, Job
log = []
async def ok(d, name):
    log.append(("start", name)); await asyncio.sleep(d); log.append(("end", name))
class SJ(Job):
    async def co_shutdown(self):
        log.append(("shutdown", self.label, "done" if self.is_done() else "STILL RUNNING"))
async def main():
    inner = Scheduler(SJ(ok(0.3, "i1"), label="i1"), critical=False)
    outer = Scheduler(inner, SJ(ok(0.02, "o1"), label="o1"), timeout=0.1, critical=False)
    r = await outer.co_run()
    left = [t for t in asyncio.all_tasks() if t is not asyncio.current_task()]
    n = len(log)
    await asyncio.sleep(0.4)
    return r, len(left), log[:n], log[n:]
with contextlib.redirect_stdout(io.StringIO()):
    r, left, before, late = asyncio.run(main())
print("run ->", r, "| unfinished tasks after run():", left, "| events after run():", late)
print("shutdown events:", [e for e in before if e[0] == "shutdown"])
print("DEFECT F2", "reproduced" if left or late else "not reproduced")
