import os, sys
sys.path.insert(0, os.environ.get("PKG", "/repo"))
