"""
F14 (C02 / C04 / C05): `did this job raise` is decided by the truth value of the exception object
(`if done_job.raised_exception():`, `if exc:`, `if not t._exception`): a critical job that raises an
exception whose class makes it falsy (here `__len__` returning 0) is read as `did not raise`, the run
goes on and reports success. Observation of the C02 and C04 seeding sub-agents (round 3).
Prints `DEFECT F14 reproduced` / `DEFECT F14 not reproduced`.
usage: PKG=<tree> /venv/bin/python f14_falsy_exception.py
"""
import _pkg  # noqa
import asyncio
from asynciojobs import PureScheduler, Scheduler, Job


class Quiet(Exception):
    def __len__(self):
        return 0


async def boom():
    raise Quiet()


async def later(trace):
    trace.append('later ran')


def main():
    trace = []
    a = Job(boom(), critical=True, label='a')
    b = Job(later(trace), required=a, label='b')
    sched = PureScheduler(a, b)
    verdict = sched.run()
    print("verdict", verdict, "failed_critical", sched.failed_critical(), trace)
    bad = verdict is True or trace
    # nested form: a critical nested scheduler must re-raise the job's exception
    inner = Scheduler(Job(boom(), critical=True, label='c'), critical=True, label='inner')
    outer = PureScheduler(inner)
    try:
        v2 = outer.run()
        print("nested verdict", v2, type(inner.raised_exception()).__name__)
        bad = bad or v2 is True or not isinstance(inner.raised_exception(), Quiet)
    except Exception as exc:                                # noqa
        print("nested run raised", type(exc).__name__)
        bad = True
    print("DEFECT F14 reproduced" if bad else "DEFECT F14 not reproduced")


main()
