"""
F17 (C09): with a window, a forever job still queued for a slot when the last regular job finishes is woken up
by the slot that job gives back - before co_run() resumes, notices that the run is over and cancels it: the
forever job starts (its body runs up to its first suspension point, is_running() becomes true) after the end of
the run. "Those not yet started never start." Observation of the C09 seeding sub-agent (round 5).
Prints `DEFECT F17 reproduced` / `DEFECT F17 not reproduced`.
usage: PKG=<tree> /venv/bin/python f17_forever_job_starts_after_last_regular_job.py
"""
import _pkg  # noqa
import asyncio
import warnings
from asynciojobs import Scheduler, Job


async def attempt():
    log = []

    async def regular():
        log.append("regular:start")
        await asyncio.sleep(0.05)
        log.append("regular:end")

    async def forever():
        if "regular:end" not in log:
            log.append("forever:first")       # set iteration order gave us the slot first: not the case looked for
            return
        log.append("forever:start AFTER regular:end")
        await asyncio.sleep(10)

    job_f = Job(forever(), forever=True, label="forever")
    sched = Scheduler(Job(regular(), label="regular"), job_f, jobs_window=1)
    await sched.co_run()
    return log, job_f


async def main():
    for _ in range(200):
        log, job_f = await attempt()
        if "forever:first" in log:
            continue
        print(log, "is_running() ->", job_f.is_running())
        return "forever:start AFTER regular:end" in log
    print("could not get the regular job to come first")
    return False


warnings.simplefilter("ignore", RuntimeWarning)
print("DEFECT F17 reproduced" if asyncio.run(main()) else "DEFECT F17 not reproduced")
