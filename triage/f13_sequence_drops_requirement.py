"""
F13 (C19): a requirement given to a Sequence that holds no job yet (required= of the constructor, or
requires()) is silently dropped: the job that becomes the first one through a later append() does not
get it. Observation of the C19 seeding sub-agent (round 3) on the unchanged tree.
Prints `DEFECT F13 reproduced` / `DEFECT F13 not reproduced`.
usage: PKG=<tree> /venv/bin/python f13_sequence_drops_requirement.py
"""
import _pkg  # noqa
from asynciojobs import AbstractJob, Sequence


class J(AbstractJob):
    async def co_run(self):
        pass

    async def co_shutdown(self):
        pass


r, a, b, c = J(label='r'), J(label='a'), J(label='b'), J(label='c')
s1 = Sequence(None, Sequence(), required=r)
s1.append(a, b)
s2 = Sequence()
s2.requires(r)
s2.append(c)
ok = (r in a.required) and (r in c.required) and (a in b.required) and (r not in b.required)
print("a.required =", a.required, " c.required =", c.required)
print("DEFECT F13 not reproduced" if ok else "DEFECT F13 reproduced")
