"""F3 (C02): once-guard reads the asynchronous flag; on CPython <= 3.11 a job body runs twice."""
import _pkg, sys, asyncio, io, contextlib
from asynciojobs import PureScheduler, AbstractJob
log, EV = [], {}
class J(AbstractJob):
    def __init__(self, name, ev, extra=0, fail=False, **k):
        self.name, self.ev, self.extra, self.fail = name, ev, extra, fail
        super().__init__(label=name, **k)
    async def co_run(self):
        log.append(("start", self.name))
        if self.ev: await EV[self.ev].wait()
        for _ in range(self.extra): await asyncio.sleep(0)
        if self.fail: raise RuntimeError(self.name)
    async def co_shutdown(self): pass
async def main(extra):
    log.clear()
    for i in (1, 2, 3): EV[i] = asyncio.Event()
    a = J("A", 1, fail=True, critical=False); b = J("B", 1, extra=extra)
    c = J("C", None, required=(a, b))
    s = PureScheduler(jobs_window=3, timeout=2)
    s.update([a, b, J("E", 2), J("F", 2), c, J("G", 3)])
    async def driver():
        for i in (1, 2, 3):
            await asyncio.sleep(0.03); EV[i].set()
    asyncio.ensure_future(driver())
    return await s.co_run()
hit = False
with contextlib.redirect_stdout(io.StringIO()):
    for extra in range(1, 6):
        for _ in range(100):
            r = asyncio.run(main(extra))
            if [n for ev, n in log if ev == "start"].count("C") > 1:
                hit = (extra, r); break
        if hit: break
print(sys.version.split()[0], "DEFECT F3",
      f"reproduced: body of C entered twice (extra={hit[0]}), run() -> {hit[1]}" if hit else "not reproduced")
