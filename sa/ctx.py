"""shared, lazily computed analysis context for one run of the checker"""

import os

from .index import Program, AnalysisError
from .roles import Roles
from . import effects
from .flow import Interp
from .runmodel import RunModel
from . import terms as T


class Ctx:
    def __init__(self, root=None):
        self.root = root or os.environ.get("VERIF_REPO", "/repo")
        self.prog = Program(self.root)
        self.roles = Roles(self.prog)
        self.sigs = effects.compute(self.prog)
        self._cache = {}
        self.stats = {'functions_analysed': set(), 'states': 0, 'calls': 0}

    def explore(self, func, gen_cancel=False, gen_bodyexc=False, bindings=None, model=None, self_cls=None, **kw):
        key = (func.qualname, gen_cancel, gen_bodyexc, tuple(sorted((bindings or {}).items())),
               model.__name__ if model else None, tuple(sorted(kw.items())), self_cls.name if self_cls else None)
        if isinstance(self._cache.get(key), AnalysisError):
            raise self._cache[key]          # (an exploration that failed is not tried again by the next rule)
        if key not in self._cache:
            cls = model or RunModel
            an = cls(self.prog, self.roles, self.sigs, gen_cancel=gen_cancel, gen_bodyexc=gen_bodyexc, **kw)
            ip = Interp(self.prog, an)
            try:
                out = ip.run(func, bindings=bindings, self_cls=self_cls)
            except AnalysisError as exc:
                self._cache[key] = exc
                raise
            cut = ip.__dict__.get('cutoffs')
            if cut:
                self._cache[key] = AnalysisError("helpers nested more than %d calls deep below %s (%s): what they do is not followed, "
                                                 "nothing can be concluded" % (an.max_inline, func.qualname, ", ".join(sorted(cut)[:4])))
                raise self._cache[key]
                raise AnalysisError("helpers nested more than %d calls deep below %s (%s): what they do is not followed, "
                                    "nothing can be concluded" % (an.max_inline, func.qualname, ", ".join(sorted(cut)[:4])))
            self.stats['functions_analysed'].add(func.qualname)
            self.stats['functions_analysed'] |= ip.inlined
            self.stats['states'] += ip.nstates
            self.stats['calls'] += ip.calls_seen
            self._cache[key] = (an, ip, out)
        return self._cache[key]

    def run(self, **kw):
        res = self.explore(self.roles.RUN, **kw)
        an = res[0]
        if not any(e.data.get('tkind') in ('run', 'bare') for e in an.events('SPAWN')):
            # every rule about the run reasons from the places where it gives a job its task: when the exploration
            # meets none (the task is made somewhere it does not follow) there is nothing to reason from
            raise AnalysisError("the exploration of %s meets no place where a job is given its task: the rules "
                                "about the run cannot read this form" % self.roles.RUN.qualname)
        return res

    def wrap(self, gen_cancel=False, gen_bodyexc=False, **kw):
        """the window wrapper, explored through its factory: the factory body is walked first (so that
        what the closure captures - the window, its queue, the job - has its provenance), then the
        closure it returns is walked as the body of the task"""
        key = ('wrap', gen_cancel, gen_bodyexc, tuple(sorted(kw.items())))
        if key in self._cache:
            return self._cache[key]
        from .flow import Out
        r = self.roles
        an = RunModel(self.prog, self.roles, self.sigs, gen_cancel=gen_cancel, gen_bodyexc=gen_bodyexc, **kw)
        ip = Interp(self.prog, an)
        saved = an.on_return
        an.on_return = lambda ip_, node, val, st, fr: st          # the factory's own return is not an exit
        out0 = ip.run(r.wrap_factory)
        an.on_return = saved
        out = Out()
        n = 0
        for (st, t, node) in out0.ret:
            part = None
            if t[0] == 'call' and t[1] in ('functools.partial', 'partial') and t[2] and t[2][0][0] == 'attr' \
                    and t[2][0][2] == r.WRAP.name:
                # the factory returns functools.partial(self.<wrapper>, job): the task body is that method
                part = (t[2][0][1], tuple(t[2][1:]))
            elif t[0] != 'closure' or t[1] != r.WRAP.qualname:
                continue
            n += 1
            o = Out()
            if part is not None:
                results = ip.inline(r.WRAP, part[0], part[1], (), None, st, ip.root, o, r.WRAP.node)
            else:
                results = ip.inline(r.WRAP, None, (), (), t, st, ip.root, o, r.WRAP.node)
            for (y, val) in results:
                y = an.on_return(ip, r.WRAP.node, val, y, ip.root)
                if y is not None:
                    out.ret.append((y, val, r.WRAP.node))
            out.exc += o.exc
        if not n:
            raise AnalysisError("the wrap factory %s does not return its closure" % r.wrap_factory.qualname)
        self.stats['functions_analysed'] |= {r.wrap_factory.qualname, r.WRAP.qualname} | ip.inlined
        self.stats['states'] += ip.nstates
        self.stats['calls'] += ip.calls_seen
        self._cache[key] = (an, ip, out)
        return self._cache[key]

    def broadcast(self, **kw):
        return self.explore(self.roles.BROADCAST, **kw)

    def fn(self, f):
        return "%s:%d %s" % (f.module.relpath, f.node.lineno, f.qualname)
