"""shared, lazily computed analysis context for one run of the checker"""

import os

from .index import Program, AnalysisError
from .roles import Roles
from . import effects
from .flow import Interp
from .runmodel import RunModel
from . import terms as T


class Ctx:
    def __init__(self, root=None):
        self.root = root or os.environ.get("VERIF_REPO", "/repo")
        self.prog = Program(self.root)
        self.roles = Roles(self.prog)
        self.sigs = effects.compute(self.prog)
        self._cache = {}
        self.stats = {'functions_analysed': set(), 'states': 0, 'calls': 0}

    def explore(self, func, gen_cancel=False, gen_bodyexc=False, bindings=None, model=None, **kw):
        key = (func.qualname, gen_cancel, gen_bodyexc, tuple(sorted((bindings or {}).items())),
               model.__name__ if model else None, tuple(sorted(kw.items())))
        if key not in self._cache:
            cls = model or RunModel
            an = cls(self.prog, self.roles, self.sigs, gen_cancel=gen_cancel, gen_bodyexc=gen_bodyexc, **kw)
            ip = Interp(self.prog, an)
            out = ip.run(func, bindings=bindings)
            self.stats['functions_analysed'].add(func.qualname)
            self.stats['functions_analysed'] |= ip.inlined
            self.stats['states'] += ip.nstates
            self.stats['calls'] += ip.calls_seen
            self._cache[key] = (an, ip, out)
        return self._cache[key]

    def run(self, **kw):
        return self.explore(self.roles.RUN, **kw)

    def wrap(self, **kw):
        return self.explore(self.roles.WRAP, **kw)

    def broadcast(self, **kw):
        return self.explore(self.roles.BROADCAST, **kw)

    def fn(self, f):
        return "%s:%d %s" % (f.module.relpath, f.node.lineno, f.qualname)
