"""
E6 -- obligations, verdicts, known findings, evidence files, exit codes.
"""

import json
import os
import re
import time

VERIF = os.path.dirname(os.path.dirname(os.path.abspath(__file__)))
KNOWN = os.path.join(VERIF, "known_findings.jsonl")


def norm(s):
    """normalised construct text: whitespace-insensitive, quote-insensitive"""
    s = re.sub(r"\s+", " ", str(s)).strip()
    return s.replace('"', "'")


class Obl:
    __slots__ = ('rule', 'site', 'ok', 'detail', 'function', 'construct', 'what', 'witness', 'known')

    def __init__(self, rule, site, ok, detail='', function='', construct='', what='', witness=None):
        self.rule = rule
        self.site = site
        self.ok = ok
        self.detail = detail
        self.function = function
        self.construct = construct
        self.what = what
        self.witness = witness or []
        self.known = False

    def key(self):
        return (self.rule, self.function, norm(self.construct))

    def as_json(self):
        d = {'rule': self.rule, 'site': self.site,
             'verdict': 'discharged' if self.ok else ('known-finding' if self.known else 'refuted')}
        if self.detail:
            d['detail'] = self.detail
        if not self.ok:
            d.update(function=self.function, construct=norm(self.construct), what=self.what)
            if self.witness:
                d['witness'] = self.witness[-14:]
        return d


class Report:
    def __init__(self, prop, tier='quick', seed=0):
        self.prop = prop
        self.tier = tier
        self.seed = seed
        self.obls = []
        self.errors = []
        self.counts = {}
        self.notes = []
        self.t0 = time.time()
        self.explanation = ''
        self.declined = []
        self.trusted = []
        self.extra = {}
        self._seen = set()

    # ----------------------------------------------------------- recording
    def ok(self, rule, site, detail=''):
        k = (rule, site, True)
        if k in self._seen:
            return
        self._seen.add(k)
        self.obls.append(Obl(rule, site, True, detail))

    def fail(self, rule, site, function, construct, what, witness=None, detail=''):
        o = Obl(rule, site, False, detail, function, construct, what, witness)
        k = (rule, o.key(), False)
        if k in self._seen:
            return
        self._seen.add(k)
        self.obls.append(o)

    def check(self, cond, rule, site, function, construct, what, witness=None, detail=''):
        if cond:
            self.ok(rule, site, detail)
        else:
            self.fail(rule, site, function, construct, what, witness, detail)
        return cond

    def error(self, rule, reason):
        if (rule, reason) not in self.errors:
            self.errors.append((rule, reason))

    def need(self, rule, n, minimum=1, what='instances'):
        """vacuity guard: a rule that found no instance of its anchor is not a pass"""
        self.counts[rule] = n
        if n < minimum:
            self.error(rule, "vacuity guard: %d %s found, at least %d expected" % (n, what, minimum))

    def note(self, s):
        self.notes.append(s)

    # ------------------------------------------------------------- verdict
    def load_known(self):
        out = []
        if os.path.exists(KNOWN):
            with open(KNOWN) as f:
                for line in f:
                    line = line.strip()
                    if line and not line.startswith('#'):
                        out.append(json.loads(line))
        return out

    def mark_known(self):
        """flag the refuted obligations that the committed known-findings file lists (status `known` only)"""
        known = [k for k in self.load_known()
                 if k.get('status') == 'known' and k.get('property') == self.prop]
        kkeys = {(k['rule'], k['function'], norm(k['construct'])) for k in known}
        refuted = [o for o in self.obls if not o.ok]
        for o in refuted:
            if o.key() in kkeys:
                o.known = True
        return known, refuted

    def finish(self, write_evidence=True, checker_cmd=''):
        known, refuted = self.mark_known()
        new = [o for o in refuted if not o.known]
        lines = []
        rc = 0
        for o in refuted:
            if o.known:
                lines.append("KNOWN-FINDING: property=%s %s %s -- %s (%s)"
                             % (self.prop, o.rule, o.function, o.what, norm(o.construct)))
        replay_dir = os.path.join(VERIF, "evidence", "replay")
        if new:
            rc = 1
            os.makedirs(replay_dir, exist_ok=True)
            for o in new:
                slug = re.sub(r"[^A-Za-z0-9_.-]+", "_", "%s-%s-%s" % (self.prop, o.rule, o.function))[:90]
                path = os.path.join(replay_dir, slug + ".json")
                with open(path, "w") as f:
                    json.dump({'property': self.prop, **o.as_json()}, f, indent=1, default=str)
                lines.append("---- %s refuted at %s" % (o.rule, o.site))
                lines.append("     function : %s" % o.function)
                lines.append("     construct: %s" % norm(o.construct))
                lines.append("     breaks   : %s" % o.what)
                for w in o.witness[-14:]:
                    lines.append("       path: %s  %s" % (w[0], w[1]))
                lines.append("VIOLATION property=%s replay=%s" % (self.prop, path))
        if self.errors and rc == 0:
            rc = 2
        for r, why in self.errors:
            lines.append("ANALYSIS-ERROR property=%s %s: %s" % (self.prop, r, why))
        n_ok = sum(1 for o in self.obls if o.ok)
        lines.append("%s: %d obligations, %d discharged, %d known findings, %d violations, %d analysis errors [%s, %.2fs]"
                     % (self.prop, len(self.obls), n_ok, len(refuted) - len(new), len(new),
                        len(self.errors), self.tier, time.time() - self.t0))
        if write_evidence:
            self.write_evidence(rc, checker_cmd, len(new))
        return rc, lines

    def write_evidence(self, rc, checker_cmd, nviol):
        n_ok = sum(1 for o in self.obls if o.ok)
        distinct = len({(o.rule, o.site) for o in self.obls})
        samples = [o.as_json() for o in self.obls if not o.ok][:10]
        seen_rules = set()
        for o in self.obls:
            if o.ok and o.rule not in seen_rules and len(samples) < 40:
                seen_rules.add(o.rule)
                samples.append(o.as_json())
        cov = {
            'explanation': self.explanation or 'static analysis of /repo/asynciojobs (see DESIGN.md)',
            'obligations': len(self.obls),
            'discharged': n_ok,
            'evaluations': len(self.obls),
            'distinct_nontrivial': distinct,
            'rule': 'one obligation per (rule, construct) found in the current source; non-trivial = the '
                    'rule matched a real construct of /repo (vacuity guards fail the run otherwise)',
            'samples': samples,
            'rule_instances': self.counts,
            'declined_clauses': self.declined,
            'trusted_base': self.trusted,
            'checker_cmd': checker_cmd,
            'analysis_errors': ["%s: %s" % e for e in self.errors],
            'notes': self.notes[:40],
        }
        cov.update(self.extra)
        ev = {
            'property_id': self.prop,
            'tier': self.tier,
            'seed': self.seed,
            'level': 'other',
            'coverage': cov,
            'assumptions': self.trusted,
            'wall_s': round(time.time() - self.t0, 3),
            'violations': nviol,
        }
        d = os.path.join(VERIF, "evidence")
        os.makedirs(d, exist_ok=True)
        with open(os.path.join(d, self.prop + ".json"), "w") as f:
            json.dump(ev, f, indent=1, default=str)
