"""
E3 -- the event alphabet of a scheduler run, recognised on provenance terms.

`RunModel` is the analysis plugged into the interpreter when it walks a
task-owning coroutine (the run entry point, the shutdown broadcast, the nested
form, the window wrapper).  It recognises

    SPAWN   task creation from a coroutine (windowed job body, bare job body,
            shutdown handler)
    WAIT    await asyncio.wait(X, timeout=t, return_when=FIRST_COMPLETED)
    AWAIT_ALL  await asyncio.wait(X[, timeout]) / gather(*X)
    CANCEL  X fully cancelled (loop or comprehension calling .cancel() on every element)
    TIDY    AWAIT_ALL(X) with X fully cancelled
    SHUT    await of the broadcast coroutine
    DELEGATE await of the run entry point (nested form)
    BODY    await of a member's co_run;  ACQ / REL queue put / get
    STORE   store to a data-model attribute;  RET / RAISE / YIELD

and keeps the EXIT automaton (NoTasks -> Live -> Tidied -> Shut) plus the set of
collections that may hold unfinished tasks.  Every event is logged together
with the abstract state it was seen in; rules are predicates over that log.
"""

import ast

from . import terms as T
from .flow import Analysis, truth, EMPTY
from .index import dotted
from .effects import TASK_MAKERS


class Ev:
    __slots__ = ('kind', 'node', 'where', 'st', 'data', 'loops', 'fr', 'summary')

    def __init__(self, kind, node, where, st, data, loops, fr, summary):
        self.kind = kind
        self.node = node
        self.where = where
        self.st = st
        self.data = data
        self.loops = loops
        self.fr = fr
        self.summary = summary

    def __repr__(self):
        return "<Ev %s %s %s>" % (self.kind, self.where, {k: (T.show(v, 3) if isinstance(v, tuple) else v)
                                                           for k, v in self.data.items()})


def is_wdone(t):
    return isinstance(t, tuple) and len(t) == 2 and t[0] == 'wdone'


def is_wpend(t):
    return isinstance(t, tuple) and len(t) == 2 and t[0] == 'wpend'


def includes_done(coll):
    """does the collection term include (all of) a `done` half of a wait?"""
    for c in T.union_items(coll):
        if is_wdone(c):
            return True
        if c[0] == 'binop' and c[1] in ('BitOr', 'Add') and (includes_done(c[2]) or includes_done(c[3])):
            return True
        if c[0] == 'call' and c[1] in ('list', 'set', 'tuple') and len(c[2]) == 1 and includes_done(c[2][0]):
            return True
        if c[0] == 'comp' and any(is_wdone(g[1]) for g in c[3]) and c[2][0] == 'elem':
            return True
        if c[0] == 'mcall' and c[2] == 'union' and (includes_done(c[1]) or any(includes_done(a) for a in c[3])):
            return True
    return False


HARMLESS_FILTERS = ('done', 'is_done', 'cancelled')


def unfiltered(c, registry=None):
    """a comprehension that only drops finished (or never created) tasks from its
    base collection: returns (base, mapped-to-registry?) or None"""
    if c[0] != 'comp' or len(c[3]) != 1:
        return None
    key, it, conds = c[3][0]
    elem = T.mk(('elem', it, key))
    if c[2] == elem:
        for cd in conds:
            if not (cd[:2] == ('unop', 'not') and cd[2][0] == 'mcall' and cd[2][1] == elem
                    and cd[2][2] in HARMLESS_FILTERS):
                return None
        return it
    return None


def covers(coll, item, argof=None):
    """does collection term `coll` contain (all the tasks denoted by) `item`?"""
    if coll == item:
        return True
    if argof and item[0] in ('wpend', 'apend') and item[1] in argof:
        # everything pending after a wait was in the argument of that wait
        base = unfiltered(coll) or coll
        if base == argof[item[1]]:
            return True
    for c in T.union_items(coll):
        if c[0] == 'when':
            # added under a path condition: the task it holds was created on that same path
            c = c[3]
        if c == item:
            return True
        if c[0] == 'single' and c[1] == item:
            return True
        if c[0] == 'comp' and c[2] == item and not any(g[2] for g in c[3]):
            return True
        b = unfiltered(c)
        if b is not None and covers(b, item, argof):
            return True
        if c[0] == 'call' and c[1] in ('list', 'set', 'tuple', 'BestSet', 'frozenset') and len(c[2]) == 1:
            if covers(c[2][0], item):
                return True
    return False


class RunModel(Analysis):
    note_quant_drop = True
    def __init__(self, prog, roles, sigs, gen_cancel=False, gen_bodyexc=False, inline_delegate=False):
        self.prog = prog
        self.roles = roles
        self.sigs = sigs
        self.gen_cancel = gen_cancel
        self.gen_bodyexc = gen_bodyexc
        self.inline_delegate = inline_delegate
        self.max_cancels = 2
        self.log = []
        self._seen = set()
        self.skipped = set()

    # ------------------------------------------------- cancellation model
    def cancel_edge(self, ip, node, st, fr, msg):
        """an activation can be cancelled by its enclosing scheduler at any suspension point, and a second
        time while it is handling the first one: the canceller waits for it, but can be cancelled itself
        meanwhile (three levels of nesting), and its handler then cancels its tasks again. Two deliveries are
        modelled; a third one meets the same code in the same state as the second."""
        n = st.a('cdelivered') or 0
        if not self.gen_cancel or n >= self.max_cancels:
            return []
        return [(st.set(cdelivered=n + 1).note(ip.where(node, fr), msg if n == 0 else "cancelled again: " + msg),
                 None, ('Cancelled',))]

    def registry_cover(self, x):
        """[j.<registry> for j in self.jobs if <only drops never-started or finished>]"""
        r = self.roles
        # (a snapshot of the member set - list(self.jobs), tuple(...) - holds the members)
        members = T.mk(('attr', T.SELF, 'jobs'))
        for w in ('list', 'tuple', 'set', 'frozenset', 'sorted', 'BestSet'):
            snap = T.mk(('call', w, (members,), ()))
            if T.contains(x, snap):
                x = T.mk(T.replace(x, snap, members))
        if x[0] == 'union' and len(x[1]) == 1 and tuple(x[1])[0][0] == 'comp':
            x = tuple(x[1])[0]
        if x[0] == 'comp':
            # a comprehension over a comprehension (`tasks = (j._task for j in jobs); [t for t in tasks if t]`)
            x = T.flatten_comp(T.mk(x))
        if x[0] == 'union' and len(x[1]) == 1:
            # tasks = []; for j in self.jobs: if j.<registry> is not None: tasks.append(j.<registry>)
            (it,) = tuple(x[1])
            if it[0] == 'when' and not it[2] and it[3][0] == 'single':
                v = it[3][1]
                if T.is_attr(v, r.registry_attr) and v[1][0] == 'elem' and v[1][1] == T.mk(('attr', T.SELF, 'jobs')):
                    elem = v[1]
                    reg = v
                    okc = {(reg, True), (T.mk(('cmp', 'is not', reg, T.NONE)), True), (T.mk(('cmp', 'is', reg, T.NONE)), False),
                           (T.mk(('mcall', elem, 'is_scheduled', (), ())), True), (T.mk(('mcall', elem, 'is_idle', (), ())), False),
                           (T.mk(('mcall', elem, 'is_done', (), ())), False), (T.mk(('mcall', reg, 'done', (), ())), False)}
                    return all(c in okc for c in it[1])
            if it[0] == 'single':
                return False
        x = x if x[0] == 'comp' else None
        if x is None or len(x[3]) != 1:
            return False
        key, it, conds = x[3][0]
        if it != T.mk(('attr', T.SELF, 'jobs')):
            return False
        elem = T.mk(('elem', it, key))
        reg = T.mk(('attr', elem, r.registry_attr))
        if x[2] != reg:
            return False
        from .rules.runrules import conj_items
        for cd in conj_items(conds):
            ok = cd in (reg, T.mk(('cmp', 'is not', reg, T.NONE)), T.mk(('mcall', elem, 'is_scheduled', (), ())),
                        T.mk(('unop', 'not', ('mcall', elem, 'is_idle', (), ()))),
                        T.mk(('unop', 'not', ('mcall', elem, 'is_done', (), ()))),
                        T.mk(('unop', 'not', ('mcall', reg, 'done', (), ()))))
            if not ok:
                return False
        return True

    # ------------------------------------------------------------- logging
    def ev(self, ip, kind, node, st, fr, **data):
        key = (kind, id(node), st.key(), tuple(sorted((k, v) for k, v in data.items()
                                                       if isinstance(v, (tuple, str, bool, int, type(None))))))
        if key in self._seen:
            return
        self._seen.add(key)
        self.log.append(Ev(kind, node, ip.where(node, fr), st, data, list(ip.loopctx), fr,
                           bool(ip.in_summary)))

    def events(self, *kinds, summary=False):
        return [e for e in self.log if e.kind in kinds and (summary or not e.summary)]

    # ------------------------------------------------------------- inlining
    def want_inline(self, ip, func, fr):
        r = self.roles
        if func is r.RUN:
            return self.inline_delegate
        if func is r.BROADCAST:
            return False
        if func.parent is not None or func is r.wrap_factory:
            return True
        if func.nested and any(isinstance(n, ast.Return) and isinstance(n.value, ast.Name)
                               and n.value.id in func.nested for n in ast.walk(func.node)):
            return True
        sig = self.sigs.get(func.qualname)
        n = func.name
        if func.cls is not None and func.cls.name.startswith('_') and not func.is_async:
            return True         # methods of a small helper class private to the package
        if func.cls is not None and func.cls.name.startswith('_') and n in ('__aenter__', '__aexit__'):
            return True         # ... its context-manager protocol included
        private = n.startswith('_') and not (n.startswith('__') and n.endswith('__'))
        if sig is None:
            return private
        relevant = (sig.suspends or sig.spawns or sig.cancels or sig.yields
                    or (sig.stores & r.data_attrs))
        if not private and func.cls is r.window_cls and sig.spawns and not func.is_async:
            return True         # the window may be the one that makes the task of a job it is given
        if not private:
            return False
        if relevant:
            return True
        if func.cls is r.window_cls and sig.stores:
            return True         # the window's own bookkeeping (a flag that closes it, a count of what is left)
        # effect-free helper: worth walking only when its value is used
        if func.is_async:
            if any(isinstance(n, ast.Return) and n.value is not None
                   and not (isinstance(n.value, ast.Constant) and n.value.value is None)
                   for n in ast.walk(func.node)):
                return True         # it computes something for its caller (e.g. a verdict over the done tasks)
            self.skipped.add(func.qualname)
            return False
        return True

    def on_call(self, ip, node, fterm, args, kws, st, fr):
        # value-less calls of effect-free private helpers are skipped altogether
        d = None
        if fterm[0] == 'mod':
            d = fterm[1]
        elif fterm[0] == 'attr' and fterm[2] in ('create_task', 'ensure_future') \
                and ip.resolve(fterm, fr, node)[2] != 'func':
            # (loop.create_task(...) - not a method of the package that happens to bear that name)
            d = fterm[2]
        if d in TASK_MAKERS and args:
            return [self.spawn(ip, node, args[0], st, fr)]
        ra = self.roles.reverse_attr
        if fterm[0] == 'attr' and fterm[2] in ('add', 'update') and T.is_attr(fterm[1], ra) and args:
            self.ev(ip, 'LINK', node, st, fr, obj=fterm[1][1], val=args[0], how=fterm[2],
                    conds=tuple(sorted(((k, v) for k, v in st.facts.items()
                                        if any(c.elem is not None and T.contains(k, c.elem)
                                               for c in ip.loopctx)
                                        and not (v and any(k == c.iter for c in ip.loopctx))), key=repr)))
            return [(st.set(linked=True), T.NONE)]
        if fterm[0] == 'class' and fterm[1] == self.roles.window_cls.name:
            self.ev(ip, 'NEWWIN', node, st, fr, in_loop=bool(ip.loopctx), depth=fr.depth)
        if fterm[0] == 'attr' and fterm[2] == 'cancel' and not args:
            return [self.cancel(ip, node, fterm[1], st, fr)]
        if fterm[0] == 'attr' and fterm[2] in ('put_nowait', 'get_nowait'):
            kind = 'ACQ' if fterm[2] == 'put_nowait' else 'REL'
            st2 = self.slot(ip, node, kind, fterm[1], st, fr, awaited=False)
            return [(st2, ('unk', 'q'))]
        par = getattr(node, '_parent', None)
        if isinstance(par, ast.Expr) and fterm[0] == 'attr':
            callee, recv, kind = ip.resolve(fterm, fr, node)
            if kind == 'func' and not callee.is_async and not callee.is_generator:
                sig = self.sigs.get(callee.qualname)
                helper_obj = callee.cls is not None and callee.cls.name.startswith('_') and recv is not None \
                    and recv[0] == 'new'
                own_state = bool(sig and sig.stores) and callee.cls is not None and (
                    callee.cls is self.roles.window_cls or callee.cls.name.startswith('_'))
                if sig is not None and not helper_obj and not own_state and not (
                        sig.suspends or sig.spawns or sig.cancels or sig.raises
                        or (sig.stores & self.roles.data_attrs)):
                    self.skipped.add(callee.qualname)
                    return [(st, ('unk', 'skipped'))]
        return None

    # --------------------------------------------------------------- spawn
    def coro_job(self, t):
        """(kind, job term, window term) of a coroutine term"""
        r = self.roles
        if t[0] == 'coro':
            b = dict(t[2])
            if t[1] == r.WRAP.qualname:
                w = b.get('self')
                if w is None:
                    # the closure may capture a local derived from the window (its queue ...)
                    wn = r.window_cls.name
                    for v in b.values():
                        for s_ in T.subterms(v):
                            if len(s_) == 4 and s_[0] == 'new' and s_[1] == wn:
                                w = s_
                return 'run', b.get(r.wrap_jobvar), w
            f = self.prog.funcs.get(t[1])
            if f is not None and f.name == 'co_run':
                return 'bare', b.get(f.params[0]) if f.params else None, None
            if f is not None and f.name == 'co_shutdown':
                return 'shut', b.get(f.params[0]) if f.params else None, None
            # a coroutine closure that is not the recognised wrapper
            if f is not None and f.parent is not None:
                return 'other', None, None
            return 'other', None, None
        if t[0] == 'mcall' and t[2] == 'co_run':
            return 'bare', t[1], None
        if t[0] == 'mcall' and t[2] == 'co_shutdown':
            return 'shut', t[1], None
        return 'other', None, None

    def spawn(self, ip, node, arg, st, fr):
        kind, job, window = self.coro_job(arg)
        task = T.mk(('task', kind, job if job is not None else ('unk', 'job')))
        phase = st.a('phase', 'NoTasks')
        self.ev(ip, 'SPAWN', node, st, fr, tkind=kind, job=job, window=window, task=task, phase=phase,
                coro=arg, nwait=st.a('nwait', 0), susp=st.a('susp', False), gset=st.a('gset'), tf=st.a('tf'), cf=st.a('cf_flag'),
                built=st.a('built', False), reg_reset=st.a('reg_reset', False),
                ibase=next((c.base for c in reversed(ip.loopctx) if c.kind == 'for' and c.base is not None), None))
        if kind != 'shut':
            # whatever the coroutine is (a job through its window, a bare job, or anything else - a monitor, a
            # watchdog): a task the run creates is a task it has to cancel and await before it ends
            live = st.a('live', frozenset()) | frozenset([task])
            st = st.set(live=live, phase='Live' if phase in ('NoTasks', 'Live') else phase,
                        nstart=1)
        elif kind == 'shut':
            st = st.set(shut_live=st.a('shut_live', frozenset()) | frozenset([task]), nshut=1)
        return (st.note(ip.where(node, fr), "task created for %s" % T.show(job, 3)), task)

    # -------------------------------------------------------------- cancel
    def cancel(self, ip, node, target, st, fr):
        self.ev(ip, 'CANCEL1', node, st, fr, target=target)
        if target[0] == 'elem':
            coll, key = target[1], target[2]
            ctx = None
            for c in ip.loopctx:
                if c.key == key:
                    ctx = c
            if ctx is not None and ctx.kind == 'comp':
                if not ctx.conds:
                    st = self.mark_cancelled(ip, node, coll, st, fr)
                else:
                    self.ev(ip, 'CANCEL_FILTERED', node, st, fr, coll=coll, conds=tuple(ctx.conds))
            elif ctx is not None:
                st = st.set(**{'cf': st.a('cf', frozenset()) | frozenset([key])})
        return (st, T.NONE)

    def mark_cancelled(self, ip, node, coll, st, fr):
        self.ev(ip, 'CANCEL_ALL', node, st, fr, coll=coll)
        return st.set(cancelled=st.a('cancelled', frozenset()) | frozenset([coll])) \
                 .note(ip.where(node, fr), "every element of %s cancelled" % T.show(coll, 3))

    def _cancel_loop(self, ctx):
        """does the loop body syntactically call <target>.cancel() ?"""
        c = getattr(self, '_cl', None)
        if c is None:
            c = self._cl = {}
        k = id(ctx.node)
        if k not in c:
            res = False
            if isinstance(ctx.target, ast.Name):
                for n in ast.walk(ctx.node):
                    if isinstance(n, ast.Call) and isinstance(n.func, ast.Attribute) and n.func.attr == 'cancel' \
                            and isinstance(n.func.value, ast.Name) and n.func.value.id == ctx.target.id:
                        res = True
            c[k] = res
        return c[k]

    def on_iter(self, ip, ctx, st, fr):
        if ctx.kind == 'for' and not ip.in_summary:
            ctx.base = frozenset(st.facts.keys())
            if st.a('noreq') is not None:
                st = st.set(noreq=None)         # (what was learnt about the previous element)
        if ctx.kind != 'for' or not self._cancel_loop(ctx):
            return st
        k = ctx.key
        cit, cf, bad = st.a('cit', frozenset()), st.a('cf', frozenset()), st.a('cfbad', frozenset())
        if k in cit and k not in cf:
            bad = bad | frozenset([k])
        return st.set(cit=cit | frozenset([k]), cf=cf - frozenset([k]), cfbad=bad)

    def on_loop_exit(self, ip, ctx, st, fr):
        if ctx.kind == 'for' and ctx.zero_iterations and ctx.iter == T.mk(('attr', T.SELF, 'jobs')) \
                and st.a('nstart', 0) and not ip.in_summary:
            # tasks were created from members of this scheduler: its member set is not empty
            return None
        if ctx.kind != 'for' or not self._cancel_loop(ctx):
            return st
        k = ctx.key
        cit, cf, bad = st.a('cit', frozenset()), st.a('cf', frozenset()), st.a('cfbad', frozenset())
        fk = frozenset([k])
        clean = st.set(cit=cit - fk, cf=cf - fk, cfbad=bad - fk)
        if k not in cit:
            # no iteration: the collection is empty, vacuously all cancelled
            return self.mark_cancelled(ip, ctx.node, ctx.iter, clean, fr)
        if k in cf and k not in bad:
            return self.mark_cancelled(ip, ctx.node, ctx.iter, clean, fr)
        self.ev(ip, 'CANCEL_PARTIAL', ctx.node, st, fr, coll=ctx.iter)
        return clean

    # --------------------------------------------------------------- awaits
    def on_await(self, ip, node, t, st, fr):
        r = self.roles
        if t[0] == 'call' and t[1] == 'asyncio.wait' and t[2]:
            return self.wait(ip, node, t, st, fr)
        if t[0] == 'call' and t[1] == 'asyncio.gather':
            xs = [a[1] for a in t[2] if a[0] == 'star']
            x = xs[0] if len(xs) == 1 and len(t[2]) == 1 else T.mk(('tuple', t[2]))
            return self.await_all(ip, node, x, None, 'gather', st, fr)
        if t[0] == 'coro' and t[1] == r.BROADCAST.qualname:
            return self.shut(ip, node, t, st, fr)
        if t[0] == 'coro' and t[1] == r.RUN.qualname and self.inline_delegate:
            self.ev(ip, 'DELEGATE', node, st, fr, coro=t)
            return None
        if t[0] == 'coro' and t[1] == r.RUN.qualname:
            self.ev(ip, 'DELEGATE', node, st, fr, coro=t)
            out = self.cancel_edge(ip, node, st, fr, "CancelledError delivered while the inherited run is awaited")
            out.append((st.set(delegated=True), T.mk(('runresult',)), None))
            return out
        if t[0] == 'mcall' and t[2] in ('put', 'get') and self._is_queue(t[1]):
            kind = 'ACQ' if t[2] == 'put' else 'REL'
            out = []
            # T4: get() on a queue that holds this activation's own item does not suspend
            nonblocking = kind == 'REL' and st.a('slot', 'Free') == 'Held'
            if not nonblocking:
                out += self.cancel_edge(ip, node, st, fr, "CancelledError delivered at queue.%s" % t[2])
            st2 = self.slot(ip, node, kind, t[1], st, fr, awaited=True)
            if not nonblocking:
                # the wait for a slot lets other tasks run: what was read from attributes before is stale
                st2 = st2.forget(lambda s: T.is_attr(s) or s[0] == 'mcall')
            out.append((st2, ('unk', 'q'), None))
            return out
        if (t[0] == 'mcall' and t[2] == 'co_run') or (t[0] == 'coro' and self._is_member_corun(t)):
            job = t[1] if t[0] == 'mcall' else None
            self.ev(ip, 'BODY', node, st, fr, job=job, slot=st.a('slot', 'Free'))
            st = st.set(body_started=True)
            out = self.cancel_edge(ip, node, st, fr, "CancelledError delivered inside the job body")
            if self.gen_bodyexc:
                out.append((st.note(ip.where(node, fr), "the job body raises"), None, ('BodyExc',)))
            y = st.forget(lambda s: T.is_attr(s) or s[0] == 'mcall')
            out.append((y.set(body_done=True), T.mk(('bodyresult', job if job is not None else ('unk', 'job'))), None))
            return out
        if (t[0] == 'mcall' and t[2] == 'create_future' and not t[3]) or \
                (t[0] == 'call' and t[1] in ('asyncio.Future', 'Future') and not t[2]):
            # a future made on the spot and awaited: nobody else holds it, nothing can complete it - this await
            # only ever ends by cancellation (a task that parks itself until its scheduler cancels it)
            self.ev(ip, 'PARK', node, st, fr, slot=st.a('slot', 'Free'))
            out = self.cancel_edge(ip, node, st, fr, "CancelledError delivered to a parked task")
            return out
        # any other await: note whether it may suspend (for once-guard rules)
        if ip.term_may_suspend(t) and not (t[0] == 'coro' and self._inlinable(ip, t, fr)):
            self.ev(ip, 'SUSPEND', node, st, fr, term=t)
        return None

    def _inlinable(self, ip, t, fr):
        f = self.prog.funcs.get(t[1])
        return f is not None and ip.can_inline(f, fr)

    def _is_member_corun(self, t):
        f = self.prog.funcs.get(t[1])
        return f is not None and f.name == 'co_run' and f is not self.roles.RUN \
            and f.cls is not None and self.roles.jobbase in f.cls.mro

    def _is_queue(self, t):
        return True

    def slot(self, ip, node, kind, q, st, fr, awaited):
        cur = st.a('slot', 'Free')
        self.ev(ip, kind, node, st, fr, queue=q, slot=cur, awaited=awaited)
        if kind == 'ACQ':
            return st.set(slot='Held', acqs=min(2, st.a('acqs', 0) + 1)).note(ip.where(node, fr), "slot acquired")
        return st.set(slot='Free' if cur == 'Held' else 'BadRelease').note(ip.where(node, fr), "slot released")

    def wait(self, ip, node, t, st, fr):
        kws = dict(t[3])
        arg = t[2][0]
        rw = kws.get('return_when')
        first = rw is not None and rw[0] == 'mod' and rw[1].endswith('FIRST_COMPLETED')
        timeout = kws.get('timeout')
        if not first:
            return self.await_all(ip, node, arg, timeout, 'wait', st, fr,
                                  return_when=rw)
        site = (node.lineno, node.col_offset)
        live = st.a('live', frozenset())
        uncovered = [x for x in live if not covers(arg, x, dict(st.a('argof', ())))]
        self.ev(ip, 'WAIT', node, st, fr, arg=arg, timeout=timeout, site=site, live=live,
                uncovered=tuple(uncovered), phase=st.a('phase', 'NoTasks'))
        wd, wp = T.mk(('wdone', site)), T.mk(('wpend', site))
        y = st.forget(lambda s: s == wd or s == wp or T.is_attr(s) or s[0] == 'mcall')
        c = st.a('cause') or self.cause_of(st)
        if c is not None and c[0] in ('expired', 'critical', 'success'):
            # a FIRST_COMPLETED wait reached after the run decided to leave its loop:
            # not the main wait; the decision (cause) stays
            self.ev(ip, 'LATEWAIT', node, st, fr, arg=arg, cause=c)
            y = y.set(live=frozenset([wp]) | frozenset(uncovered), cause=c, susp=True)
        else:
            # (a task the wait was not given - a monitor started on the side - is still there afterwards)
            y = y.set(live=frozenset([wp]) | frozenset(uncovered), susp=False, nwait=1,
                      cancelled=frozenset(), cur_wait=site, incs=0, count_ok=None, cause=None)
        y = y.note(ip.where(node, fr), "asyncio.wait(FIRST_COMPLETED) returns (done, pending)")
        out = self.cancel_edge(ip, node, st, fr, "CancelledError delivered at the main wait")
        out.append((y, T.mk(('tuple', (wd, wp))), None))
        return out

    def cause_of(self, st):
        """why is this path leaving the main loop? read off the path facts"""
        site = st.a('cur_wait')
        if site is None:
            return None
        wd = T.mk(('wdone', site))
        if st.facts.get(wd) is False:
            return ('expired', None)
        for k, v in st.facts.items():
            if v and k[0] == 'exists' and k[1] == wd:
                return ('critical', k)
        if st.a('count_ok') is not None:
            return ('success', st.a('count_ok'))
        return ('unknown', None)

    def with_cause(self, st):
        if st.a('cause') is None and st.a('cur_wait') is not None:
            c = self.cause_of(st)
            if c is not None:
                return st.set(cause=c)
        return st

    def finished_only(self, x):
        """a collection derived from the `done` half of a wait only"""
        has_done = T.mentions(x, is_wdone)
        has_live = T.mentions(x, lambda s: is_wpend(s) or (len(s) == 3 and s[0] == 'task'))
        return has_done and not has_live

    def await_all(self, ip, node, x, timeout, how, st, fr, return_when=None):
        cancelled = x in st.a('cancelled', frozenset())
        live = st.a('live', frozenset())
        shut_live = st.a('shut_live', frozenset())
        phase = st.a('phase', 'NoTasks')
        bounded = timeout is not None and timeout != T.NONE
        fin = self.finished_only(x)
        argof = dict(st.a('argof', ()))
        covers_live = bool(live) and (all(covers(x, i, argof) for i in live) or self.registry_cover(x))
        covers_shut = bool(shut_live) and all(covers(x, i, argof) for i in shut_live)
        self.ev(ip, 'AWAIT_ALL', node, st, fr, coll=x, timeout=timeout, how=how, cancelled=cancelled,
                phase=phase, finished_only=fin, covers_live=covers_live, covers_shut=covers_shut,
                bounded=bounded, return_when=return_when, live=live, shut_live=shut_live)
        out = self.cancel_edge(ip, node, st, fr, "CancelledError delivered while awaiting %s" % T.show(x, 3))
        y = st.forget(lambda s: T.is_attr(s) or s[0] == 'mcall')
        y = y.set(susp=True)
        res = ('awaited', ('call', 'asyncio.' + how, (x,), ()))
        if how == 'wait':
            site = (node.lineno, node.col_offset)
            wd, wp = T.mk(('adone', site)), T.mk(('apend', site))
            res = ('tuple', (wd, wp))
            y = y.forget(lambda s: s == wd or s == wp)
            ao = dict(st.a('argof', ()))
            ao[site] = x
            y = y.set(argof=tuple(sorted(ao.items(), key=repr)))
        if cancelled and not bounded:
            # TIDY(x)
            if covers_live:
                y = self.with_cause(y) if st.a('cause') is not None else y.set(cause=self.cause_of(st))
                y = y.set(live=frozenset(), phase='Tidied' if phase == 'Live' else phase)
                y = y.note(ip.where(node, fr), "tidy: all live job tasks cancelled and awaited")
                self.ev(ip, 'TIDY', node, st, fr, coll=x, what='jobs', phase=phase)
            elif covers_shut:
                y = y.set(shut_live=frozenset(), shut_tidied=True)
                self.ev(ip, 'TIDY', node, st, fr, coll=x, what='shutdown', phase=phase)
            elif live and not fin and how == 'wait' or (live and T.mentions(x, is_wpend)):
                self.ev(ip, 'TIDY_PARTIAL', node, st, fr, coll=x, live=live, phase=phase)
            else:
                self.ev(ip, 'TIDY', node, st, fr, coll=x, what='finished' if fin else 'other', phase=phase)
        elif covers_shut and bounded:
            # bounded wait on the shutdown tasks: stragglers are the pending half
            y = y.set(shut_live=frozenset([wp]), shut_waited=True)
        elif covers_shut and not bounded:
            y = y.set(shut_live=frozenset(), shut_waited=True)
        if how == 'wait' and not bounded and not cancelled:
            # T1: without a timeout (and waiting for all) nothing is left pending
            rw = return_when
            if rw is None or (rw[0] == 'mod' and rw[1].endswith('ALL_COMPLETED')):
                y2 = y.assume(wp, False)
                if y2 is not None:
                    y = y2
        out.append((y, T.mk(res), None))
        return out

    def shut(self, ip, node, t, st, fr):
        phase = st.a('phase', 'NoTasks')
        self.ev(ip, 'SHUT', node, st, fr, phase=phase, live=st.a('live', frozenset()))
        out = self.cancel_edge(ip, node, st, fr, "CancelledError delivered during the shutdown broadcast")
        y = st.forget(lambda s: T.is_attr(s) or s[0] == 'mcall')
        if st.a('cause') is None:
            y = y.set(cause=self.cause_of(st))
        y = y.set(phase='Shut' if phase == 'Tidied' else phase, susp=True, shut_done=True)
        # what the broadcast (and what it calls) stores is no longer known here
        sig = self.sigs.get(self.roles.BROADCAST.qualname)
        if sig is not None:
            if self.roles.timeout_flag in sig.stores and st.a('tf') is not None:
                y = y.set(tf='overwritten by the shutdown broadcast')
            if self.roles.critical_flag in sig.stores and st.a('cf_flag') is not None:
                y = y.set(cf_flag='overwritten by the shutdown broadcast')
        y = y.note(ip.where(node, fr), "shutdown broadcast awaited")
        out.append((y, T.mk(('shutresult',)), None))
        return out

    # ------------------------------------------------------------- branches
    def on_branch(self, ip, node, term, val, st, fr):
        while term[:2] == ('unop', 'not'):
            term, val = term[2], not val
        if term[0] == 'cmp' and term[1] in ('==', '>=', '<=', '!=', '<', '>') \
                and (term[2][0] == 'acc' or term[3][0] == 'acc'):
            self.ev(ip, 'COUNTCMP', node, st, fr, term=term, val=val)
            if val:
                st = st.set(count_ok=term)
        if T.is_attr(term, 'required') and term[1][0] == 'elem' and val is False and not ip.in_summary:
            # `if not job.required:` - the job has no requirement at all: remembered for the rest of the iteration
            # (the fact itself is dropped where the branches of the `if` join)
            st = st.set(noreq=term[1])
        if ((term[0] == 'mcall' and term[2] == 'is_critical') or T.is_attr(term, 'critical')) \
                and not ip.in_summary and term[1] == T.mk(('var', self.roles.wrap_jobvar)):
            # criticality of a job is configuration: what a branch learnt stays true (a later test of it on the
            # same path cannot come out the other way, even where the fact itself was dropped at a join)
            known = st.a('crit')
            if known is not None and known[0] == term and known[1] != val:
                return None
            st = st.set(crit=(term, val))
        if ((term[0] == 'mcall' and term[2] == 'is_forever') or T.is_attr(term, 'forever')) \
                and not ip.in_summary and term[1] == T.mk(('var', self.roles.wrap_jobvar)):
            # ... and so is `forever`
            known = st.a('fvr')
            if known is not None and known[0] == term and known[1] != val:
                return None
            st = st.set(fvr=(term, val))
        if term == T.mk(('attr', T.SELF, 'jobs')) and not val and st.a('phase', 'NoTasks') == 'NoTasks':
            st = st.set(no_members=True)
        g = self.roles.guard_attr
        if g and term == T.mk(('attr', T.SELF, g)) and not val:
            st = st.set(gtested=True)
        if g and term[0] == 'cmp' and term[2] == T.mk(('attr', T.SELF, g)) and (
                (term[1] in ('is', '==') and term[3] == T.TRUE and not val) or
                (term[1] in ('is not', '!=') and term[3] == T.FALSE and not val)):
            # `if self.flag is True: return` not taken (the flag only ever holds True or False)
            st = st.set(gtested=True)
        if val and term[0] == 'call' and term[1] == 'all' and len(term[2]) == 1 and term[2][0][0] == 'comp':
            # `all(t.done() for t in X)` holds: X holds no unfinished task. If X was cancelled before, that is
            # the outcome of a tidy (a wait loop that ends on this test rather than on the wait itself)
            c = term[2][0]
            elt, gens = c[2], c[3]
            if len(gens) == 1 and not gens[0][2] and elt[0] == 'mcall' and elt[2] == 'done' \
                    and elt[1][0] == 'elem' and elt[1][1] == gens[0][1]:
                x = gens[0][1]
                argof = dict(st.a('argof', ()))
                live = st.a('live', frozenset())
                sl = st.a('shut_live', frozenset())
                was_cancelled = x in st.a('cancelled', frozenset())
                if live and (all(covers(x, i, argof) for i in live) or self.registry_cover(x)):
                    ph = st.a('phase', 'NoTasks')
                    if was_cancelled:
                        self.ev(ip, 'TIDY', node, st, fr, coll=x, what='jobs', phase=ph)
                        st = self.with_cause(st) if st.a('cause') is not None else st.set(cause=self.cause_of(st))
                    st = st.set(live=frozenset(), phase='Tidied' if ph == 'Live' else ph)
                    st = st.note(ip.where(node, fr), "every task of %s is done" % T.show(x, 3))
                elif sl and all(covers(x, i, argof) for i in sl):
                    if was_cancelled:
                        self.ev(ip, 'TIDY', node, st, fr, coll=x, what='shutdown', phase=st.a('phase', 'NoTasks'))
                    st = st.set(shut_live=frozenset(), shut_tidied=True)
        if not val:
            # a collection known to be empty holds no unfinished task
            argof = dict(st.a('argof', ()))
            live = st.a('live', frozenset())
            gone = frozenset(i for i in live if covers(term, i, argof))
            if live and self.registry_cover(term):
                # the registry holds every started task (the start stores it synchronously)
                gone = live
            if gone:
                live = live - gone
                ph = st.a('phase', 'NoTasks')
                st = st.set(live=live, phase='Tidied' if (not live and ph == 'Live') else ph)
                st = st.note(ip.where(node, fr), "%s is empty: nothing left to tidy" % T.show(term, 3))
            sl = st.a('shut_live', frozenset())
            gone = frozenset(i for i in sl if covers(term, i, argof))
            if gone:
                st = st.set(shut_live=sl - gone)
        return st

    def on_suspend(self, ip, node, term, st, fr):
        return st.set(susp=True)

    def on_back_edge(self, ip, st):
        # per-iteration bookkeeping does not survive the iteration
        a = st.auto
        # "this collection has been cancelled" survives an iteration only in a loop that starts nothing: in the
        # main loop the collections are re-made; a loop that only waits again (a tidy that resumes its wait after
        # being cancelled itself) still speaks of the same, cancelled, tasks
        keep = bool(ip.loopctx) and not self._loop_spawns(ip.loopctx[-1].node)
        if a.get('incs') or a.get('count_ok') is not None or (a.get('cancelled') and not keep):
            return st.set(incs=0, count_ok=None, cancelled=a.get('cancelled') if keep else frozenset())
        return st

    def _loop_spawns(self, node):
        c = self.__dict__.setdefault('_lspawn', {})
        if id(node) not in c:
            res = False
            for n in ast.walk(node):
                if isinstance(n, ast.Call):
                    name = n.func.attr if isinstance(n.func, ast.Attribute) else getattr(n.func, 'id', '')
                    if name in ('create_task', 'ensure_future') or any(
                            q.endswith('.' + name) and sg.spawns for q, sg in self.sigs.items()):
                        res = True
                        break
            c[id(node)] = res
        return c[id(node)]

    def keep_fact(self, ip, func, term):
        if term[0] in ('wdone', 'wpend', 'adone', 'apend'):
            return True
        d = self.roles.deadline_attr
        return d is not None and T.mentions(term, lambda s: T.is_attr(s, d))

    # --------------------------------------------------------------- stores
    def on_store_attr(self, ip, node, obj, attr, val, st, fr, aug=None):
        wn = self.roles.window_cls.name
        if T.mentions(val, lambda s: len(s) == 4 and s[0] == 'new' and s[1] == wn):
            self.ev(ip, 'STOREWIN', node, st, fr, obj=obj, attr=attr)
        r = self.roles
        if attr in r.data_attrs:
            self.ev(ip, 'STORE', node, st, fr, obj=obj, attr=attr, val=val, aug=aug,
                    phase=st.a('phase', 'NoTasks'), slot=st.a('slot', 'Free'), nwait=st.a('nwait', 0),
                    nstart=st.a('nstart', 0), depth=fr.depth)
        upd = {}
        root = getattr(ip, 'root', None)
        wpath = attr if obj == T.SELF else (obj[2] + '.' + attr if T.is_attr(obj) and obj[1] == T.SELF else None)
        if wpath is not None and root is not None and root.func.cls is r.window_cls and fr.func.name != '__init__':
            # the window's own state - or that of a state object it keeps in one of its attributes - written by the
            # wrapper (a flag that closes it, a count of what is left)
            attr_ = attr
            attr = wpath
            self.ev(ip, 'WSTORE', node, st, fr, attr=attr, val=val, aug=aug, slot=st.a('slot', 'Free'),
                    body_done=bool(st.a('body_done')), wdec=st.a('wdec', frozenset()),
                    body_started=bool(st.a('body_started')), cancelled=bool(st.a('cdelivered')))
            if val in (T.TRUE, T.FALSE) and aug is None:
                # (a flag of the window set to a constant: (name, value) - `closed = True` or `_open = False`)
                upd['wset'] = frozenset(x for x in st.a('wset', frozenset()) if x[0] != attr) | {(attr, val[1])}
            if aug in ('Sub', 'Add') or (aug is None and val[0] == 'binop' and val[1] in ('Sub', 'Add')
                                         and val[2] == T.mk(('attr', obj, attr_))):
                upd['wdec'] = st.a('wdec', frozenset()) | {attr}
            attr = attr_
        if obj == T.SELF and attr == r.timeout_flag:
            upd['tf'] = 'unset' if val == T.FALSE else 'set'
        if obj == T.SELF and attr == r.critical_flag:
            upd['cf_flag'] = 'unset' if val == T.FALSE else 'set'
        if attr == r.reverse_attr:
            upd['built'] = True
        if obj == T.SELF and attr == r.guard_attr and r.guard_attr:
            upd['gset'] = (val == T.TRUE)
        if attr == r.registry_attr and val == T.NONE:
            upd['reg_reset'] = True
        if upd:
            from .flow import store_invalidates
            st2 = st.forget(store_invalidates(obj, attr))
            return st2.set(**upd)
        return None

    def on_store_name(self, ip, node, name, val, st, fr):
        if isinstance(node, ast.AugAssign):
            self.ev(ip, 'AUG', node, st, fr, name=name, val=val)
            if ip.in_summary:
                return None
            return st.with_var(fr.fid, name, val).set(incs=min(3, st.a('incs', 0) + 1))
        return None

    def on_return(self, ip, node, val, st, fr):
        if st.a('cause') is None:
            st = st.set(cause=self.cause_of(st))
        self.ev(ip, 'RET', node, st, fr, val=val, phase=st.a('phase', 'NoTasks'), cause=st.a('cause'),
                shut_tidied=st.a('shut_tidied', False), gset=st.a('gset'), spawned_shut=st.a('nshut', 0),
                no_members=st.a('no_members', False),
                tf=st.a('tf'), cf=st.a('cf_flag'),
                live=st.a('live', frozenset()), shut_live=st.a('shut_live', frozenset()),
                slot=st.a('slot', 'Free'))
        return st

    def on_raise(self, ip, node, kind, st, fr):
        if fr.depth == 0:
            self.ev(ip, 'RAISE', node, st, fr, exc=kind, phase=st.a('phase', 'NoTasks'),
                    live=st.a('live', frozenset()))
        return st

    def on_yield(self, ip, node, val, st, fr):
        self.ev(ip, 'YIELD', node, st, fr, val=val)
        return st

    def on_except(self, ip, handler, kind, st, fr):
        self.ev(ip, 'CAUGHT', handler, st, fr, exc=kind)
        return st
