"""per-property claim texts for MANIFEST.json (see tools_gen_manifest.py)"""

CLAIMS = {
    "C07": {
        "text": "Decides the safety clause by typestate analysis of the window wrapper over every path, including "
                "cancellation and job-exception edges (body and running flag only while a slot is held, release only "
                "if held), provenance of the queue bound, one window per activation sized by the scheduler's own "
                "jobs_window, and a who-may-start rule over every co_run call site of the package. All paths, hence "
                "all schedules and outcomes; the bound enforced by asyncio.Queue itself is trusted.",
        "note": "Trusted: asyncio.Queue(maxsize) semantics, cancellation only at suspension points, user job code "
                "does not touch scheduler-private state.",
        "technique": "typestate + provenance dataflow over the AST (path-sensitive abstract interpretation)",
    },
}

NOT_YET = {}
