"""per-property claim texts for MANIFEST.json (see tools_gen_manifest.py)"""

TB = ("Trusted base (DESIGN.md section 2): documented asyncio/CPython behaviour (wait/create_task/cancel/Queue/Task "
      "states, C3 MRO, set algebra, short-circuit evaluation); user job code is opaque and honours cancellation. ")
ENGINE = "path-sensitive abstract interpretation over the AST (provenance terms, fold summaries, exceptional edges)"


def c(text, declined, technique):
    return {"text": text, "note": TB + "Not decided: " + declined, "technique": technique}


CLAIMS = {
    "C01": c("Decides, over every path of the run (hence every completion order, window, flag combination), that a "
             "task is created only for the members without requirement before the first wait, or under the "
             "fold-classified fact `all requirements is_done()` for that very job; that no other co_run call site "
             "exists; that is_done is true exactly on finished tasks; that the nested body is the awaited inherited run."
             " Also: of the job's mutable state is_done() reads only the task registry, which is reset before the first start (truth tables over own task x members for nested schedulers). Also (= R11.2): no exit of a nested run, CancelledError edges included, leaves one of its job tasks alive. A sequence keeps verbatim the requirements it receives while empty. Also (= R18.1-3): the graph surgery sanitizes only once the member set is final, so no requirement between two kept jobs is dropped on the way.",
             "asyncio's own semantics.", ENGINE + " + truth table of is_done + who-may-call scan"),
    "C02": c("Decides the accounting shape behind `return True` (accumulator from 0, once per iteration, of non-forever "
             "tasks of the current done set, against the number of non-forever members), that the main wait covers "
             "every live task and no finished one, and that the already-started test is synchronous with task creation."
             " Also: the abort detection is the exact exists-fold raised-and-critical; raised_exception() is the exception of the job's own task (tables, nested schedulers included); exception values are compared with None. Also: every normal return of the window wrapper has awaited the job body; nothing around the awaited user coroutine of the coroutine-based job class catches, replaces or suppresses what it raises.",
             "nothing of the statement is left to runtime except asyncio itself.", ENGINE),
    "C03": c("Necessary conditions only: absence of the wedges the property names -- window slot free on every exit "
             "of the wrapper (typestate with cancellation and exception edges), failed requirements count as done and "
             "release successors gathered from all done tasks, every main wait re-armed with deadline-now."
             " Also: every activation queues its jobs on a window it built itself. The default of shutdown_timeout is a positive bound. Also: the handler of the window wrapper asks the job about its criticality when it fails, not when its task was created; jobs_window is what the caller gave; the guard of a successor start is computed afresh for each candidate.",
             "termination of run() for all schedules (liveness proper).", "typestate + " + ENGINE),
    "C04": c("Decides exit <-> verdict <-> cause-flag consistency on every return of the run, the truth tables of "
             "failed_time_out/failed_critical/why over unset / timeout 0 / positive timeout, the critical mapping of the "
             "nested form over path facts (including exception identity), and that the wrapper never replaces an exception."
             " Also: the synchronous run() returns the value of driving co_run() once, unprotected; critical/timeout are what the caller gave; exception values are compared with None. Also: the main wait is awaited as it is (no outer wait_for/timeout() that would discard completions); the diagnosis accessors read no job outcome.",
             "which cause wins when expiry, last completion and a critical failure share one loop iteration.",
             ENGINE + " + truth tables of pure accessors"),
    "C05": c("Decides that the abort flag is exactly `exists done task: raised and critical`, that every successor start "
             "follows a negative abort test of the same iteration, and that the abort path is cancel-all -> await-all "
             "(unbounded) -> shutdown -> return False with no wait for normal completion."
             " Also: no slot hand-over on a critical failure; the critical flag is what the caller gave and is_critical() is that flag; exception values are compared with None; two deliveries of CancelledError are modelled. Also: a job that obtains its window slot after a critical job has failed does not start (the wrapper tests a flag of the window after its last suspension, and the failure path raises it); the cancellation handler of a nested run opens no shutdown phase of its own. Also: every job body, nested schedulers included, goes through the window wrapper (the only way past the gate); the wrapper's handler reads the criticality at failure time.",
             "'at that same instant' as wall-clock.", ENGINE + " + EXIT automaton"),
    "C06": c("Decides non-interference: a done task's outcome reaches scheduling decisions only in the exact masked form "
             "raised-and-critical; same slot effect on both outcomes of the wrapper; failed jobs counted and their "
             "successors released; the exception stays retrievable (registry never overwritten)."
             " Also: the diagnostic helpers the run calls cannot raise on a job's outcome; raised_exception() tables; the critical flag is what the caller gave. Also: the run aborts exactly when some job of the batch raised and is critical (exists-fold over the done set). The window of a run closes exactly when its last regular job has completed (tolerated failures counted). Also: failed_time_out(), failed_critical() and why() read what the run recorded about itself, never what a job returned or raised.",
             "equality of the timed traces of two runs (relational).", "taint (non-interference) over path facts and provenance terms"),
    "C07": c("Decides the safety clause by typestate analysis of the window wrapper over every path, provenance of the "
             "queue bound, one window per activation sized by the scheduler's own jobs_window, and a who-may-start rule."
             " Also: jobs_window is stored as given and written nowhere else. The window is unbounded only when jobs_window itself says so.",
             "the bound enforced by asyncio.Queue itself.", "typestate + provenance dataflow"),
    "C08": c("Decides that the deadline is stored once per activation before the loop as clock()+own timeout, never "
             "between two main waits, that every main wait is armed with deadline-clock() (same clock), and that the "
             "expiry path is tidy -> shutdown -> False with the timeout cause."
             " Also: timeout is stored as given and written nowhere else. Also: the helper that records the deadline of a phase stores it on every path (None included).",
             "behaviour exactly at T; clock quality.", ENGINE + " + EXIT automaton"),
    "C09": c("Decides that `forever` influences no start condition, candidate set or wait argument, that both sides of "
             "the completion test count non-forever jobs only, and that the success exit cancels and awaits what is pending."
             " Also: the forever flag is stored as given and written nowhere else; the wrapper's typestate holds for forever jobs too. Also: a forever job that obtains its window slot once the last regular job is over does not start (the window counts the members that do not run forever, one down per completion, and closes itself at zero; the wrapper tests that flag after its last suspension).",
             "instants.", ENGINE),
    "C10": c("Decides the C3 MRO table of the nestable class (which side supplies each life-cycle method, both "
             "constructors), that the nested body is the awaited inherited run with window and deadline per activation, "
             "and the failure mapping and identity."
             " Also: the nestable class forwards every configuration parameter unchanged to both parents; construction rules and job-truthiness rule. Also: run() is transparent to what the tree raises. A nested scheduler takes a slot of its parent's window like any job; the window of a run closes with its last regular job and only then. Also: the verdict of a (nested) run is determined by the cause of each exit, not by how long the shutdown handlers took; the exception read from a critical member is raised at once.",
             "'same times as the flattened graph' (timing).", "MRO computation + " + ENGINE),
    "C11": c("Decides task-group discipline on every normal exit and, with a CancelledError edge forked at every "
             "may-suspend await of the run (inlined into the nested form) and of the broadcast, that every path leaving "
             "the ownership scope has cancelled and awaited all owned tasks; checks that every cancel() is part of "
             "cancel-all-then-await-unbounded."
             " Two deliveries of CancelledError are modelled at every await (a canceller can be cancelled while it waits, and cancels again). Also: the user's shutdown coroutine is awaited as it is (not shielded or scheduled in a task of its own); the handler tasks of the broadcast are never handed to code that reads a job back-pointer they do not have (nothing raises before the stragglers are cancelled).",
             "job code that swallows CancelledError.", ENGINE + " with cancellation edges"),
    "C12": c("Necessary conditions: all entry jobs started before the first wait; candidates = union over all done "
             "tasks of their successors, all visited; reverse links rebuilt and exact; guard no stronger than needed; "
             "no suspension while a slot is held."
             " Also: is_done() is true on every finished task for atomic jobs and nested schedulers alike; the acquire really waits. Also: jobs_window is what the caller gave (stored unchanged, written nowhere else). No job is held back by a window that closed before the end of the run (completions are counted when they happen). Also: no verdict before the first wait once the entry jobs have their task; the guard of a successor start is re-initialised for each candidate.",
             "FIFO hand-over of asyncio.Queue; timing.", ENGINE),
    "C13": c("Decides tidy -> shutdown -> return on every exit, atomic early once-guard with a single writer, total "
             "unfiltered broadcast through member dispatch (MRO relay for nested schedulers), bounded wait by "
             "shutdown_timeout then cancel-and-await of stragglers, truthful boolean result."
             " Also: the synchronous shutdown() is transparent; shutdown_timeout is what the caller gave; a coroutine-based job awaits the shutdown coroutine it was given, guarded by nothing but its presence. Also: an exit of the run before any start owes the shutdown broadcast unless the member set is known empty; the cancellation handler of a nested run opens no shutdown phase of its own. The default of shutdown_timeout is a positive bound. Also: the tasks of the shutdown handlers are never handed to code that reads `<task>._job` (which they lack): nothing can raise between shutdown_timeout and the cancellation of the stragglers. Also: the shutdown phase never inherits the deadline of the run (the deadline helper stores on every path).",
             "handler durations.", ENGINE + " + MRO"),
    "C14": c("Decides the truth tables of the six inspection methods over the 7-point life-cycle domain for the job "
             "base class and the nestable class, writer monotonicity of the registry and running flag, and identity "
             "flow of results and exceptions. Also: every job body, nested schedulers included, is started through the window wrapper, the only place that sets the running flag. Also: once the body has finished the wrapper reaches its end without suspending: is_done() holds at the first quiescent point after the body ended.",
             "nothing beyond the meaning of asyncio.Task internals.", "truth tables by abstract evaluation + writer tables"),
    "C15": c("Decides the five proof obligations of the marking algorithm on topological_order (guard = all requirements "
             "marked and self unmarked, nothing else; progress or raise; count-guarded end; marks reset) and both forms "
             "of check_cycles. check_cycles() and its helpers raise nothing of their own; the numbering hook stores the id on every pass. Also: no consumer re-orders what topological_order() yields (sorted / reversed / set).",
             "nothing: here the structural clauses are the argument.", ENGINE + " with fold summaries"),
    "C16": c("Decides closure (every member's requirements intersected with the receiver's own member set), minimality "
             "(no other writer), unconditional recursion, and the fold truth table of the returned value over "
             "(flag, removed, nested, nested result)."
             " The removal test must compare the state before the prune with the state after it (requirement sets are versioned, aliases follow an in-place prune). A store to `required` stores a fresh set (sets pruned in place are each job's own). Also: a verdict computed as `the number of requirements is unchanged` is accepted only over a walk that reaches nested scheduler objects.",
             "nothing.", "fold summary / truth table of the member loop"),
    "C17": c("Decides direction agreement by constant propagation, freshness of reverse links on every path of the "
             "public queries, the step (union over all starts, members only) and closure (fixpoint) shapes, yield "
             "conditions of entry_jobs/exit_jobs, and traversal siblings. The reverse links are rebuilt whenever asked for (no memoisation); a job is never tested for iterability before it is recognised as a job.",
             "nothing beyond set semantics; the helper shapes are matched structurally (unknown shapes are inconclusive).",
             "constant propagation + " + ENGINE + " + structural rules"),
    "C18": c("Necessary conditions: sanitize after narrowing; bypass step set (membership test first, downstreams, full "
             "product with orientation, only the job removed); documented set terms of keep_only/keep_only_between. The reverse links the surgery reads are rebuilt whenever asked for; closure additions are not conditioned on the element they are reached from; jobs are never taken for collections. Also: keep_only_between() delegating to keep_only() adds nothing back after the sanitize that keep_only() runs. Also: the milestones of the two closures of keep_only_between() are the caller's (never a set computed from the graph when the caller gave none).",
             "preservation of the transitive closure over all DAGs (relational).", "provenance terms + " + ENGINE),
    "C19": c("Decides the chain invariant across all writers of Sequence.jobs, emptiness guards of every first/last "
             "subscript, that every dispatch branch of requires() honours remove (with KeyError form) and forwards it, "
             "indices/identity/None handling, and registration paths."
             " Also: who may write a `required` set (frame rule); a sequence never drops a requirement received while empty. Also: a loop of requires() whose body can remove from self.required never iterates an argument that may be that very set. sanitize() / bypass_and_remove() are called by the documented graph surgery only. Also: a removal is never filtered by an identity test against the job itself (KeyError if absent). Also: requirements go into `required` one by one through the dispatch; requires() never merges a collection as it is.",
             "nothing.", ENGINE + " (sibling and deviance rules)"),
    "C20": c("Decides quoting of every attribute value and typing of every emitter hole, the 4-case edge table "
             "(exhaustive, exactly one per requirement, orientation, lhead/ltail), ids before use and tree-wide "
             "numbering, raises reachable from dot_format, DOT-subset conformance and brace balance."
             " Also: no class-level mutable object is mutated through an instance or an alias; the id templates yield DOT identifiers; the emitter is read as pieces appended to the output whatever the formatting idiom. Also: no rendering function keeps state across calls (a default argument built from a package class is a mutable default).",
             "validity of arbitrary label text beyond the quoter's contract; flag->style constants; rendering.",
             "taint/typing of format holes + " + ENGINE),
}

NOT_YET = {}
