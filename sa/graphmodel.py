"""
Analysis used for the pure graph algorithms (topological order, closures,
surgery, sanitize, construction API): logs yields, stores to data-model
attributes, mutations of attribute-held collections, raises and returns,
together with the abstract state (path facts) they were seen in.
"""

import ast

from . import terms as T
from .flow import Analysis
from .runmodel import Ev

MUTATORS = ('add', 'update', 'remove', 'discard', 'clear', 'intersection_update', 'difference_update',
            'append', 'extend')


class GraphModel(Analysis):
    def __init__(self, prog, roles, sigs, inline_public=(), no_inline=(), **kw):
        self.prog = prog
        self.roles = roles
        self.sigs = sigs
        self.inline_public = set(inline_public)
        self.no_inline = set(no_inline)
        self.log = []
        self._seen = set()

    def ev(self, ip, kind, node, st, fr, **data):
        key = (kind, id(node), st.key(), tuple(sorted((k, v) for k, v in data.items()
                                                       if isinstance(v, (tuple, str, bool, int, type(None))))))
        if key in self._seen:
            return
        self._seen.add(key)
        self.log.append(Ev(kind, node, ip.where(node, fr), st, data, list(ip.loopctx), fr, bool(ip.in_summary)))

    def events(self, *kinds, summary=False):
        return [e for e in self.log if e.kind in kinds and (summary or not e.summary)]

    def want_inline(self, ip, func, fr):
        if func.name in self.no_inline:
            return False
        if func.name in self.inline_public:
            return True
        return Analysis.want_inline(self, ip, func, fr)

    def iter_may_raise(self, ip, it):
        if it[0] == 'gen':
            s = self.sigs.get(it[1])
            return bool(s and s.raises)
        return False

    # ------------------------------------------------------------- events
    def on_yield(self, ip, node, val, st, fr):
        self.ev(ip, 'YIELD', node, st, fr, val=val, marked=st.a('m'), depth=fr.depth)
        if st.a('m') != val:
            st = st.set(ypend=val)
        return st

    def on_store_attr(self, ip, node, obj, attr, val, st, fr, aug=None):
        self.ev(ip, 'STORE', node, st, fr, obj=obj, attr=attr, val=val, aug=aug, depth=fr.depth,
                in_loop=bool(ip.loopctx))
        r = self.roles
        if attr == r.reverse_attr and aug is None:
            from .flow import store_invalidates
            return st.forget(store_invalidates(obj, attr)).set(built=True)
        if attr == r.mark_attr:
            from .flow import store_invalidates
            st = st.forget(store_invalidates(obj, attr))
            if val == T.TRUE:
                st = st.set(m=obj, progress=True)
                if st.a('ypend') == obj:
                    st = st.set(ypend=None)
            elif val == T.NONE:
                st = st.set(reset=True)
            return st
        return None

    def on_store_name(self, ip, node, name, val, st, fr):
        if isinstance(node, ast.AugAssign):
            self.ev(ip, 'AUG', node, st, fr, name=name, val=val, marked=st.a('m'), depth=fr.depth)
            snap = st.a('snap')
            if snap and snap[1] == name and isinstance(node.op, ast.Add) and fr.depth == 0:
                # the counter has moved since its value was saved
                return st.with_var(fr.fid, name, val).set(snap=(snap[0], snap[1], True))
            return None
        if isinstance(node, ast.Assign) and isinstance(node.value, ast.Name) and fr.depth == 0 \
                and (val[0] in ('pos', 'acc') or (val[0] == 'const' and isinstance(val[1], int)
                                                 and not isinstance(val[1], bool))):
            # `before = counter`: a snapshot of a counter (the abstract values of the two cannot tell whether the
            # counter has moved since; this relation can)
            return st.with_var(fr.fid, name, val).set(snap=(name, node.value.id, False))
        return None

    def on_branch(self, ip, node, term, val, st, fr):
        snap = st.a('snap')
        if snap and isinstance(node, ast.BoolOp) and term[0] == 'cmp' and term[1] in ('==', '!='):
            # `flag and counter == snapshot` with the flag known: the decision is the comparison's
            cands = [n for n in node.values if isinstance(n, ast.Compare) and len(n.ops) == 1
                     and isinstance(n.ops[0], (ast.Eq, ast.NotEq)) and isinstance(n.left, ast.Name)
                     and isinstance(n.comparators[0], ast.Name)
                     and {n.left.id, n.comparators[0].id} == {snap[0], snap[1]}]
            if len(cands) == 1:
                node = cands[0]
        if snap and isinstance(node, ast.Compare) and len(node.ops) == 1 and isinstance(node.left, ast.Name) \
                and isinstance(node.comparators[0], ast.Name) and fr.depth == 0 \
                and {node.left.id, node.comparators[0].id} == {snap[0], snap[1]} \
                and isinstance(node.ops[0], (ast.Eq, ast.NotEq)) and term[0] == 'cmp':
            # counter == snapshot  <=>  the counter has not been incremented since the snapshot
            same = not snap[2]
            holds = same if term[1] == '==' else (not same)
            if holds != val:
                return None
        return st

    def on_call(self, ip, node, fterm, args, kws, st, fr):
        if fterm[0] == 'attr' and fterm[2] in self.no_inline and args and args[0][0] == 'const' \
                and args[0][1] == self.roles.reverse_attr:
            self.ev(ip, 'READREV', node, st, fr, base=fterm[1], built=st.a('built', False), depth=fr.depth)
        rb = self.roles.relation_builder
        if rb is not None and fterm[0] == 'attr' and fterm[2] == rb.name and fterm[1] == fr.self_term \
                and not st.a('built'):
            # the relation builder is being called: from here on the reverse links are fresh
            callee, recv, kind = ip.resolve(fterm, fr, node)
            if callee is rb:
                return ip.inline(rb, recv, args, kws, fterm, st.set(built=True), fr,
                                 self._sink(ip), node) if ip.can_inline(rb, fr) else [(st.set(built=True), T.NONE)]
        if fterm[0] == 'attr' and fterm[2] in MUTATORS and T.is_attr(fterm[1]):
            # mutation of a collection held in an attribute: obj.attr.add(x)
            conds = tuple(sorted(((k, v) for k, v in st.facts.items()
                                  if any(c.elem is not None and T.contains(k, c.elem) for c in ip.loopctx)
                                  and not (v and any(k == c.iter for c in ip.loopctx))), key=repr))
            self.ev(ip, 'MUT', node, st, fr, obj=fterm[1][1], attr=fterm[1][2], how=fterm[2], args=args,
                    conds=conds, depth=fr.depth)
            return [(st.forget(lambda s: T.is_attr(s, fterm[1][2])), T.NONE)]
        if fterm[0] == 'attr' and fterm[2] in ('requires', 'sanitize', 'check_cycles', 'update', 'add', 'keep_only', 'remove',
                                               '_add_one_requirement'):
            self.ev(ip, 'CALL', node, st, fr, recv=fterm[1], meth=fterm[2], args=args, kws=kws,
                    depth=fr.depth)
        return None

    def on_attr(self, ip, node, base, attr, st, fr):
        if attr == self.roles.reverse_attr and isinstance(getattr(node, 'ctx', ast.Load()), ast.Load):
            self.ev(ip, 'READREV', node, st, fr, base=base, built=st.a('built', False), depth=fr.depth)
        return None

    def _sink(self, ip):
        from .flow import Out
        return Out()

    def on_return_stmt(self, ip, node, val, st, fr):
        self.ev(ip, 'RET', node, st, fr, val=val, in_loop=bool(ip.loopctx), ypend=st.a('ypend'),
                scanned=st.a('scanned', False))
        return st

    def on_raise(self, ip, node, kind, st, fr):
        self.ev(ip, 'RAISE', node, st, fr, exc=kind, depth=fr.depth)
        return st

    def on_except(self, ip, handler, kind, st, fr):
        self.ev(ip, 'CAUGHT', handler, st, fr, exc=kind)
        return st

    def on_iter(self, ip, ctx, st, fr):
        if ip.in_summary:
            return st
        if ctx.kind == 'while':
            if st.a('witer') and not st.a('progress'):
                self.ev(ip, 'SPIN', ctx.node, st, fr)
            return st.set(witer=True, progress=False)
        if ctx.kind == 'for':
            if st.a('ypend') is not None:
                self.ev(ip, 'YIELD_UNMARKED', ctx.node, st, fr, val=st.a('ypend'))
            return st.set(m=None, ypend=None)
        return st

    def on_loop_exit(self, ip, ctx, st, fr):
        if ctx.kind == 'for' and ctx.iter is not None and ctx.iter[0] == 'gen' and not ip.in_summary:
            st = st.set(scanned=True)
        if ctx.kind == 'for' and st.a('ypend') is not None and not ip.in_summary:
            self.ev(ip, 'YIELD_UNMARKED', ctx.node, st, fr, val=st.a('ypend'))
            return st.set(m=None, ypend=None)
        if ctx.kind == 'for':
            return st.set(m=None)
        return st
