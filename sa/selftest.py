"""
Self-test of the checkers (DESIGN.md section 7): every rule must *fire* on a
scratch copy of the current tree with one instance broken, and stay *silent* on
behaviour-preserving rewrites.  Variants are source-to-source edits anchored on a
fragment of the current source; a variant whose anchor is absent from the current
tree is skipped and counted.  A catalogue failure is an ANALYSIS-ERROR (the
checker is disarmed or trigger-happy), never a VIOLATION of the property.

Scratch copies live in a mkdtemp outside /repo and /verif and are removed.
"""

import concurrent.futures
import os
import shutil
import sys
import tempfile

HERE = os.path.dirname(os.path.dirname(os.path.abspath(__file__)))


class V:
    def __init__(self, vid, props, edits, expect='fire', rules=None, note=''):
        self.vid = vid
        self.props = props if isinstance(props, (list, tuple)) else [props]
        # edits: list of (relative file, old, new)
        self.edits = edits if isinstance(edits, list) else [edits]
        self.expect = expect            # 'fire' | 'silent' | 'nofalse' (silent or inconclusive)
        self.rules = rules or []
        self.note = note


def _apply(variant, root, dst):
    """returns None on success, or the reason the variant is skipped"""
    pkg = os.path.join(dst, "asynciojobs")
    shutil.copytree(os.path.join(root, "asynciojobs"), pkg,
                    ignore=shutil.ignore_patterns("__pycache__"))
    for rel, old, new in variant.edits:
        path = os.path.join(dst, rel)
        if not os.path.exists(path):
            return "file %s missing" % rel
        with open(path, encoding="utf-8") as f:
            src = f.read()
        if src.count(old) != 1:
            return "anchor occurs %d times in %s" % (src.count(old), rel)
        src = src.replace(old, new)
        try:
            compile(src, path, "exec")
        except SyntaxError as e:
            return "variant does not compile: %s" % e
        with open(path, "w", encoding="utf-8") as f:
            f.write(src)
    return None


def run_variant(args):
    variant_id, prop, root = args
    sys.path.insert(0, HERE)
    from sa.selftest_catalogue import CATALOGUE
    import vcheck
    v = [x for x in CATALOGUE if x.vid == variant_id][0]
    tmp = tempfile.mkdtemp(prefix="vt-%s-" % variant_id)
    try:
        skip = _apply(v, root, tmp)
        if skip:
            return (variant_id, prop, 'skipped', skip, [])
        rc, lines, rep = vcheck.run_property(prop, 'quick', 0, root=tmp, write_evidence=False, quiet=True)
        fired = sorted({o.rule for o in rep.obls if not o.ok and not o.known})
        errs = ["%s: %s" % e for e in rep.errors]
        return (variant_id, prop, rc, "; ".join(errs)[:300], fired)
    finally:
        shutil.rmtree(tmp, ignore_errors=True)


def run_catalogue(props=None, root=None, only=None, jobs=16):
    from sa.selftest_catalogue import CATALOGUE
    root = root or os.environ.get("VERIF_REPO", "/repo")
    tasks = []
    for v in CATALOGUE:
        if only and v.vid not in only:
            continue
        for p in v.props:
            if props and p not in props:
                continue
            tasks.append((v.vid, p, root))
    results = []
    if not tasks:
        return results
    with concurrent.futures.ProcessPoolExecutor(max_workers=min(jobs, len(tasks))) as ex:
        for r in ex.map(run_variant, tasks):
            results.append(r)
    return results


def judge(results):
    from sa.selftest_catalogue import CATALOGUE
    byid = {v.vid: v for v in CATALOGUE}
    summary = {'applied': 0, 'fired': 0, 'benign_silent': 0, 'skipped': 0, 'failures': []}
    for vid, prop, rc, msg, fired in results:
        v = byid[vid]
        if rc == 'skipped':
            summary['skipped'] += 1
            continue
        summary['applied'] += 1
        if v.expect == 'fire':
            ok = rc == 1 and (not v.rules or any(r in fired for r in v.rules))
            if ok:
                summary['fired'] += 1
            else:
                summary['failures'].append("%s/%s: expected %s to fire, got rc=%s fired=%s %s"
                                           % (vid, prop, v.rules or 'a rule', rc, fired, msg))
        elif v.expect == 'silent':
            if rc == 0:
                summary['benign_silent'] += 1
            else:
                summary['failures'].append("%s/%s: benign variant not silent: rc=%s fired=%s %s"
                                           % (vid, prop, rc, fired, msg))
        else:   # nofalse: silent or inconclusive, never a violation
            if rc in (0, 2):
                summary['benign_silent'] += 1
            else:
                summary['failures'].append("%s/%s: benign variant raised a violation: fired=%s"
                                           % (vid, prop, fired))
    return summary


# ----------------------------------------------------------------- patches written by independent sub-agents
def external_inputs(prop):
    """(kind, id, patch file): the seeded property-breaking changes of `prop` (must be reported) and every
    behaviour-preserving refactoring (must stay silent) kept under /verif (DESIGN section 11)"""
    import glob
    import json
    out = []
    for meta in sorted(glob.glob(os.path.join(HERE, "seeded", "*", "meta.json"))):
        try:
            m = json.load(open(meta))
        except (OSError, ValueError):
            continue
        if m.get("property") == prop:
            out.append(('seed', m.get("id"), os.path.join(os.path.dirname(meta), "patch.diff")))
    for d in sorted(glob.glob(os.path.join(HERE, "benign", "*", "[0-9]*.diff"))):
        out.append(('benign', os.path.relpath(d, os.path.join(HERE, "benign")), d))
    return out


def run_external(args):
    kind, xid, patch, prop, root = args
    import subprocess
    sys.path.insert(0, HERE)
    import vcheck
    tmp = tempfile.mkdtemp(prefix="vx-")
    try:
        shutil.copytree(os.path.join(root, "asynciojobs"), os.path.join(tmp, "asynciojobs"),
                        ignore=shutil.ignore_patterns("__pycache__"))
        r = subprocess.run(["patch", "-p1", "-s", "-d", tmp, "-i", patch], capture_output=True, text=True)
        if r.returncode != 0:
            return (kind, xid, prop, 'skipped', "patch does not apply to the current tree", [])
        rc, lines, rep = vcheck.run_property(prop, 'quick', 0, root=tmp, write_evidence=False, quiet=True)
        fired = sorted({o.rule for o in rep.obls if not o.ok and not o.known})
        return (kind, xid, prop, rc, "; ".join("%s: %s" % e for e in rep.errors)[:200], fired)
    finally:
        shutil.rmtree(tmp, ignore_errors=True)


def run_externals(prop, root=None, jobs=16):
    root = root or os.environ.get("VERIF_REPO", "/repo")
    tasks = [(k, i, pth, prop, root) for k, i, pth in external_inputs(prop)]
    if not tasks:
        return []
    with concurrent.futures.ProcessPoolExecutor(max_workers=min(jobs, len(tasks))) as ex:
        return list(ex.map(run_external, tasks))


def run_for_property(prop, rep, seed=0):
    """thorough tier: armed-ness of the rules of `prop` on the current tree"""
    rep.mark_known()
    if any((not o.ok and not o.known) for o in rep.obls):
        rep.note("self-test skipped: the current tree already violates the property")
        return
    res = run_catalogue(props=[prop])
    s = judge(res)
    rep.extra['selftest'] = {k: v for k, v in s.items() if k != 'failures'}
    rep.extra['selftest_variants'] = [
        {'variant': r[0], 'outcome': r[2] if r[2] == 'skipped' else {0: 'silent', 1: 'fired', 2: 'inconclusive'}.get(r[2]),
         'rules': r[4]} for r in res]
    for f in s['failures']:
        rep.error("selftest", f)
    rep.note("self-test: %d variants applied, %d fired, %d benign silent, %d skipped"
             % (s['applied'], s['fired'], s['benign_silent'], s['skipped']))
    # the changes and refactorings written by independent sub-agents (DESIGN section 11)
    ext = run_externals(prop)
    cnt = {'seeds': 0, 'seeds_reported': 0, 'benign': 0, 'benign_silent': 0, 'skipped': 0}
    try:
        import json
        expected = json.load(open(os.path.join(HERE, "benign", "EXPECTED.json")))
    except (OSError, ValueError):
        expected = {}
    for kind, xid, _p, rc, msg, fired in ext:
        if rc == 'skipped':
            cnt['skipped'] += 1
            continue
        if kind == 'seed':
            cnt['seeds'] += 1
            if rc == 1:
                cnt['seeds_reported'] += 1
            else:
                rep.error("selftest", "seeded change %s is not reported as a violation (rc=%s %s)" % (xid, rc, msg))
        else:
            cnt['benign'] += 1
            exp = expected.get(xid, {}).get(prop)
            if rc == 0:
                cnt['benign_silent'] += 1
            elif rc == 2:
                # the rule could not read the refactored shape: never a VIOLATION, counted
                cnt['benign_inconclusive'] = cnt.get('benign_inconclusive', 0) + 1
            elif exp == 'violation':
                cnt['benign_known_finding_moved'] = cnt.get('benign_known_finding_moved', 0) + 1
            else:
                rep.error("selftest", "behaviour-preserving refactoring %s raises a violation (fired=%s %s)"
                          % (xid, fired, msg))
    rep.extra['external_inputs'] = cnt
    rep.extra['external_results'] = [{'kind': k, 'id': i, 'outcome': rc if rc == 'skipped' else
                                      {0: 'silent', 1: 'violation', 2: 'inconclusive'}.get(rc), 'rules': f}
                                     for k, i, _p, rc, _m, f in ext]
    rep.note("sub-agent inputs: %d/%d seeded changes reported, %d/%d refactorings silent (%d inconclusive, %d moving "
             "a known finding), %d skipped"
             % (cnt['seeds_reported'], cnt['seeds'], cnt['benign_silent'], cnt['benign'],
                cnt.get('benign_inconclusive', 0), cnt.get('benign_known_finding_moved', 0), cnt['skipped']))


if __name__ == "__main__":
    import argparse
    ap = argparse.ArgumentParser()
    ap.add_argument("--props", nargs="*")
    ap.add_argument("--only", nargs="*")
    ap.add_argument("--root")
    a = ap.parse_args()
    res = run_catalogue(props=a.props, root=a.root, only=a.only)
    for r in res:
        print("%-8s %-4s rc=%-8s fired=%s %s" % (r[0], r[1], r[2], r[4], r[3]))
    s = judge(res)
    print({k: v for k, v in s.items() if k != 'failures'})
    for f in s['failures']:
        print("FAIL", f)
    sys.exit(1 if s['failures'] else 0)
