"""
Abstract values ("terms"): nested hashable tuples describing where a value comes
from.  They are *names for values*, never computed values: the analysis only ever
compares them structurally.

  ('const', v)                    literal None/bool/int/float/str
  ('var', name)                   parameter of the analysed function / free name
  ('attr', base, name)            attribute access path
  ('call', dotted, args, kwargs)  call of an external function (asyncio.wait, len, ...)
  ('mcall', recv, meth, args, kwargs)  method call kept symbolic
  ('new', cls, args, kwargs)      constructor call of a package class
  ('coro', qualname, bindings)    coroutine object of a package `async def`
  ('closure', qualname, bindings) function object of a nested def
  ('func', qualname) ('class', name) ('mod', dotted) ('builtin', name)
  ('elem', coll, loopkey)         an element of `coll`, bound by the loop `loopkey`
  ('comp', kind, elt, gens)       comprehension; gens = ((loopkey, iter, conds),...)
  ('union', frozenset)            set/list built by accumulation
  ('acc', init, frozenset)        numeric accumulator: init plus increments
  ('tuple'|'list'|'set', items)   display
  ('binop', op, l, r) ('unop', op, x) ('cmp', op, l, r) ('boolop', op, items)
  ('ifexp', c, a, b) ('sub', base, idx) ('star', x) ('item', t, i)
  ('pos',)                        a positive integer
  ('awaited', t)                  result of awaiting t
  ('fmt', parts)                  formatted string
  ('unk', tag)                    unknown
"""

MAX_DEPTH = 24


class Tm(tuple):
    """interned term: hash and depth cached, identical terms are one object"""

    def __hash__(self):
        return self._h

    def __eq__(self, o):
        if self is o:
            return True
        if type(o) is Tm:
            return False            # interned: equal terms are identical
        if isinstance(o, tuple):
            return mk(o) is self
        return False

    def __ne__(self, o):
        return not self.__eq__(o)

    def __reduce__(self):
        return (tuple, (tuple(self),))


_TAB = {}


def mk(t):
    """intern a term bottom-up (children first); O(width) when the children are
    already interned"""
    if type(t) is Tm:
        return t
    if isinstance(t, tuple):
        items = tuple([mk(x) for x in t])
        # 0 == False == 0.0 in Python: keep literals of different types apart
        sig = tuple([type(x).__name__ for x in items if isinstance(x, (bool, int, float))])
        key = (items, sig) if sig else items
        r = _TAB.get(key)
        if r is None:
            r = Tm(items)
            r._h = hash(items)
            d = 0
            for x in items:
                if type(x) is Tm:
                    if x._d > d:
                        d = x._d
                elif isinstance(x, frozenset):
                    for y in x:
                        if type(y) is Tm and y._d > d:
                            d = y._d
            r._d = d + 1
            _TAB[key] = r
        return r
    if isinstance(t, frozenset):
        return frozenset([mk(x) for x in t])
    return t


def is_const(t):
    return isinstance(t, tuple) and t and t[0] == 'const'


def depth(t, lim=MAX_DEPTH + 2):
    if type(t) is Tm:
        return t._d
    if not isinstance(t, (tuple, frozenset)) or lim <= 0:
        return 0
    m = 0
    for x in t:
        if isinstance(x, (tuple, frozenset)):
            d = depth(x, lim - 1)
            if d > m:
                m = d
    return 1 + m


def cap(t, tag="deep"):
    """widening: terms deeper than MAX_DEPTH collapse to unknown"""
    t = mk(t)
    if t._d > MAX_DEPTH:
        return mk(('unk', tag))
    return t


def subterms(t):
    """every proper term (non-empty tuple headed by a kind string) inside t"""
    stack = [t]
    while stack:
        x = stack.pop()
        if isinstance(x, tuple):
            if x and isinstance(x[0], str):
                yield x
            stack.extend(x)
        elif isinstance(x, frozenset):
            stack.extend(x)


def is_attr(s, attr=None):
    return len(s) == 3 and s[0] == 'attr' and (attr is None or s[2] == attr)


def mentions(t, pred):
    for s in subterms(t):
        if pred(s):
            return True
    return False


def contains(t, sub):
    return mentions(t, lambda s: s == sub)


def replace(t, old, new):
    if t == old:
        return new
    if isinstance(t, tuple):
        return tuple(replace(x, old, new) for x in t)
    if isinstance(t, frozenset):
        return frozenset(replace(x, old, new) for x in t)
    return t


NONE = mk(('const', None))
TRUE = mk(('const', True))
FALSE = mk(('const', False))
SELF = mk(('var', 'self'))


def union(*ts):
    items = set()
    for t in ts:
        if isinstance(t, tuple) and t and t[0] == 'union':
            items |= t[1]
        else:
            items.add(t)
    if len(items) > 8:
        return mk(('unk', 'union'))
    return mk(('union', frozenset(items)))


def union_items(t):
    if isinstance(t, tuple) and t and t[0] == 'union':
        return set(t[1])
    return {t}


def show(t, lim=5):
    """compact human-readable rendering"""
    if lim <= 0:
        return "…"
    if isinstance(t, frozenset):
        return "{" + ", ".join(sorted(show(x, lim - 1) for x in t)) + "}"
    if not isinstance(t, tuple) or not t:
        return repr(t)
    k = t[0]
    r = lambda x: show(x, lim - 1)
    if k == 'const':
        return repr(t[1])
    if k == 'var':
        return t[1]
    if k == 'attr':
        return "%s.%s" % (r(t[1]), t[2])
    if k == 'call':
        return "%s(%s)" % (t[1], ", ".join([r(a) for a in t[2]] +
                                           ["%s=%s" % (n, r(v)) for n, v in t[3]]))
    if k == 'mcall':
        return "%s.%s(%s)" % (r(t[1]), t[2], ", ".join([r(a) for a in t[3]] +
                                                       ["%s=%s" % (n, r(v)) for n, v in t[4]]))
    if k == 'new':
        return "%s(%s)" % (t[1], ", ".join(r(a) for a in t[2]))
    if k == 'coro':
        return "coro<%s>(%s)" % (t[1], ", ".join("%s=%s" % (n, r(v)) for n, v in t[2]))
    if k == 'closure':
        return "closure<%s>" % t[1]
    if k in ('func', 'class', 'mod', 'builtin'):
        return t[1]
    if k == 'elem':
        return "each(%s)" % r(t[1])
    if k == 'comp':
        gens = " ".join("for each(%s)%s" % (r(g[1]), "".join(" if " + r(c) for c in g[2]))
                        for g in t[3])
        return "[%s %s]" % (r(t[2]), gens)
    if k == 'union':
        return "∪" + r(t[1])
    if k == 'acc':
        return "%s+Σ%s" % (r(t[1]), r(t[2]))
    if k in ('tuple', 'list', 'set'):
        return k + "(" + ", ".join(r(x) for x in t[1]) + ")"
    if k == 'binop':
        return "(%s %s %s)" % (r(t[2]), t[1], r(t[3]))
    if k == 'unop':
        return "(%s %s)" % (t[1], r(t[2]))
    if k == 'cmp':
        return "(%s %s %s)" % (r(t[2]), t[1], r(t[3]))
    if k == 'boolop':
        return "(" + (" %s " % t[1]).join(r(x) for x in t[2]) + ")"
    if k == 'ifexp':
        return "(%s if %s else %s)" % (r(t[2]), r(t[1]), r(t[3]))
    if k == 'sub':
        return "%s[%s]" % (r(t[1]), r(t[2]))
    if k == 'item':
        return "%s#%s" % (r(t[1]), t[2])
    if k == 'star':
        return "*" + r(t[1])
    if k == 'awaited':
        return "await " + r(t[1])
    if k == 'pos':
        return "<positive>"
    if k == 'unk':
        return "?%s" % (t[1],)
    return "%s(%s)" % (k, ", ".join(r(x) for x in t[1:]))


def flatten_comp(t):
    """[g(x) for x in (f(j) for j in S if c(j)) if d(x)]  ==  [g(f(j)) for j in S if c(j) if d(f(j))]
    (one level of a comprehension over a comprehension; both with a single generator)"""
    if not (isinstance(t, tuple) and len(t) == 4 and t[0] == 'comp' and len(t[3]) == 1):
        return t
    key, it, conds = t[3][0]
    inner = it
    if inner[0] == 'union' and len(inner[1]) == 1:
        (inner,) = tuple(inner[1])
    if not (isinstance(inner, tuple) and len(inner) == 4 and inner[0] == 'comp' and len(inner[3]) == 1
            and inner[1] in ('gen', 'list', 'set', 'tuple')):
        return t
    ikey, iit, iconds = inner[3][0]
    oelem = mk(('elem', it, key))
    ielt = inner[2]
    elt = replace(t[2], oelem, ielt)
    nconds = tuple(iconds) + tuple(replace(c, oelem, ielt) for c in conds)
    return flatten_comp(mk(('comp', t[1], elt, ((ikey, iit, nconds),))))
