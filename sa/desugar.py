"""syntactic desugarings shared by the interpreters: `match` statements as if / elif chains"""

import ast


class Unsupported(Exception):
    pass


def _link(new, like, parent):
    for n in ast.walk(new):
        if not hasattr(n, 'lineno') and isinstance(n, (ast.expr, ast.stmt)):
            ast.copy_location(n, like)
    for n in ast.walk(new):
        for c in ast.iter_child_nodes(n):
            if getattr(c, '_parent', None) is None or getattr(c, '_synth', False) or n is new or getattr(n, '_synth', False):
                try:
                    c._parent = n
                except AttributeError:
                    pass
    new._parent = parent
    ast.fix_missing_locations(new)


def _test(pat, subj):
    """(test expression or None for `always`, [(name, expr) captures])"""
    if isinstance(pat, ast.MatchValue):
        return ast.Compare(left=subj, ops=[ast.Eq()], comparators=[pat.value]), []
    if isinstance(pat, ast.MatchSingleton):
        return ast.Compare(left=subj, ops=[ast.Is()], comparators=[ast.Constant(value=pat.value)]), []
    if isinstance(pat, ast.MatchClass):
        if pat.patterns or pat.kwd_patterns:
            raise Unsupported("class pattern with sub-patterns")
        return ast.Call(func=ast.Name(id='isinstance', ctx=ast.Load()), args=[subj, pat.cls], keywords=[]), []
    if isinstance(pat, ast.MatchAs):
        if pat.pattern is None:
            return None, ([(pat.name, subj)] if pat.name else [])
        t, caps = _test(pat.pattern, subj)
        return t, caps + ([(pat.name, subj)] if pat.name else [])
    if isinstance(pat, ast.MatchOr):
        tests = []
        for p in pat.patterns:
            t, caps = _test(p, subj)
            if caps:
                raise Unsupported("captures in an or-pattern")
            if t is None:
                return None, []
            tests.append(t)
        return ast.BoolOp(op=ast.Or(), values=tests), []
    if isinstance(pat, ast.MatchSequence):
        if not isinstance(subj, ast.Tuple) or len(subj.elts) != len(pat.patterns) \
                or any(isinstance(p, ast.MatchStar) for p in pat.patterns):
            raise Unsupported("sequence pattern on a subject that is not a literal tuple of the same length")
        tests, caps = [], []
        for p, e in zip(pat.patterns, subj.elts):
            t, c = _test(p, e)
            caps += c
            if t is not None:
                tests.append(t)
        if not tests:
            return None, caps
        return (tests[0] if len(tests) == 1 else ast.BoolOp(op=ast.And(), values=tests)), caps
    raise Unsupported("pattern %s" % type(pat).__name__)


def _simplify(t):
    """`isinstance(x, C) == True` -> `isinstance(x, C)`, `... == False` -> `not ...` (tuple-of-booleans dispatch)"""
    if isinstance(t, ast.Compare) and len(t.ops) == 1 and isinstance(t.ops[0], (ast.Eq, ast.Is)) \
            and isinstance(t.comparators[0], ast.Constant) and isinstance(t.comparators[0].value, bool) \
            and isinstance(t.left, ast.Call) and isinstance(t.left.func, ast.Name) and t.left.func.id == 'isinstance':
        return t.left if t.comparators[0].value else ast.UnaryOp(op=ast.Not(), operand=t.left)
    if isinstance(t, ast.BoolOp):
        return ast.BoolOp(op=t.op, values=[_simplify(v) for v in t.values])
    return t


_cache = {}


def match_as_ifs(s):
    """the statements equivalent to the `match` statement s (cached per node); raises Unsupported"""
    if id(s) in _cache:
        r = _cache[id(s)][1]
        if isinstance(r, Unsupported):
            raise r
        return r
    try:
        out = []
        subj = s.subject
        if not isinstance(subj, (ast.Name, ast.Tuple)) and not (
                isinstance(subj, ast.Attribute) and isinstance(subj.value, ast.Name)):
            tmp = '_match_%d_%d' % (s.lineno, s.col_offset)
            a = ast.Assign(targets=[ast.Name(id=tmp, ctx=ast.Store())], value=subj)
            a._synth = True
            out.append(a)
            subj = ast.Name(id=tmp, ctx=ast.Load())
        chain = None
        last = None
        for case in s.cases:
            t, caps = _test(case.pattern, subj)
            if t is not None:
                t = _simplify(t)
            if case.guard is not None:
                if caps:
                    raise Unsupported("guard over captures")
                t = case.guard if t is None else ast.BoolOp(op=ast.And(), values=[t, case.guard])
            body = [ast.Assign(targets=[ast.Name(id=n, ctx=ast.Store())], value=v) for n, v in caps] + list(case.body)
            for b in body[:len(caps)]:
                b._synth = True
            if t is None:
                node = body
            else:
                i = ast.If(test=t, body=body, orelse=[])
                i._synth = True
                node = [i]
            if chain is None:
                chain = node
            else:
                last.orelse = node
            if t is None:
                break
            last = node[0]
        out += chain or []
        for st in out:
            _link(st, s, getattr(s, '_parent', None))
        _cache[id(s)] = (s, out)
        return out
    except Unsupported as e:
        _cache[id(s)] = (s, e)
        raise
