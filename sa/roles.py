"""
Appendix A of DESIGN.md -- role resolution: the anchors the rules talk about are
found by *what the code does*, not by private names or positions.  Only the
public API names the properties themselves speak about are used as entry points
(co_run, co_shutdown, requires, sanitize, is_done, failed_time_out, ...).
A role that cannot be resolved is an AnalysisError (exit 2), never a pass.
"""

import ast

from .index import AnalysisError, walk_local, dotted
from .effects import TASK_MAKERS


class Roles:
    def __init__(self, prog):
        self.prog = prog
        self.notes = {}
        self._resolve()

    def _note(self, role, what):
        self.notes[role] = what

    def _resolve(self):
        p = self.prog
        # ---- scheduler class: has a co_run coroutine with a FIRST_COMPLETED wait in a loop
        cands = []
        for c in p.classes.values():
            f = c.methods.get('co_run')
            if f is None or not f.is_async:
                continue
            if self._has_first_completed_wait_in_loop(f):
                cands.append(c)
        if len(cands) > 1:
            # the wait may be seen through a delegation (`await self._helper()`): a class whose own co_run
            # holds the loop wins; then the base-most class of an inheritance chain
            direct = [c for c in cands if self._has_first_completed_wait_in_loop(c.methods['co_run'], depth=9)]
            if len(direct) == 1:
                cands = direct
            else:
                base = [c for c in cands if all(c in d.mro for d in cands)]
                if len(base) == 1:
                    cands = base
        if len(cands) != 1:
            raise AnalysisError("scheduler class (co_run with a FIRST_COMPLETED wait in a loop): "
                                "%d candidates" % len(cands))
        self.sched = cands[0]
        self.RUN = self.sched.methods['co_run']
        self._note('scheduler class', self.sched.name)
        self._refuse_state_machine()
        # ---- job base class
        cands = [c for c in p.classes.values()
                 if all(m in c.methods for m in ('co_run', 'co_shutdown', 'requires', 'is_done'))]
        if len(cands) != 1:
            raise AnalysisError("job base class: %d candidates" % len(cands))
        self.jobbase = cands[0]
        self._note('job base class', self.jobbase.name)
        # ---- nestable classes
        self.nestable = [c for c in p.classes.values()
                         if self.sched in c.mro and self.jobbase in c.mro]
        self._note('nestable classes', [c.name for c in self.nestable])
        # ---- broadcast
        self.BROADCAST = p.supplier(self.sched, 'co_shutdown')
        if self.BROADCAST is None or not self.BROADCAST.is_async:
            raise AnalysisError("scheduler class has no co_shutdown coroutine")
        # ---- WRAP: nested coroutine awaiting <free var>.co_run()
        wraps = []
        for f in p.all_functions():
            if f.parent is None or not f.is_async:
                continue
            for n in walk_local(f.node):
                if isinstance(n, ast.Call) and isinstance(n.func, ast.Attribute) and n.func.attr == 'co_run' \
                        and isinstance(n.func.value, ast.Name) and n.func.value.id not in self.prog.classes:
                    wraps.append((f, n.func.value.id, n))
                    break
        self.WRAP_BODY = None
        if not wraps:
            # the closure may only hand over to a coroutine method that does the work:
            #   async def wrapped(): return await self._run_in_slot(job)
            bodies = []
            for f in p.all_functions():
                if f.parent is not None or not f.is_async or f.cls is None or f.name == 'co_run':
                    continue
                for n in walk_local(f.node):
                    if isinstance(n, ast.Call) and isinstance(n.func, ast.Attribute) and n.func.attr == 'co_run' \
                            and isinstance(n.func.value, ast.Name) and n.func.value.id in f.params[1:]:
                        bodies.append((f, n.func.value.id, n))
                        break
            for bf, bvar, bn in bodies:
                for g in p.all_functions():
                    if g.parent is None or not g.is_async:
                        continue
                    for n in walk_local(g.node):
                        if isinstance(n, ast.Await) and isinstance(n.value, ast.Call) \
                                and isinstance(n.value.func, ast.Attribute) and n.value.func.attr == bf.name:
                            pos = bf.params[1:].index(bvar)
                            a = n.value.args[pos] if len(n.value.args) > pos else None
                            if isinstance(a, ast.Name):
                                wraps.append((g, a.id, bn))
                                self.WRAP_BODY = bf
            if not wraps:
                # ... through one more private coroutine of the class:
                #   wrapped() awaits self._run_windowed(job), which awaits self._run_in_slot(job, slot)
                for bf, bvar, bn in bodies:
                    for m in p.all_functions():
                        if m.parent is not None or not m.is_async or m.cls is not bf.cls or m is bf \
                                or not m.name.startswith('_'):
                            continue
                        mvar = None
                        for n in walk_local(m.node):
                            if isinstance(n, ast.Await) and isinstance(n.value, ast.Call) \
                                    and isinstance(n.value.func, ast.Attribute) and n.value.func.attr == bf.name:
                                pos = bf.params[1:].index(bvar)
                                a = n.value.args[pos] if len(n.value.args) > pos else None
                                if isinstance(a, ast.Name) and a.id in m.params[1:]:
                                    mvar = a.id
                        if mvar is None:
                            continue
                        for g in p.all_functions():
                            if g.parent is None or not g.is_async:
                                continue
                            for n in walk_local(g.node):
                                if isinstance(n, ast.Await) and isinstance(n.value, ast.Call) \
                                        and isinstance(n.value.func, ast.Attribute) and n.value.func.attr == m.name:
                                    pos = m.params[1:].index(mvar)
                                    a = n.value.args[pos] if len(n.value.args) > pos else None
                                    if isinstance(a, ast.Name):
                                        wraps.append((g, a.id, bn))
                                        self.WRAP_BODY = bf
        partial_factory = None
        if not wraps:
            # no closure at all: `return functools.partial(self._run_in_slot, job)`
            for bf, bvar, bn in bodies:
                for g in p.all_functions():
                    for n in walk_local(g.node):
                        if isinstance(n, ast.Return) and isinstance(n.value, ast.Call) \
                                and (dotted(n.value.func) or '').endswith('partial') and n.value.args \
                                and isinstance(n.value.args[0], ast.Attribute) and n.value.args[0].attr == bf.name:
                            wraps.append((bf, bvar, bn))
                            self.WRAP_BODY = bf
                            partial_factory = g
        if len(wraps) != 1:
            raise AnalysisError("window wrapper (nested coroutine awaiting <job>.co_run()): %d candidates"
                                % len(wraps))
        self.WRAP, self.wrap_jobvar, self.wrap_body_await = wraps[0]
        if self.WRAP_BODY is None:
            self.WRAP_BODY = self.WRAP
        self.wrap_factory = partial_factory if partial_factory is not None else self.WRAP.parent
        self.window_cls = self.wrap_factory.cls
        self._note('WRAP', self.WRAP.qualname)
        # ---- registry attribute / reverse attribute on the task
        self.registry_attr, self.task_job_attr, self.start_fn = self._registry()
        self._note('registry attr', self.registry_attr)
        self._note('task->job attr', self.task_job_attr)
        # ---- running attribute: constant True stored on the job in WRAP
        ra = []
        bodyvar = self.wrap_body_await.func.value.id
        for n in walk_local(self.WRAP_BODY.node):
            if isinstance(n, ast.Assign) and isinstance(n.value, ast.Constant) and n.value.value is True:
                for t in n.targets:
                    if isinstance(t, ast.Attribute) and isinstance(t.value, ast.Name) \
                            and t.value.id == bodyvar:
                        ra.append(t.attr)
        self.running_attr = ra[0] if len(set(ra)) == 1 else None
        self._note('running attr', self.running_attr)
        # ---- reverse relation attribute + builder
        self.reverse_attr, self.relation_builder = self._reverse()
        self._note('reverse attr', self.reverse_attr)
        # ---- mark attribute
        self.mark_attr = self._mark()
        self._note('mark attr', self.mark_attr)
        # ---- cause attributes
        self.timeout_flag = self._accessor_attr('failed_time_out')
        self.critical_flag = self._accessor_attr('failed_critical')
        self._note('cause attrs', [self.timeout_flag, self.critical_flag])
        # ---- once-guard attribute of the broadcast
        self.guard_attr = self._guard()
        self._note('once-guard attr', self.guard_attr)
        # ---- deadline attribute: self.<D> = <expression using a clock>
        self.deadline_attr, self.clock = self._deadline()
        self._note('deadline attr', self.deadline_attr)
        # ---- sequence class / flatten
        seq = [c for c in p.classes.values()
               if 'append' in c.methods and 'requires' in c.methods and c is not self.jobbase
               and self.jobbase not in c.mro]
        self.sequence = seq[0] if len(seq) == 1 else None
        self._note('sequence class', self.sequence.name if self.sequence else None)

    # ------------------------------------------------------------------
    def _refuse_state_machine(self):
        """a main loop written as an explicit automaton (`while state != OVER: if state == WAIT: ... elif state ==
        TRIAGE: ...`) spreads one round over several iterations: what a round learns (nothing completed, a critical job
        raised) is carried by the state variable alone, which the path analysis does not follow across iterations"""
        for c in self.sched.mro:
            for f in c.methods.values():
                parents = {}
                for n in ast.walk(f.node):
                    for ch in ast.iter_child_nodes(n):
                        parents[ch] = n
                for n in walk_local(f.node):
                    if not (isinstance(n, ast.Call) and dotted(n.func) == 'asyncio.wait' and any(
                            k.arg == 'return_when' and (dotted(k.value) or '').endswith('FIRST_COMPLETED')
                            for k in n.keywords)):
                        continue
                    q = parents.get(n)
                    while q is not None and not isinstance(q, (ast.While, ast.For, ast.AsyncFunctionDef)):
                        par = parents.get(q)
                        if isinstance(par, ast.If) and isinstance(par.test, ast.Compare) and len(par.test.ops) == 1 \
                                and isinstance(par.test.ops[0], (ast.Eq, ast.Is)) and isinstance(par.test.left, ast.Name):
                            var = par.test.left.id
                            loop = par
                            while loop is not None and not isinstance(loop, (ast.While, ast.For)):
                                loop = parents.get(loop)
                            if loop is not None:
                                stores = [m for b in loop.body for m in ast.walk(b) if isinstance(m, ast.Name)
                                          and m.id == var and isinstance(m.ctx, ast.Store)]
                                if len(stores) >= 2:
                                    raise AnalysisError(
                                        "%s:%d the main loop of %s is written as a state machine over `%s`: one round "
                                        "of the run is spread over several iterations, which this analysis does not "
                                        "follow" % (f.module.relpath, par.lineno, f.qualname, var))
                        q = par

    def _has_first_completed_wait_in_loop(self, f, depth=0):
        # the loop may live in a private coroutine that co_run awaits on self
        # (`return await self._co_run()`): follow such delegations, two levels at most
        if depth < 2 and f.cls is not None:
            for n in walk_local(f.node):
                if isinstance(n, ast.Await) and isinstance(n.value, ast.Call) \
                        and isinstance(n.value.func, ast.Attribute) and isinstance(n.value.func.value, ast.Name) \
                        and n.value.func.value.id == 'self':
                    g = self.prog.supplier(f.cls, n.value.func.attr)
                    if g is not None and g is not f and g.is_async and g.name != 'co_shutdown' \
                            and self._has_first_completed_wait_in_loop(g, depth + 1):
                        return True
        def has_wait(root):
            for m in ast.walk(root):
                if isinstance(m, ast.Call) and dotted(m.func) == 'asyncio.wait':
                    for k in m.keywords:
                        if k.arg == 'return_when' and (dotted(k.value) or '').endswith('FIRST_COMPLETED'):
                            return True
            return False
        for n in walk_local(f.node):
            if isinstance(n, (ast.While, ast.For)):
                if has_wait(n):
                    return True
                # the body of the loop may live in a private coroutine awaited once per round
                if f.cls is not None:
                    for m in ast.walk(n):
                        if isinstance(m, ast.Await) and isinstance(m.value, ast.Call) \
                                and isinstance(m.value.func, ast.Attribute) \
                                and isinstance(m.value.func.value, ast.Name) and m.value.func.value.id == 'self' \
                                and m.value.func.attr.startswith('_'):
                            g = self.prog.supplier(f.cls, m.value.func.attr)
                            if g is not None and g is not f and g.is_async and has_wait(g.node):
                                return True
        return False

    def _registry(self):
        found = []
        for f in self.prog.all_functions():
            tasknames = set()
            for n in walk_local(f.node):
                if isinstance(n, ast.Assign) and isinstance(n.value, ast.Call) \
                        and dotted(n.value.func) in TASK_MAKERS:
                    for t in n.targets:
                        if isinstance(t, ast.Name):
                            tasknames.add(t.id)
            direct = any(isinstance(n, ast.Call) and any(isinstance(a, ast.Call) and dotted(a.func) in TASK_MAKERS
                                                         for a in n.args) for n in walk_local(f.node))
            if not tasknames and not direct:
                continue
            reg = rev = None
            for n in walk_local(f.node):
                if isinstance(n, ast.Assign) and isinstance(n.value, ast.Name):
                    for t in n.targets:
                        if isinstance(t, ast.Attribute) and isinstance(t.value, ast.Name):
                            if n.value.id in tasknames and t.value.id not in tasknames:
                                reg = t.attr
                            elif t.value.id in tasknames:
                                rev = t.attr
            if not reg:
                # the two stores may live in a helper the task is handed to: `job._attach(task)` with
                # `def _attach(self, task): task.<rev> = self; self.<reg> = task`
                for n in walk_local(f.node):
                    if isinstance(n, ast.Call) and isinstance(n.func, ast.Attribute):
                        pos = [i for i, a in enumerate(n.args) if (isinstance(a, ast.Name) and a.id in tasknames)
                               or (isinstance(a, ast.Call) and dotted(a.func) in TASK_MAKERS)]
                        if not pos:
                            continue
                        for c in self.prog.classes.values():
                            g = c.methods.get(n.func.attr)
                            off = 0 if (g is not None and g.is_static) else 1
                            if g is None or len(g.params) <= pos[0] + off:
                                continue
                            par = g.params[pos[0] + off]
                            others = [x for x in g.params if x != par]      # (self of a method, `job` of a static one)
                            for m in walk_local(g.node):
                                if isinstance(m, ast.Assign) and isinstance(m.value, ast.Name):
                                    for t in m.targets:
                                        if isinstance(t, ast.Attribute) and isinstance(t.value, ast.Name):
                                            if m.value.id == par and t.value.id in others:
                                                reg = t.attr
                                            elif m.value.id in others and t.value.id == par:
                                                rev = t.attr
            if reg:
                found.append((reg, rev, f))
        regs = {x[0] for x in found}
        if len(regs) != 1:
            raise AnalysisError("registry attribute (job.<attr> = created task): %d candidates" % len(regs))
        reg, rev, f = found[0]
        return reg, rev, f

    def _reverse(self):
        """for r in j.required: r.<A>.add(j)"""
        funcs = list(self.sched.methods.values()) + [f for f in self.prog.all_functions()
                                                     if f not in self.sched.methods.values()]
        for f in funcs:
            for n in walk_local(f.node):
                if isinstance(n, ast.For) and isinstance(n.iter, ast.Attribute) and n.iter.attr == 'required' \
                        and isinstance(n.target, ast.Name):
                    outer = n.iter.value.id if isinstance(n.iter.value, ast.Name) else None
                    for m in ast.walk(n):
                        if isinstance(m, ast.Call) and isinstance(m.func, ast.Attribute) \
                                and m.func.attr in ('add', 'update') and isinstance(m.func.value, ast.Attribute) \
                                and isinstance(m.func.value.value, ast.Name) \
                                and m.func.value.value.id in (n.target.id, outer):
                            return m.func.value.attr, self._builder_of(f)
                        # ... or through an accessor of the job class: r._add_successor(j), whose body is
                        # `self.<A>.add(job)`
                        if isinstance(m, ast.Call) and isinstance(m.func, ast.Attribute) \
                                and isinstance(m.func.value, ast.Name) and m.func.value.id in (n.target.id, outer) \
                                and len(m.args) == 1:
                            g = self.prog.supplier(self.jobbase, m.func.attr)
                            if g is not None and len(g.params) == 2:
                                for k in walk_local(g.node):
                                    if isinstance(k, ast.Call) and isinstance(k.func, ast.Attribute) \
                                            and k.func.attr in ('add', 'update') and isinstance(k.func.value, ast.Attribute) \
                                            and isinstance(k.func.value.value, ast.Name) and k.func.value.value.id == 'self' \
                                            and k.args and isinstance(k.args[0], ast.Name) and k.args[0].id == g.params[1]:
                                        return k.func.value.attr, self._builder_of(f)
        # the linking loop has another shape: the reverse attribute is still the one the queries name next to
        # `required` when they call the step helper, and the builder the scheduler method that writes it
        lits = set()
        for f in self.sched.methods.values():
            for n in walk_local(f.node):
                if isinstance(n, ast.Call) and isinstance(n.func, ast.Attribute) and n.args \
                        and isinstance(n.args[0], ast.Constant) and isinstance(n.args[0].value, str) \
                        and n.func.attr in self.sched.methods and n.args[0].value.isidentifier():
                    lits.add(n.args[0].value)
        inits = set()
        ini = self.jobbase.methods.get('__init__')
        if ini is not None:
            inits = {t.attr for n in walk_local(ini.node) if isinstance(n, ast.Assign) for t in n.targets
                     if isinstance(t, ast.Attribute)}
        cands = sorted((lits & inits) - {'required'})
        if len(cands) == 1:
            attr = cands[0]
            # the builder gives every member a fresh set: a plain assignment (`&=` in sanitize() is not one)
            writers = [f for f in self.sched.methods.values() if f.name != '__init__' and any(
                isinstance(n, ast.Assign) and any(isinstance(t, ast.Attribute) and t.attr == attr for t in n.targets)
                for n in walk_local(f.node))]
            if len(writers) >= 1:
                return attr, writers[0]
        raise AnalysisError("relation builder (for r in j.required: r.<attr>.add(j)) not found")

    def _builder_of(self, f):
        """the scheduler method that builds the whole reverse relation: f itself when it is one, else the
        scheduler method that calls the (job-side) helper holding the linking loop"""
        if f in self.sched.methods.values():
            return f
        users = [g for g in self.sched.methods.values()
                 if any(isinstance(n, ast.Call) and isinstance(n.func, ast.Attribute) and n.func.attr == f.name
                        for n in walk_local(g.node))]
        return users[0] if len(users) == 1 else f

    def _mark(self):
        f = self.prog.supplier(self.sched, 'topological_order')
        if f is None:
            return None
        c = []
        # the scan itself, and the private helpers of the class it calls on self (one pass of the scan may
        # live in a helper generator)
        funcs = [f]
        for n in walk_local(f.node):
            if isinstance(n, ast.Call) and isinstance(n.func, ast.Attribute) and isinstance(n.func.value, ast.Name) \
                    and n.func.value.id == 'self' and n.func.attr.startswith('_'):
                g = self.prog.supplier(self.sched, n.func.attr)
                if g is not None and g not in funcs:
                    funcs.append(g)
        for g in funcs:
            for n in walk_local(g.node):
                if isinstance(n, ast.Assign) and isinstance(n.value, ast.Constant) and n.value.value is True:
                    for t in n.targets:
                        if isinstance(t, ast.Attribute):
                            c.append(t.attr)
        return c[0] if len(set(c)) == 1 else None

    def _accessor_attr(self, name):
        f = self.prog.supplier(self.sched, name)
        if f is None:
            raise AnalysisError("public accessor %s not found" % name)
        def reads(g, depth=0):
            out = set()
            for n in walk_local(g.node):
                if isinstance(n, ast.Attribute) and isinstance(n.value, ast.Name) and n.value.id == 'self':
                    m = self.prog.supplier(self.sched, n.attr)
                    if m is not None:
                        # a helper of the class the accessor goes through (`self._outcome() is ...`)
                        if depth < 2 and m is not g:
                            out |= reads(m, depth + 1)
                    else:
                        out.add(n.attr)
            return out
        attrs = reads(f)
        if len(attrs) > 1:
            # several attributes are consulted: the flag of this accessor is the one that, set alone, makes it true
            from . import tt
            hits = []
            for a in sorted(attrs):
                obj = tt.Obj('sched', **dict({b: False for b in attrs}, **{a: True, '__class__': self.sched}))
                try:
                    if tt.Evaluator(self.prog, self.sched, {}).call_method(name, obj):
                        hits.append(a)
                except (tt.Inconclusive, tt.Raised):
                    hits = []
                    break
            if len(hits) == 1:
                return hits[0]
        if len(attrs) > 1:
            # ... or the only one of them that the run itself stores (the others are configuration: the member set, ...)
            stored = set()
            run = self.prog.supplier(self.sched, 'co_run')
            if run is not None:
                for n in walk_local(run.node):
                    if isinstance(n, ast.Attribute) and isinstance(n.ctx, ast.Store) and isinstance(n.value, ast.Name) \
                            and n.value.id == 'self' and n.attr in attrs:
                        stored.add(n.attr)
            if len(stored) == 1:
                return stored.pop()
        if len(attrs) != 1:
            raise AnalysisError("accessor %s reads %d attributes of self" % (name, len(attrs)))
        return attrs.pop()

    CLOCKS = ('time.time', 'time.monotonic', 'time.perf_counter', 'loop.time')

    def _deadline(self):
        found = []

        def is_clock(m):
            return isinstance(m, ast.Call) and (dotted(m.func) or '').endswith(
                ('time.time', 'monotonic', 'perf_counter', 'loop.time', '.time'))
        for c in self.sched.mro:
            for f in c.methods.values():
                # locals that hold a reading of the clock (`now = time.time()`, possibly under `if now is None:`)
                clock_locals = {}
                for n in walk_local(f.node):
                    if isinstance(n, ast.Assign) and len(n.targets) == 1 and isinstance(n.targets[0], ast.Name) \
                            and is_clock(n.value):
                        clock_locals[n.targets[0].id] = dotted(n.value.func)
                for n in walk_local(f.node):
                    if isinstance(n, ast.Assign):
                        for t in n.targets:
                            if isinstance(t, ast.Attribute) and isinstance(t.value, ast.Name) \
                                    and t.value.id == 'self':
                                for m in ast.walk(n.value):
                                    if is_clock(m):
                                        found.append((t.attr, dotted(m.func)))
                                    elif isinstance(m, ast.Name) and m.id in clock_locals:
                                        found.append((t.attr, clock_locals[m.id]))
        attrs = {a for a, _ in found}
        if len(attrs) == 1:
            return found[0]
        return (None, None)

    def _guard(self):
        g = self._guard_in(self.BROADCAST.node.body)
        if g is not None:
            return g
        # the first phase of the broadcast may live in a private helper called at its top (`tasks = self._begin()`)
        for s in self.BROADCAST.node.body[:3]:
            for n in ast.walk(s):
                if isinstance(n, ast.Call) and isinstance(n.func, ast.Attribute) and isinstance(n.func.value, ast.Name) \
                        and n.func.value.id == 'self' and n.func.attr.startswith('_'):
                    h = self.prog.supplier(self.sched, n.func.attr)
                    if h is not None and h is not self.BROADCAST:
                        g = self._guard_in(h.node.body)
                        if g is not None:
                            return g
        return None

    def _guard_in(self, body):
        for s in body:
            if isinstance(s, ast.If):
                t = s.test
                # `if self.flag:` - also spelt `self.flag is True`, `self.flag == True`, `self.flag is not False`
                if isinstance(t, ast.Compare) and len(t.ops) == 1 and isinstance(t.comparators[0], ast.Constant) \
                        and isinstance(t.comparators[0].value, bool) and (
                            (isinstance(t.ops[0], (ast.Is, ast.Eq)) and t.comparators[0].value is True) or
                            (isinstance(t.ops[0], (ast.IsNot, ast.NotEq)) and t.comparators[0].value is False)):
                    t = t.left
                if isinstance(t, ast.Attribute) and isinstance(t.value, ast.Name) and t.value.id == 'self' \
                        and any(isinstance(b, ast.Return) for b in s.body):
                    return t.attr
        return None

    @property
    def data_attrs(self):
        s = {'required', 'jobs', 'forever', 'critical', 'timeout', 'jobs_window', 'shutdown_timeout',
             self.registry_attr, self.task_job_attr, self.running_attr, self.reverse_attr,
             self.mark_attr, self.timeout_flag, self.critical_flag, self.guard_attr,
             self.deadline_attr}
        s.discard(None)
        return s
