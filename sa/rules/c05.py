"""C05 -- critical failure aborts at once."""

from . import predicates, runrules, shutrules, common


def check(ctx, rep):
    rep.explanation = (
        "R05.1 detection is exact: the flag guarding the abort branch fold-classifies to `exists t in done: "
        "raised(t) and critical(job(t))`, and the run continues only under the exact complement. R05.2 every "
        "successor start lies on a path where this iteration's abort test was already evaluated negative. "
        "R05.3 abort path = EXIT automaton Live -> Tidied -> Shut -> return False, with no wait for normal "
        "completion. R05.4 tidy = cancel every element, then await all, unbounded. R05.7 (= R02.6) raised_exception(), which the run reads to tell a failure, is the exception of the job's own task for atomic jobs and nested schedulers alike. R05.9 the `critical` flag is what the caller gave (constructor stores it unchanged, no other writer, subclasses forward it, is_critical() is the attribute). R05.8 in the run, its nested form, the window wrapper and their private coroutines, an exception value is compared with None, never used as a boolean (its truth value is whatever its class says). R05.10 (= R07.1) wrapper typestate, cancellation path included. R05.11 a job that obtains its slot once a critical job has failed does not start: between its last suspension and the start of the body the wrapper tests a flag of the window, and the failure of a critical job raises that flag (the slot given back by any other job wakes the queued job up before the scheduler itself resumes). R05.12 (= R01.1) every job body, nested schedulers included, is started through the window wrapper: the gate of R05.11 is the only way in. R05.13 in the window wrapper the handler of a failing job asks the job now: it uses no value sampled from the job when the task was created.")
    rep.declined = ["'at that same instant' in wall-clock terms"]
    rep.trusted = ["T1", "T3"]
    runrules.detection_exact(ctx, rep, "R05.1")
    runrules.exit_discipline(ctx, rep, "R05.3", "R05.3", "R05.3", causes=('critical',))
    runrules.tidy_shape(ctx, rep, "R05.4")
    shutrules.cancellation_edges(ctx, rep, "R05.5", prompt=True)
    common.no_handover_on_critical_failure(ctx, rep, "R05.6")
    predicates.outcome_tables(ctx, rep, "R05.7", names=("raised_exception",))
    predicates.config_verbatim(ctx, rep, "R05.9", ('critical',))
    common.exception_truthiness(ctx, rep, "R05.8")
    common.wrap_typestate(ctx, rep, "R05.10")
    common.window_gate(ctx, rep, "R05.11", "critical")
    common.who_may_start(ctx, rep, "R05.12")
    common.failure_read_when_it_happens(ctx, rep, "R05.13")
