"""C02 -- success means every non-forever job ran exactly once; no job runs twice."""

from . import runrules, common, predicates


def check(ctx, rep):
    rep.explanation = (
        "R02.1 success accounting: every `return True` of the run is reached only through a comparison "
        "(== or >=) between an accumulator that starts at 0 and is increased once per iteration by the number "
        "of non-forever tasks of the *current* done set, and the number of non-forever members computed before "
        "the loop (provenance terms). R02.2 the main wait's argument covers every live task and never a "
        "finished one, so a task is reported done once. R02.3 once-guard: on every path to a successor start "
        "the path condition contains an already-started test on that job which the start itself makes true "
        "synchronously (it reads the task registry), or no may-suspend await lies between the main wait and "
        "the start. R02.4 the wrapper awaits the job body exactly once per task (no retry loop) and only while "
        "holding its slot. R02.5 (= R05.1) the run tells a tolerated failure from a critical one exactly: the accumulator is the exists-fold `raised and critical` over the done set, so that success is never reported over a critical failure. R02.6 what the run reads to tell that a job raised - raised_exception() - is, for atomic jobs and nested schedulers alike, the exception of the job's own task (truth table over the life-cycle domain). R02.7 in the run, its nested form, the window wrapper and their private coroutines, an exception value is compared with None, never used as a boolean (its truth value is whatever its class says). R02.4 also: every normal return of the wrapper has awaited the job body (a task that ends is a job that ran). R02.8 (= R04.4) the wrapper and the coroutine-based job class hand on what the user coroutine returns and let what it raises through as it is: no handler or `contextlib.suppress` around the await swallows or replaces it (a critical job that raises is never recorded as having returned).")
    rep.trusted = ["T1 asyncio.wait partitions its argument", "T2", "T7 gather() of finished futures may suspend (CPython <= 3.11)"]
    runrules.success_accounting(ctx, rep, "R02.1")
    runrules.batches_disjoint(ctx, rep, "R02.2")
    runrules.once_guard(ctx, rep, "R02.3")
    common.wrap_typestate(ctx, rep, "R02.4")
    runrules.detection_exact(ctx, rep, "R02.5")
    predicates.outcome_tables(ctx, rep, "R02.6", names=("raised_exception",))
    common.exception_truthiness(ctx, rep, "R02.7")
    predicates.identity_flow(ctx, rep, "R02.8")
