"""C10 -- a nested scheduler behaves as one job; nesting is transparent."""

from . import common, nested, predicates, runrules, shutrules, buildrules

from . import causes


def check(ctx, rep):
    rep.explanation = (
        "R10.1 C3 MRO table of the nestable class: co_run is its own critical-aware override, co_shutdown / "
        "sanitize / topological_order / iterate_jobs come from the scheduler side, is_done / requires / "
        "is_critical / raised_exception / result from the job side, names defined on both sides are "
        "overridden on purpose, both constructors run. R10.2 the nested body is the awaited inherited run "
        "(every exit of the override is dominated by it), the window and the deadline are created per "
        "activation of the run. R10.3 failure mapping and identity (critical mapping over path facts; the "
        "wrapper never replaces an exception; is_done/result tables for the nestable class). R10.4 the parent "
        "aborts on the failure of a critical member - nested scheduler or plain job alike - exactly when a done "
        "task raised and its job is critical (fold-classified abort flag). R10.8 the nestable class forwards every configuration parameter unchanged to its two parents. R10.9 (= R01.7) the nestable class hands on every constructor parameter. R10.10 (= R20.6). R10.11 (= R14.4). R10.12 (= R04.6) run() is transparent: what the tree raises (the exception of a critical job bubbling up through critical schedulers, TimeoutError included) leaves run() as it is, as it does for the flattened graph. R10.13 (= R07.1) a nested scheduler takes a slot of its parent's window like any job: every body is awaited while holding a slot. R10.14 (= R09.8) the window of a run closes when its last member that does not run forever has completed, and only then: the jobs of a nested scheduler start and stop as they would in the flattened graph. R10.15 (= R04.1) the verdict of a run - which is what a parent reads of a nested scheduler - is determined by the cause of each exit (how long the shutdown handlers took is not one). R10.16 in the nested form the exception read from a critical member is raised at once: no call in between that could raise something else in its place.")
    rep.declined = ["'every job runs at the same times as in the flattened graph' (timing)"]
    rep.trusted = ["T8 C3 MRO"]
    nested.mro_table(ctx, rep, "R10.1")
    common.nested_awaits_run(ctx, rep, "R10.2")
    common.window_scope(ctx, rep, "R10.2w")
    runrules.deadline(ctx, rep, "R10.2d", "R10.2d")
    nested.critical_mapping(ctx, rep, "R10.3")
    runrules.detection_exact(ctx, rep, "R10.4")
    shutrules.cancellation_edges(ctx, rep, "R10.5")
    buildrules.construction(ctx, rep, "R10.6a", "R10.6b", "R10.6c", "R10.6", "R10.6e")
    common.job_truthiness(ctx, rep, "R10.7", [ctx.prog.supplier(ctx.roles.jobbase, 'requires'),
                                               ctx.roles.RUN, ctx.roles.BROADCAST] +
                          (list(ctx.roles.sequence.methods.values()) if ctx.roles.sequence else []))
    predicates.identity_flow(ctx, rep, "R10.3i")
    predicates.lifecycle_tables(ctx, rep, "R10.3t")
    predicates.config_verbatim(ctx, rep, "R10.8", None)
    predicates.constructor_forwarding(ctx, rep, "R10.9")
    common.no_shared_class_state(ctx, rep, "R10.10")
    shutrules.cancellation_propagates(ctx, rep, "R10.11")
    common.sync_wrapper(ctx, rep, "R10.12", "run")
    common.wrap_typestate(ctx, rep, "R10.13")
    common.window_gate(ctx, rep, "R10.14", "endofrun")
    causes.exit_verdict_flags(ctx, rep, "R10.15")
    nested.reraise_is_immediate(ctx, rep, "R10.16")
