"""C03 -- progress: failures and windows never wedge a run (necessary conditions)."""

from . import common, runrules, predicates


def check(ctx, rep):
    rep.explanation = (
        "Liveness proper (termination for all schedules) is declined. Decided: absence of the wedges the "
        "property names. R03.1 slot pairing: typestate Free/Held over every exit of the window wrapper "
        "(return, job exception, cancellation): the slot is free on all of them. R03.2 a raised requirement "
        "releases its successors: is_done() is true on finished-by-raising, and the candidate successors are "
        "gathered from *all* done tasks. R03.3 every main wait is re-armed with deadline - now. R03.4 cycles "
        "raise instead of looping (topological scan makes progress or raises). R03.6 (= R07.3) every activation "
        "starts its jobs through a window it built itself: a nested scheduler that queues its jobs on the window "
        "in which it holds a slot itself wedges a window of 1. R03.7 the default of `shutdown_timeout` is a positive bound in every scheduler constructor. R03.8 in the window wrapper the handler of a failing job asks the job now: it uses no value sampled from the job when the task was created. R03.9 (= R07.5) `jobs_window` is what the caller gave: no scheduler is handed a window it did not ask for.")
    rep.declined = ["termination of run() for all schedules (liveness): not a shape of the code"]
    rep.trusted = ["T1", "T3", "T4 asyncio.Queue FIFO wake-up"]
    common.wrap_exits(ctx, rep, "R03.1",
                      "a window slot is leaked")
    predicates.is_done_table(ctx, rep, "R03.2")
    runrules.eager(ctx, rep, "R03.2e", "R03.2", "R03.2b", "R03.2g")
    runrules.deadline(ctx, rep, "R03.3", "R03.3")
    common.wrap_typestate(ctx, rep, "R03.5")
    common.window_scope(ctx, rep, "R03.6")
    predicates.shutdown_bounded_by_default(ctx, rep, "R03.7")
    common.failure_read_when_it_happens(ctx, rep, "R03.8")
    predicates.config_verbatim(ctx, rep, "R03.9", ('jobs_window',))
