"""C11 -- clean exit: once a run is over, nothing it started is still running."""

from . import common, runrules, shutrules


def check(ctx, rep):
    rep.explanation = (
        "Task-group discipline. R11.1 on every normal exit of the run the EXIT automaton is in Tidied/Shut "
        "(all live job tasks cancelled and awaited without bound); the broadcast never returns with shutdown "
        "handlers pending. R11.2 cancellation edges: with a CancelledError edge forked at every may-suspend "
        "await of the run (inlined into the nested form, which is the task root an enclosing scheduler "
        "cancels) and of the broadcast, every path that leaves the ownership scope has first cancelled and "
        "awaited all owned tasks (live set or registry form). The edge is forked a second time at the awaits "
        "reached while the first CancelledError is being handled (an enclosing scheduler that is cancelled "
        "itself while it waits cancels its tasks again: three levels of nesting, cancellation that takes "
        "time); a third delivery meets the same code in the same state. R11.3 every .cancel() of the package "
        "is part of cancel-all-then-await-unbounded (a task is never cancelled and then abandoned). R11.4 (= R07.1) wrapper typestate, cancellation path included. R11.5 (= R14.4) a cancelled activation is left by the CancelledError it received. R11.6 (= R13.9) a coroutine-based job awaits the shutdown coroutine it was given as it is, not in a task of its own (shielded or scheduled) that the cancellation at shutdown_timeout would not reach. R11.7 (= R13.12) on the late-handler path nothing can raise before the stragglers are cancelled and awaited: their tasks are not handed to code that reads a job back-pointer they do not have.")
    rep.declined = ["job code that swallows CancelledError (T9)"]
    rep.trusted = ["T1 asyncio.wait does not cancel its argument when cancelled", "T3", "T9"]
    runrules.exit_discipline(ctx, rep, "R11.1", "R11.1", "R11.1")
    runrules.tidy_shape(ctx, rep, "R11.1")
    shutrules.bounded_then_cancel(ctx, rep, "R11.1", "R11.1r")
    shutrules.cancellation_edges(ctx, rep, "R11.2")
    shutrules.single_cancel_model(ctx, rep, "R11.3")
    common.wrap_typestate(ctx, rep, "R11.4")
    shutrules.cancellation_propagates(ctx, rep, "R11.5")
    shutrules.user_shutdown_unconditional(ctx, rep, "R11.6")
    shutrules.handler_tasks_carry_no_job(ctx, rep, "R11.7")
