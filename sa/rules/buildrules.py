"""C19 -- the construction API builds exactly the documented requirement edges."""

import ast

from .. import terms as T
from ..graphmodel import GraphModel
from ..index import walk_local, dotted
from .common import src, stmt_of, trace

REMOVE = T.mk(('var', 'remove'))


def subs_of(t):
    """every x[0] / x[-1] inside a term"""
    return [s for s in T.subterms(t) if len(s) == 3 and s[0] == 'sub' and s[2][0] == 'const' and s[2][1] in (0, -1)]


def zip_pairs(t):
    """t == ('item', ('elem', zip(X, X[1:]), key), i)  ->  (X, i)"""
    if t[0] == 'item' and t[1][0] == 'elem':
        z = t[1][1]
        if z[0] == 'call' and z[1] == 'zip' and len(z[2]) == 2:
            a, b = z[2]
            if b[0] == 'sub' and b[1] == a and b[2][0] == 'slice' and b[2][1] == ('const', 1) \
                    and b[2][2] == T.NONE and b[2][3] == T.NONE:
                return a, t[2]
            # zip(X, islice(X, 1, None))
            if b[0] == 'call' and b[1].endswith('islice') and len(b[2]) == 3 and b[2][0] == a \
                    and b[2][1] == ('const', 1) and b[2][2] == T.NONE:
                return a, t[2]
    # the running form: previous = None; for x in X: if previous is not None: x.requires(previous); previous = x
    if t[0] == 'prev' and t[1][0] == 'elem' and len(t[1]) == 3 and t[1][2][0] == 'for':
        return t[1][1], 0
    if t[0] == 'elem' and len(t) == 3 and t[2][0] == 'for':
        return t[1], 1
    # the index form: for i in range(1, len(X)): X[i] ... X[i - 1]
    if t[0] == 'sub' and len(t) == 3:
        x, i = t[1], t[2]
        off = 0
        if i[0] == 'binop' and i[1] == 'Sub' and i[3] == ('const', 1):
            i, off = i[2], 1
        elif i[0] == 'binop' and i[1] == 'Add' and i[3] == ('const', 1):
            i, off = i[2], -1
        if i[0] == 'elem' and i[1][0] == 'call' and i[1][1] == 'range':
            ra = i[1][2]
            ln = T.mk(('call', 'len', (x,), ()))
            if len(ra) == 2 and ra[0] == ('const', 1) and ra[1] == ln and off in (0, 1):
                # X[i] is the later job (position 1 of a pair), X[i-1] the earlier one (position 0)
                return x, 1 - off
            if len(ra) == 1 and ra[0] == T.mk(('binop', 'Sub', ln, ('const', 1))) and off in (0, -1):
                # for i in range(len(X) - 1): X[i + 1] ... X[i]
                return x, 0 if off == 0 else 1
    return None


def alias_canon(an):
    """`self.x = v` makes v and self.x two names for one object: rewrite terms so that the
    attribute path is used everywhere (longest values first)"""
    pairs = []
    for e in an.events('STORE'):
        if e.data['obj'] == T.SELF and e.data['aug'] is None and e.data['val'][0] not in ('const', 'unk'):
            pairs.append((e.data['val'], T.mk(('attr', T.SELF, e.data['attr']))))
    pairs.sort(key=lambda p: -T.depth(p[0]))

    def canon(t):
        if t is None:
            return None
        for v, a in pairs:
            if T.contains(t, v):
                t = T.mk(T.replace(t, v, a))
        return t
    return canon


def writer_events(an):
    """stores and in-place extensions of self.jobs, as (event, aug, new-part)"""
    SJ = T.mk(('attr', T.SELF, 'jobs'))
    out = []
    for e in an.events('STORE'):
        if e.data['attr'] == 'jobs' and e.data['obj'] == T.SELF:
            v = e.data['val']
            if e.data['aug'] is None:
                out.append((e, None, v))
            elif e.data['aug'] == 'Add' and v[0] == 'binop' and v[2] == SJ:
                out.append((e, 'Add', v[3]))
            else:
                out.append((e, 'other', v))
    for e in an.events('MUT'):
        if e.data['attr'] == 'jobs' and e.data['obj'] == T.SELF:
            if e.data['how'] == 'extend' and len(e.data['args']) == 1:
                out.append((e, 'Add', e.data['args'][0]))
            else:
                out.append((e, 'other', None))
    return out


def construction(ctx, rep, r1, r2, r3, r4, r5):
    r = ctx.roles
    p = ctx.prog
    seq = r.sequence
    if seq is None:
        rep.error(r1, "sequence class not recognised")
        return
    SJ = T.mk(('attr', T.SELF, 'jobs'))
    # ------------------------------------------------------------ R19.1 / R19.2 on the sequence class
    writers = []
    nsub = 0
    for f in seq.methods.values():
        an, ip, out = ctx.explore(f, model=GraphModel)
        stores = writer_events(an)
        calls = [e for e in an.events('CALL') if e.data['meth'] == 'requires']
        for e in calls + an.events('MUT'):
            terms = [e.data.get('recv')] + list(e.data.get('args') or ())
            for t in terms:
                if t is None:
                    continue
                for s_ in subs_of(t):
                    nsub += 1
                    known = e.st.known(s_[1])
                    rep.check(known is True, r2, "%s `%s` guarded by a non-emptiness test of that list"
                              % (e.where, T.show(s_, 3)[:60]), f.qualname,
                              "`%s` indexes %s, which %s on this path" % (
                                  src(stmt_of(e.node)), T.show(s_[1], 3)[:80],
                                  "is empty" if known is False else "may be empty"),
                              "IndexError when every argument is None or an empty sequence "
                              "(e.g. append(None), or a requirement that is an empty Sequence)", trace(e.st))
        if stores:
            writers.append((f, an, stores, calls))
    rep.need(r1, len(writers), 2, "writers of Sequence.jobs")
    rep.need(r2, nsub, 3, "first/last subscripts of flattened lists")
    for f, an, stores, calls in writers:
        fn = f.qualname
        pairs = [(zip_pairs(e.data['recv']), zip_pairs(e.data['args'][0]) if e.data['args'] else None, e) for e in calls]
        chains = {}
        for a, b, e in pairs:
            if a and b and a[0] == b[0]:
                chains.setdefault(a[0], []).append((a[1], b[1], e))
        for e, aug_, new in stores:
            if aug_ is None:
                cands = [SJ, new]
                extend = False
            elif aug_ == 'Add':
                cands = [new]
                extend = True
            else:
                rep.fail(r1, "%s writer of the job list" % e.where, fn, "`%s`" % src(stmt_of(e.node)),
                         "the sequence's job list is modified in a way the chain invariant cannot follow",
                         trace(e.st))
                continue
            if new == T.mk(('union', frozenset())):
                continue                    # nothing added on this path
            ch = [c for x in cands for c in chains.get(x, [])]
            ok = any(i == 1 and j == 0 for i, j, _ in ch)
            bad = [c for c in ch if not (c[0] == 1 and c[1] == 0)]
            rep.check(ok and not bad, r1, "%s consecutive new jobs are chained (later requires earlier)" % e.where, fn,
                      "`%s`: %s" % (src(stmt_of(e.node)),
                                    "no `for a, b in zip(L, L[1:]): b.requires(a)` over the added jobs" if not ch
                                    else "pairs linked backwards"),
                      "a job of the sequence does not require its predecessor: %s" % (
                          "append(j1, j2) leaves j2 without requirement" if extend else "the sequence is not a chain"),
                      trace(e.st))
            if extend:
                junction = [c for c in calls if c.data['recv'] == T.mk(('sub', new, ('const', 0)))
                            and c.data['args'] == (T.mk(('sub', SJ, ('const', -1))),)]
                rep.check(bool(junction), r1, "%s first new job requires the previous last job" % e.where, fn,
                          "no `<new>[0].requires(self.jobs[-1])` before extending",
                          "jobs appended later are not chained behind the existing ones", trace(e.st))
    # ------------------------------------------------------------ R19.3 / R19.4 requires()
    f = p.supplier(r.jobbase, 'requires')
    an, ip, out = ctx.explore(f, model=GraphModel)
    fn = f.qualname
    REQ = T.mk(('attr', T.SELF, 'required'))
    for e in an.events('CALL', 'MUT'):
        for t in [e.data.get('recv')] + list(e.data.get('args') or ()):
            if t is None:
                continue
            for s_ in subs_of(t):
                known = e.st.known(s_[1])
                rep.check(known is True, r2, "%s `%s` guarded by a non-emptiness test of that list"
                          % (e.where, T.show(s_, 3)[:60]), fn,
                          "`%s` indexes %s, which %s on this path" % (
                              src(stmt_of(e.node)), T.show(s_[1], 3)[:80],
                              "is empty" if known is False else "may be empty"),
                          "IndexError when the requirement is an empty Sequence", trace(e.st))
    muts = [e for e in an.events('MUT') if e.data['attr'] == 'required' and e.data['obj'] == T.SELF]
    rep.need(r3, len(muts), 2, "stores into self.required")
    # requirements go in (and out) one by one, each through the dispatch on what it is: a whole collection merged
    # into `self.required` skips it (None, sequences, nested collections land there as they are)
    for e in an.events('STORE'):
        if e.data['attr'] == 'required' and e.data['obj'] == T.SELF:
            rep.fail(r3, "%s requirements are added one by one" % e.where, fn,
                     "`%s` merges a collection into self.required as it is" % src(stmt_of(e.node)),
                     "what the collection holds besides jobs (None, a Sequence, a nested tuple) becomes a requirement: "
                     "not `flattens nested collections, ignores None, a sequence stands for its last job`", trace(e.st))
    branches = {}
    for e in muts:
        rm = e.st.facts.get(REMOVE)
        how = e.data['how']
        arg = e.data['args'][0] if e.data['args'] else None
        site = "%s `%s`" % (e.where, src(stmt_of(e.node)))
        kinds = [k for k, v in e.st.facts.items() if v and k[0] == 'call' and k[1] == 'isinstance']
        br = T.show(kinds[0][2][1], 2) if kinds else 'other'
        branches.setdefault(br, set()).add(how)
        if how in ('add', 'update'):
            rep.check(rm is False, r3, site + " adds only when remove is not set", fn,
                      "requirement added on the %s branch %s" % (br, "although remove=True" if rm else
                                                                  "whatever the value of remove"),
                      "requires(x, remove=True) adds the edge instead of removing it", trace(e.st))
        elif how == 'remove':
            rep.check(rm is True, r3, site + " removes only when remove is set", fn,
                      "requirement removed on the %s branch with remove=%s" % (br, rm),
                      "requires(x) removes an edge", trace(e.st))
        else:
            rep.fail(r3, site, fn, "self.required.%s(...)" % how,
                     "removing an absent requirement must raise KeyError (documented): use set.remove", trace(e.st))
        # R19.4 None skipped, identity
        if arg is not None:
            top = [c for c in e.loops if c.kind == 'for']
            if top:
                el = top[0].elem
                isnone = T.mk(('cmp', 'is', el, T.NONE))
                rep.check(e.st.facts.get(isnone) is False or e.st.facts.get(T.mk(('cmp', 'is not', el, T.NONE))) is True,
                          r4, site + " None is skipped before dispatch", fn, "store reachable for a None requirement",
                          "requires(None) raises or adds None", trace(e.st))
            if how == 'add':
                ident = e.st.facts.get(T.mk(('cmp', 'is not', arg, T.SELF))) is True or \
                    e.st.facts.get(T.mk(('cmp', 'is', arg, T.SELF))) is False
                rep.check(ident, r4, site + " never makes a job require itself", fn,
                          "requirement added without the `is not self` test", "a job can require itself: the "
                          "scheduler deadlocks / check_cycles fails", trace(e.st))
            if how == 'remove':
                # removing is not filtered: a requirement that is not there - the job itself, say - is a KeyError
                filt = [(k, v) for k, v in e.st.facts.items()
                        if k[0] == 'cmp' and k[1] in ('is', 'is not', '==', '!=') and T.SELF in (k[2], k[3])
                        and arg in (k[2], k[3])]
                rep.check(not filt, r3, site + " removes whatever is named", fn,
                          "requirement removed only when %s" % [(T.show(k, 3), v) for k, v in filt],
                          "requires(x, remove=True) with x the job itself returns silently instead of raising KeyError: "
                          "not `exactly the named requirements (KeyError if absent)`", trace(e.st))
            if br.endswith(seq.name) and how in ('add', 'remove'):
                ok = arg[0] == 'sub' and T.is_attr(arg[1], 'jobs') and arg[2] == ('const', -1)
                rep.check(ok, r4, site + " a sequence stands for its last job", fn,
                          "sequence used as requirement contributes %s" % T.show(arg, 3),
                          "requiring a sequence does not wait for the end of the sequence", trace(e.st))
    # every dispatch branch honours both polarities
    for br, hows in branches.items():
        rep.check('add' in hows and 'remove' in hows, r3, "%s: the %s branch both adds and removes" % (fn, br), fn,
                  "the %s branch of requires() only does: %s" % (br, sorted(hows)),
                  "remove=True is ignored for this kind of argument")
    for e in [c for c in an.events('CALL') if c.data['meth'] == 'requires' and c.data['recv'] == T.SELF]:
        kinds = [k for k, v in e.st.facts.items() if v and k[0] == 'call' and k[1] == 'isinstance']
        if kinds and T.show(kinds[0][2][1], 2).endswith(seq.name):
            arg = e.data['args'][0] if e.data['args'] else None
            ok = arg is not None and arg[0] == 'sub' and T.is_attr(arg[1], 'jobs') and arg[2] == ('const', -1)
            rep.check(ok, r4, "%s a sequence stands for its last job" % e.where, fn,
                      "sequence used as requirement contributes %s" % (T.show(arg, 3) if arg is not None else None),
                      "requiring a sequence does not wait for the end of the sequence", trace(e.st))
        kw = dict(e.data['kws'])
        fwd = kw.get('remove')
        known = e.st.facts.get(REMOVE)
        # (under `if remove:` the literal True is the flag, and False under `else:`)
        ok = fwd == REMOVE or (known is not None and fwd == ('const', known)) \
            or (known is False and fwd is None)
        rep.check(ok, r3, "%s recursive call forwards remove" % e.where, fn,
                  "`%s`" % src(stmt_of(e.node)), "remove=True is lost for nested collections", trace(e.st))
    # ------------------------------------------------------------ R19.4 required= goes to the first job
    init = seq.methods.get('__init__')
    if init is not None:
        an, ip, out = ctx.explore(init, model=GraphModel)
        canon = alias_canon(an)
        ok = any(e.data['meth'] == 'requires' and canon(e.data['recv']) == T.mk(('sub', SJ, ('const', 0)))
                 and e.data['args'] == (T.mk(('var', 'required')),) for e in an.events('CALL'))
        rep.check(ok, r4, "%s required= goes to the first job" % init.qualname, init.qualname,
                  "no `self.jobs[0].requires(required)`", "required= of a Sequence is lost or given to another job")
    rq = seq.methods.get('requires')
    if rq is not None:
        an, ip, out = ctx.explore(rq, model=GraphModel)
        ok = any(e.data['meth'] == 'requires' and e.data['recv'] == T.mk(('sub', SJ, ('const', 0)))
                 for e in an.events('CALL'))
        rep.check(ok, r4, "%s adds requirements to the first job" % rq.qualname, rq.qualname,
                  "no `self.jobs[0].requires(...)`", "Sequence.requires() does not reach the first job")
    jinit = r.jobbase.methods.get('__init__')
    if jinit is not None:
        an, ip, out = ctx.explore(jinit, model=GraphModel)
        ok = any(e.data['meth'] == 'requires' and e.data['recv'] == T.SELF
                 and e.data['args'] == (T.mk(('var', 'required')),) for e in an.events('CALL'))
        rep.check(ok, r4, "%s required= is applied" % jinit.qualname, jinit.qualname, "no `self.requires(required)`",
                  "required= of a job is ignored")
        # R19.5 scheduler=
        ok = any(e.data['meth'] in ('add', 'update') and e.data['recv'] == T.mk(('var', 'scheduler'))
                 for e in an.events('CALL'))
        rep.check(ok, r5, "%s scheduler= registers the job" % jinit.qualname, jinit.qualname,
                  "no `scheduler.add(self)`", "scheduler= of a job is ignored")
    # ------------------------------------------------------------ R19.5 registration
    for f in seq.methods.values():
        an, ip, out = ctx.explore(f, model=GraphModel)
        stores = writer_events(an)
        if not stores:
            continue
        canon = alias_canon(an)
        regs = [e for e in an.events('MUT') if e.data['how'] == 'update' and T.is_attr(T.mk(('attr', e.data['obj'], e.data['attr'])))
                and e.data['attr'] == 'scheduler']
        regs += [e for e in an.events('CALL') if e.data['meth'] == 'update'
                 and T.is_attr(canon(e.data['recv']), 'scheduler')]
        rep.check(bool(regs), r5, "%s registers its jobs in the sequence's scheduler" % f.qualname, f.qualname,
                  "no `self.scheduler.update(...)`", "jobs added to a sequence bound to a scheduler are not members of it")
        for e in regs:
            arg = e.data['args'][0] if e.data['args'] else None
            news = {new for _e, _a, new in stores if new is not None}
            ok = arg == SJ or arg in news or canon(arg) == SJ
            rep.check(ok, r5, "%s registers every job involved" % e.where, f.qualname,
                      "`%s` registers %s" % (src(stmt_of(e.node)), T.show(arg, 3)[:80] if arg is not None else None),
                      "some jobs of the sequence are not registered in its scheduler", trace(e.st))
    add = p.supplier(r.sched, 'add')
    upd = p.supplier(r.sched, 'update')
    if add is not None:
        an, ip, out = ctx.explore(add, model=GraphModel)
        prm = add.params[1]
        ok = any(e.data['meth'] == 'update' and e.data['recv'] == T.SELF and e.data['args'] and
                 T.contains(e.data['args'][0], T.mk(('var', prm))) for e in an.events('CALL'))
        if not ok:
            # ... or does itself what update() does: flatten, then add to the member set
            m_ = [e for e in an.events('MUT') if e.data['attr'] == 'jobs' and e.data['obj'] == T.SELF]
            fl_ = _flatteners(ctx, seq)
            ok = any(e.data['how'] in ('update', 'add') and e.data['args'] and T.contains(e.data['args'][0], T.mk(('var', prm)))
                     for e in m_) and (any(q in fl_ for q in ip.inlined) or any(
                         x[0] in ('call', 'gen') and isinstance(x[1], str) and any(_last(q) == _last(x[1]) for q in fl_)
                         for e in m_ for a in e.data['args'] for x in T.subterms(a)))
        rep.check(ok, r5, "%s goes through update()" % add.qualname, add.qualname, "no `self.update([job])`",
                  "add() of a Sequence does not flatten it into the member set")
    if upd is not None:
        an, ip, out = ctx.explore(upd, model=GraphModel)
        prm = upd.params[1]
        m = [e for e in an.events('MUT') if e.data['attr'] == 'jobs' and e.data['obj'] == T.SELF]
        ok = any(e.data['how'] == 'update' and e.data['args'] and T.contains(e.data['args'][0], T.mk(('var', prm)))
                 for e in m)
        fl = _flatteners(ctx, seq)
        flat = any(q in fl for q in ip.inlined) or any(
            x[0] in ('call', 'gen') and isinstance(x[1], str) and any(_last(q) == _last(x[1]) for q in fl)
            for e in m for a in e.data['args'] for x in T.subterms(a))
        rep.check(ok and flat, r5, "%s flattens and adds to the member set" % upd.qualname, upd.qualname,
                  "member-set updates: %s, flatten used: %s" % ([(e.data['how'], [T.show(a, 2)[:40] for a in e.data['args']]) for e in m], flat),
                  "update() does not register every job of the sequences it is given")


def _last(q):
    import re
    return re.split('[.:]', q)[-1]


def _flatteners(ctx, seq):
    """qualnames of the functions that flatten job-likes: a loop over a parameter that takes the `jobs` of the elements
    recognised as sequences - and the functions that just return what one of those makes of their own parameter"""
    out = {}
    funcs = list(ctx.prog.all_functions())

    def seq_test(n, el):
        return isinstance(n, ast.Call) and dotted(n.func) == 'isinstance' and len(n.args) == 2 \
            and isinstance(n.args[0], ast.Name) and n.args[0].id == el \
            and any((dotted(k) or '').split('.')[-1] == seq.name
                    for k in (n.args[1].elts if isinstance(n.args[1], ast.Tuple) else [n.args[1]]))
    # what is done with one job-like may live in a helper (`_expand(x)`: x.jobs for a sequence, [x] for a job)
    per_elem = set()
    for f in funcs:
        for p_ in f.params:
            if any(seq_test(n, p_) for n in walk_local(f.node)) and any(
                    isinstance(n, ast.Attribute) and n.attr == 'jobs' and isinstance(n.value, ast.Name)
                    and n.value.id == p_ for n in walk_local(f.node)):
                per_elem.add(f.name)
    for f in funcs:
        # a loop or a comprehension over a parameter, each element handed to such a helper
        for n in walk_local(f.node):
            gens = [(n.target, n.iter, n.body)] if isinstance(n, ast.For) else \
                [(g.target, g.iter, [n]) for g in n.generators] if isinstance(
                    n, (ast.ListComp, ast.SetComp, ast.GeneratorExp)) else []
            for tgt, it, body in gens:
                if isinstance(it, ast.Name) and it.id in f.params and isinstance(tgt, ast.Name) and any(
                        isinstance(c, ast.Call) and (dotted(c.func) or '').split('.')[-1] in per_elem
                        and any(isinstance(a, ast.Name) and a.id == tgt.id for a in c.args)
                        for b in body for c in ast.walk(b)):
                    out[f.qualname] = f
        for lp in walk_local(f.node):
            if isinstance(lp, ast.For) and isinstance(lp.iter, ast.Name) and lp.iter.id in f.params \
                    and isinstance(lp.target, ast.Name):
                el = lp.target.id
                isi = any(seq_test(n, el) or (
                    isinstance(n, ast.Match) and isinstance(n.subject, ast.Name) and n.subject.id == el and any(
                        isinstance(pt, ast.MatchClass) and (dotted(pt.cls) or '').split('.')[-1] == seq.name
                        for c_ in n.cases for pt in ast.walk(c_.pattern)))
                    for b in lp.body for n in ast.walk(b))
                takes = any(isinstance(n, ast.Attribute) and n.attr == 'jobs' and isinstance(n.value, ast.Name)
                            and n.value.id == el for b in lp.body for n in ast.walk(b))
                if isi and takes:
                    out[f.qualname] = f
    changed = True
    while changed:
        changed = False
        for f in funcs:
            if f.qualname in out:
                continue
            rets = [n for n in walk_local(f.node) if isinstance(n, ast.Return)]
            v = rets[0].value if len(rets) == 1 else None
            # (`return list(flat(x))`: a collection made of what the flattener gives is that, in order)
            while isinstance(v, ast.Call) and isinstance(v.func, ast.Name) and v.func.id in ('list', 'tuple', 'set', 'BestSet') \
                    and len(v.args) == 1 and isinstance(v.args[0], ast.Call):
                v = v.args[0]
            if isinstance(v, ast.Call) and len(v.args) == 1 \
                    and isinstance(v.args[0], ast.Name) and v.args[0].id in f.params:
                name = (dotted(v.func) or '').split('.')[-1]
                if any(_last(q) == name for q in out):
                    out[f.qualname] = f
                    changed = True
    return set(out)


# ======================================================= who may write the requirement relation
MUTATORS = {'add', 'discard', 'remove', 'update', 'clear', 'pop', 'difference_update', 'intersection_update',
            'symmetric_difference_update', '__ior__', '__iand__', '__isub__', '__ixor__'}

# role -> why it may write `required`; frozen after reading the package (one line of reason each)
RELATION_WRITERS = {
    ('jobbase', '__init__'): "creates the (empty) set",
    ('jobbase', 'requires'): "the construction API itself (add / remove=True)",
    ('sched', 'sanitize'): "documented: drops requirements that are not members (C16)",
    ('sched', 'bypass_and_remove'): "documented graph surgery (C18)",
}


def relation_write_sites(prog, attr='required'):
    """every construct of the package that can change a `.required` set:
    (function, node, description)"""
    sites = []
    for f in prog.funcs.values():
        aliases = set()
        for n in walk_local(f.node):
            if isinstance(n, ast.Assign) and len(n.targets) == 1 and isinstance(n.targets[0], ast.Name) \
                    and _is_rel(n.value, attr):
                aliases.add(n.targets[0].id)

        def is_rel(e):
            return _is_rel(e, attr) or (isinstance(e, ast.Name) and e.id in aliases)
        for n in walk_local(f.node):
            if isinstance(n, ast.Call) and isinstance(n.func, ast.Attribute) and n.func.attr in MUTATORS \
                    and is_rel(n.func.value):
                sites.append((f, n, "`%s`" % src(n)[:80]))
            elif isinstance(n, ast.AugAssign) and is_rel(n.target):
                sites.append((f, n, "`%s`" % src(n)[:80]))
            elif isinstance(n, ast.Assign) and any(_is_rel(t, attr) for t in n.targets):
                sites.append((f, n, "`%s`" % src(n)[:80]))
            elif isinstance(n, ast.Delete) and any(_is_rel(t, attr) for t in n.targets):
                sites.append((f, n, "`%s`" % src(n)[:80]))
            elif isinstance(n, ast.Call) and dotted(n.func) in ('setattr', 'delattr') and len(n.args) >= 2 \
                    and isinstance(n.args[1], ast.Constant) and n.args[1].value == attr:
                sites.append((f, n, "`%s`" % src(n)[:80]))
    return sites


def _is_rel(e, attr):
    if isinstance(e, ast.Attribute) and e.attr == attr:
        return True
    if isinstance(e, ast.Call) and dotted(e.func) == 'getattr' and len(e.args) >= 2 \
            and isinstance(e.args[1], ast.Constant) and e.args[1].value == attr:
        return True
    return False


def relation_writers(ctx, rep, rule):
    """the requirement edges are exactly those built through the construction API: a `.required` set is
    written only by the functions of RELATION_WRITERS (resolved by role), or by a private helper that only
    they call"""
    from ..effects import callees_by_name
    r = ctx.roles
    p = ctx.prog
    allowed = {}
    for (role, name), why in RELATION_WRITERS.items():
        cls = r.jobbase if role == 'jobbase' else r.sched
        f = p.supplier(cls, name)
        if f is None:
            rep.error(rule, "writer %s.%s of the table not found" % (cls.name, name))
            return
        allowed[f.qualname] = why
    # callers of each function (by name resolution)
    # users of each function: calls resolved by name, and plain references (`h = self._helper; h(x)`)
    callers = {}
    for g in p.funcs.values():
        for n in walk_local(g.node):
            if isinstance(n, ast.Call):
                for c in callees_by_name(p, g, n):
                    callers.setdefault(c.qualname, set()).add(g.qualname)
            elif isinstance(n, ast.Attribute) and isinstance(n.ctx, ast.Load):
                fake = ast.Call(func=n, args=[], keywords=[])
                for c in callees_by_name(p, g, fake):
                    if c.name == n.attr:
                        callers.setdefault(c.qualname, set()).add(g.qualname)

    def ok_func(f, seen=()):
        if f.qualname in allowed:
            return True
        # closures of an allowed function
        g = f.parent
        while g is not None:
            if g.qualname in allowed:
                return True
            g = g.parent
        helper_cls = f.cls is not None and f.cls.name.startswith('_') and not f.name.startswith('__')
        if (helper_cls or (f.name.startswith('_') and not f.name.startswith('__'))) and f.qualname not in seen:
            # (a private helper, or a method of a private helper class)
            cs = callers.get(f.qualname, set())
            if not cs and not any((isinstance(n, ast.Attribute) and n.attr == f.name) or
                                  (isinstance(n, ast.Constant) and n.value == f.name)
                                  for g in p.funcs.values() for n in walk_local(g.node)):
                return True         # nothing in the package mentions it: nobody reaches this write
            return bool(cs) and all(ok_func(p.funcs[c], seen + (f.qualname,)) for c in cs if c in p.funcs)
        return False
    sites = relation_write_sites(p)
    rep.need(rule, len(sites), 4, "constructs writing a `required` set")
    for f, n, what in sites:
        if isinstance(n, ast.Assign) and any(_is_rel(t, 'required') for t in n.targets):
            v = n.value
            fresh = isinstance(v, (ast.Set, ast.SetComp, ast.BinOp)) or (
                isinstance(v, ast.Call) and ((dotted(v.func) or '').split('.')[-1] in (
                    'set', 'BestSet', 'OrderedSet', 'frozenset', 'copy', 'union', 'difference', 'intersection')))
            rep.check(fresh, rule, "%s:%d a job's requirement set is its own" % (f.module.relpath, n.lineno), f.qualname,
                      "`%s` stores an object that something else may hold" % src(n)[:80],
                      "two jobs (or a job and its caller) share one `required` set: requires(), sanitize() or "
                      "bypass_and_remove() on one of them silently edits the requirements of the other")
        rep.check(ok_func(f), rule, "%s:%d write of the requirement relation by a documented writer"
                  % (f.module.relpath, n.lineno), f.qualname,
                  "%s in %s, which is not one of %s (nor a private helper of theirs)"
                  % (what, f.qualname, sorted(allowed)),
                  "requirement edges change behind the back of requires(): the edges are no longer exactly the "
                  "ones the construction API built (a later requires(x, remove=True) raises, sanitize() has "
                  "nothing to report, a job added back has lost its edges)")


# ======================================================= a sequence never drops a requirement
class KeepModel(GraphModel):
    """GraphModel + whether, on the current path, the watched parameter has been handed to a requires() call
    or retained in the object"""
    watched = None          # term of the parameter

    def _mentions(self, terms):
        w = self.watched
        return any(T.contains(t, w) for t in terms if isinstance(t, tuple))

    def _verbatim(self, t, depth=0):
        """the watched value itself, or a plain container / copy of it: not the result of a function of the package
        applied to it (which may drop part of it: `_flatten()` skips the collections it is not meant for)"""
        w = self.watched
        if t == w:
            return True
        if depth > 4 or not isinstance(t, tuple) or not T.contains(t, w):
            return False
        if t[0] in ('tuple', 'list', 'set'):
            return all(self._verbatim(x, depth + 1) or not T.contains(x, w) for x in t[1])
        if t[0] == 'star':
            return self._verbatim(t[1], depth + 1)
        if t[0] == 'call' and t[1] in ('list', 'tuple', 'set', 'frozenset', 'sorted') and len(t[2]) == 1:
            return self._verbatim(t[2][0], depth + 1)
        if t[0] == 'binop' and t[1] == 'Add':
            return all(self._verbatim(x, depth + 1) or not T.contains(x, w) for x in t[2:4])
        if t[0] in ('union', 'single', 'when'):
            return True
        if t[0] == 'ifexp':
            return all(self._verbatim(x, depth + 1) or not T.contains(x, w) for x in t[2:4])
        return False

    def on_call(self, ip, node, fterm, args, kws, st, fr):
        hit = None
        if fterm[0] == 'attr' and self._mentions(list(args) + [v for _k, v in kws]):
            if fterm[2] == 'requires':
                hit = ('handed', fterm[1])
            elif fterm[2] in ('append', 'extend', 'add', 'update', 'insert') and fterm[1][0] == 'attr' \
                    and fterm[1][1] == T.SELF:
                if all(self._verbatim(a) for a in list(args) + [v for _k, v in kws] if T.contains(a, self.watched)):
                    hit = ('kept', fterm[1][2])
                else:
                    self.ev(ip, 'KEPT_TRANSFORMED', node, st, fr, attr=fterm[1][2], args=args)
        res = GraphModel.on_call(self, ip, node, fterm, args, kws, st, fr)
        if hit is None:
            return res
        if res is None:
            res = ip.call_generic(node, fterm, args, kws, st, fr)
        out = []
        for r in res:
            x = r[0].set(consumed=hit)
            out.append((x,) + tuple(r[1:]))
        return out

    def on_branch(self, ip, node, term, val, st, fr):
        st = GraphModel.on_branch(self, ip, node, term, val, st, fr)
        if st is None:
            return None
        while term[:2] == ('unop', 'not'):
            term, val = term[2], not val
        if term == T.mk(('attr', T.SELF, 'jobs')):
            # remembered beyond the join of the `if` (path facts are not)
            st = st.set(was_empty=not val)
        return st

    def on_store_attr(self, ip, node, obj, attr, val, st, fr, aug=None):
        r = GraphModel.on_store_attr(self, ip, node, obj, attr, val, st, fr, aug)
        if obj == T.SELF and T.contains(val, self.watched) and not self._verbatim(val):
            self.ev(ip, 'KEPT_TRANSFORMED', node, st, fr, attr=attr, args=(val,))
        elif obj == T.SELF and T.contains(val, self.watched):
            base = r if r is not None else ip.default_store_attr(obj, attr, st)
            if isinstance(base, list):
                return [b.set(consumed=('kept', attr)) for b in base]
            return base.set(consumed=('kept', attr))
        return r


def sequence_keeps_requirements(ctx, rep, rule):
    """what is given as `required=` / to `requires()` of a sequence reaches its first job on every path:
    it is handed to a job's requires() at once, or - when the sequence holds no job yet - kept in the object
    and handed to the first job that is appended"""
    r = ctx.roles
    seq = r.sequence
    if seq is None:
        rep.error(rule, "sequence class not found")
        return
    kept_attrs = set()
    nexits = 0
    for name, param in (('__init__', 'required'), ('requires', None)):
        f = seq.methods.get(name)
        if f is None:
            rep.error(rule, "%s.%s not found" % (seq.name, name))
            continue
        pname = param or f.vararg
        if pname is None or (param and param not in f.params and param not in f.kwonly):
            rep.error(rule, "%s has no parameter carrying the requirements" % f.qualname)
            continue

        class M(KeepModel):
            watched = T.mk(('var', pname))
        an, ip, out = ctx.explore(f, model=M)
        exits = [(st, node) for st, _v, node in out.ret] + [(st, f.node) for st in out.nxt]
        for st, node in exits:
            nexits += 1
            c = st.a('consumed')
            if c and c[0] == 'kept':
                kept_attrs.add(c[1])
            none_known = st.facts.get(T.mk(('cmp', 'is', M.watched, T.NONE))) is True or \
                st.facts.get(M.watched) is False
            rep.check(bool(c) or none_known, rule,
                      "%s exit with `%s` handed to the first job, or kept" % (f.qualname, pname), f.qualname,
                      "a path through %s neither passes `%s` to a requires() call nor keeps it: %s"
                      % (f.qualname, pname, [(T.show(k, 3), v) for k, v in st.facts.items()][:4]),
                      "a requirement given to a sequence that holds no job yet is silently dropped: the job that "
                      "becomes first later (append) does not get it", trace(st))
        for e in an.events('KEPT_TRANSFORMED'):
            rep.fail(rule, "%s what is kept is what was given" % e.where, f.qualname,
                     "`%s` keeps %s" % (src(stmt_of(e.node)), ", ".join(T.show(a, 3)[:60] for a in e.data['args'])),
                     "the requirements given to a still-empty sequence go through a function that may drop part of "
                     "them (a list, a tuple or a set of jobs is skipped by the flattening of sequences): the job that "
                     "becomes first later starts before them", trace(e.st))
    rep.need(rule, nexits, 3, "exits of the sequence constructor / requires")
    # what is kept must be handed over by append() when the first jobs arrive
    app = seq.methods.get('append')
    for attr in sorted(kept_attrs):
        if app is None:
            rep.fail(rule, "%s.append hands over what was kept" % seq.name, seq.name, "no append()", "kept "
                     "requirements are never applied")
            continue

        class M2(KeepModel):
            watched = T.mk(('attr', T.SELF, attr))
        an, ip, out = ctx.explore(app, model=M2)
        jobs = T.mk(('attr', T.SELF, 'jobs'))
        stores = [e for e in an.events('STORE') if e.data['attr'] == 'jobs' and e.data['obj'] == T.SELF] + \
                 [e for e in an.events('MUT') if e.data['attr'] == 'jobs' and e.data['obj'] == T.SELF
                  and e.data['how'] in ('extend', 'append', 'insert')]
        rep.need(rule + ":append", len(stores), 1, "stores to the job list in append")
        for e in stores:
            if e.st.a('was_empty') is not False:
                c = e.st.a('consumed')
                rep.check(bool(c) and c[0] == 'handed', rule,
                          "%s first jobs of an empty sequence get the kept requirements" % e.where, app.qualname,
                          "`%s` on the path where the sequence was empty, without `<first>.requires(self.%s)`"
                          % (src(stmt_of(e.node)), attr),
                          "requirements kept while the sequence was empty never reach its first job", trace(e.st))


# ======================================================= no live iteration of an argument while removing
SHRINKERS = {'remove', 'discard', 'clear', 'pop', 'difference_update', 'intersection_update',
             'symmetric_difference_update'}
SNAPSHOTS = {'list', 'tuple', 'sorted', 'set', 'frozenset'}
LAZY_WRAPPERS = {'iter', 'reversed', 'enumerate', 'zip', 'filter', 'map', 'chain', 'itertools.chain',
                 'chain.from_iterable', 'itertools.chain.from_iterable', 'islice', 'itertools.islice'}


def no_live_iteration_while_removing(ctx, rep, rule, attr='required'):
    """requires(..., remove=True) removes exactly the named requirements, whatever collection names them - the
    job's own `required` set included: a loop of requires() (or of a helper / generator it runs) whose body can
    remove from `self.required` does not iterate over an object that may be that very set; it iterates over the
    varargs tuple, a snapshot (list(x), tuple(x), sorted(x), x.copy()), another attribute, or a name that an
    isinstance() guard shows not to be a set"""
    from ..effects import callees_by_name
    from ..index import _is_generator
    r, p = ctx.roles, ctx.prog
    f0 = p.supplier(r.jobbase, 'requires')
    if f0 is None:
        rep.error(rule, "requires() not found")
        return

    def self_rel(e):
        return _is_rel(e, attr) and ((isinstance(e, ast.Attribute) and isinstance(e.value, ast.Name)
                                      and e.value.id == 'self') or isinstance(e, ast.Call))

    import builtins
    BUILTIN_NAMES = set(dir(builtins))

    def refs(f):
        """methods of self that `f` mentions (called or not: `self._h` stored in a table is called later)"""
        out = []
        for n in walk_local(f.node):
            if isinstance(n, ast.Attribute) and isinstance(n.ctx, ast.Load) and isinstance(n.value, ast.Name) \
                    and n.value.id == 'self' and f.cls is not None:
                for c in p.dispatch_set(f.cls, n.attr) or []:
                    if c not in out:
                        out.append(c)
        return out

    # functions that can shrink self.required (directly, or through a call on self / a package function)
    def direct_shrink(n):
        if isinstance(n, ast.Call) and isinstance(n.func, ast.Attribute) and n.func.attr in SHRINKERS \
                and _is_rel(n.func.value, attr):
            return True
        if isinstance(n, ast.AugAssign) and _is_rel(n.target, attr) and isinstance(n.op, (ast.Sub, ast.BitAnd, ast.BitXor)):
            return True
        if isinstance(n, (ast.Assign, ast.Delete)) and any(_is_rel(t, attr) for t in n.targets):
            return True
        return False
    shr = {f.qualname for f in p.funcs.values() if f.cls is not None and r.jobbase in f.cls.mro
           and any(direct_shrink(n) for n in walk_local(f.node))}
    changed = True
    while changed:
        changed = False
        for f in p.funcs.values():
            if f.qualname in shr or f.cls is None or r.jobbase not in f.cls.mro:
                continue
            if any(c.qualname in shr for c in refs(f)):
                shr.add(f.qualname)
                changed = True
                continue
            for n in walk_local(f.node):
                if isinstance(n, ast.Call) and isinstance(n.func, ast.Name) \
                        and any(c.qualname in shr for c in callees_by_name(p, f, n)):
                    shr.add(f.qualname)
                    changed = True
                    break

    def shrinking_call(f, n):
        """a call that may remove from self.required"""
        if not isinstance(n, ast.Call):
            return False
        if direct_shrink(n):
            return True
        fn = n.func
        if not (isinstance(fn, ast.Name) or (isinstance(fn, ast.Attribute) and isinstance(fn.value, ast.Name)
                                             and fn.value.id == 'self')):
            return False
        cs = [c for c in callees_by_name(p, f, n) if c.qualname in shr]
        if not cs and isinstance(fn, ast.Name) and not callees_by_name(p, f, n) and fn.id not in BUILTIN_NAMES:
            # a call through a local name (`handler(x, remove)` out of a dispatch table): any method of self
            # that the function mentions may be the one
            return any(c.qualname in shr for c in refs(f))
        if not cs:
            return False
        # requires(..., remove=False) only adds
        if all(c.name == f0.name for c in cs):
            kw = {k.arg: k.value for k in n.keywords}
            if 'remove' in kw and isinstance(kw['remove'], ast.Constant) and kw['remove'].value is False:
                return False
            if 'remove' not in kw and not any(k.arg is None for k in n.keywords):
                return False
        return True

    def body_nodes(loop):
        if isinstance(loop, (ast.For, ast.AsyncFor)):
            stack = list(loop.body + loop.orelse)
            while stack:
                n = stack.pop()
                if isinstance(n, (ast.FunctionDef, ast.AsyncFunctionDef, ast.ClassDef, ast.Lambda)):
                    continue
                yield n
                stack.extend(ast.iter_child_nodes(n))
        else:
            comp, gi = loop
            parts = [comp.elt] if not isinstance(comp, ast.DictComp) else [comp.key, comp.value]
            for g in comp.generators[gi:]:
                parts += list(g.ifs)
            for g in comp.generators[gi + 1:]:
                parts.append(g.iter)
            for e in parts:
                for n in ast.walk(e):
                    yield n

    def guard_excludes_set(f, loopnode, name):
        n = loopnode
        while n is not None and n is not f.node:
            par = getattr(n, '_parent', None)
            if isinstance(par, ast.If) and n in par.body:
                t = par.test
                tests = t.values if isinstance(t, ast.BoolOp) and isinstance(t.op, ast.And) else [t]
                for c in tests:
                    if isinstance(c, ast.Call) and dotted(c.func) == 'isinstance' and len(c.args) == 2 \
                            and isinstance(c.args[0], ast.Name) and c.args[0].id == name:
                        kinds = c.args[1].elts if isinstance(c.args[1], ast.Tuple) else [c.args[1]]
                        names = [dotted(k) for k in kinds]
                        if all(k in ('list', 'tuple', 'frozenset', 'dict', 'str') or
                               (k in p.classes) for k in names):
                            return True
            n = par
        return False

    def classify(f, loopnode, e, depth=0):
        """None when `e` cannot be the live `required` set of self, else the reason it may"""
        if isinstance(e, ast.Name):
            if f.node.args.vararg is not None and e.id == f.node.args.vararg.arg:
                return None
            if guard_excludes_set(f, loopnode, e.id):
                return None
            defs = [n for n in walk_local(f.node) if isinstance(n, ast.Assign) and len(n.targets) == 1
                    and isinstance(n.targets[0], ast.Name) and n.targets[0].id == e.id]
            others = [n for n in walk_local(f.node) if isinstance(n, (ast.For, ast.AugAssign, ast.comprehension, ast.NamedExpr, ast.withitem))
                      and any(isinstance(t, ast.Name) and t.id == e.id and isinstance(t.ctx, ast.Store) for t in ast.walk(n))]
            if defs and not others and e.id not in f.params and depth < 4:
                # (bound on several branches: any of the bindings may be the one that reaches the loop)
                for d_ in defs:
                    why = classify(f, loopnode, d_.value, depth + 1)
                    if why:
                        return why
                return None
            if e.id in f.params and not defs and not others and f.name.startswith('_') \
                    and not f.name.startswith('__') and depth < 4:
                # the parameter of a private helper: what its callers hand over
                sites = []
                for g in p.funcs.values():
                    for n in walk_local(g.node):
                        if isinstance(n, ast.Call) and f in callees_by_name(p, g, n):
                            sites.append((g, n))
                whys = []
                for g, n in sites:
                    prm = [a for a in f.params if a not in ('self', 'cls')] if f.cls is not None and \
                        isinstance(n.func, ast.Attribute) else list(f.params)
                    arg = None
                    if not any(isinstance(a, ast.Starred) for a in n.args) and e.id in prm:
                        i = prm.index(e.id)
                        if i < len(n.args):
                            arg = n.args[i]
                    for k in n.keywords:
                        if k.arg == e.id:
                            arg = k.value
                    if arg is None:
                        whys.append("cannot tell what %s hands over at line %d" % (g.qualname, n.lineno))
                    else:
                        whys.append(classify(g, n, arg, depth + 1))
                if sites and all(w is None for w in whys):
                    return None
                bad = [w for w in whys if w]
                if bad:
                    return "parameter `%s`, and at a call site: %s" % (e.id, bad[0])
            return "`%s` is an argument of the call (or an element of one), which may be `self.%s` itself" % (e.id, attr)
        if isinstance(e, (ast.Tuple, ast.List, ast.Set, ast.Dict, ast.Constant, ast.ListComp, ast.SetComp, ast.DictComp)):
            return None
        if isinstance(e, ast.Attribute):
            if e.attr == attr:
                return "`%s` is a live requirement set" % src(e)
            return None
        if isinstance(e, ast.Subscript):
            return classify(f, loopnode, e.value, depth + 1) if isinstance(e.slice, ast.Slice) is False else None
        if isinstance(e, ast.Call):
            d = dotted(e.func)
            if d in SNAPSHOTS or (isinstance(e.func, ast.Attribute) and e.func.attr in ('copy', 'union', 'difference', 'intersection')):
                return None
            if d in ('range', 'len'):
                return None
            if d in LAZY_WRAPPERS:
                for a in e.args:
                    a = a.value if isinstance(a, ast.Starred) else a
                    why = classify(f, loopnode, a, depth + 1)
                    if why:
                        return why
                return None
            cs = callees_by_name(p, f, e)
            if cs and depth < 4:
                for c in cs:
                    if _is_generator(c.node):
                        # a generator runs interleaved with its consumer: its own yielding loops are live
                        for lp, it in loops_of(c):
                            if any(isinstance(n, (ast.Yield, ast.YieldFrom)) for n in body_nodes(lp)):
                                why = classify(c, lp if not isinstance(lp, tuple) else lp[0], it, depth + 1)
                                if why:
                                    return "generator %s: %s" % (c.qualname, why)
                        for n in walk_local(c.node):
                            if isinstance(n, ast.YieldFrom):
                                why = classify(c, n, n.value, depth + 1)
                                if why:
                                    return "generator %s: %s" % (c.qualname, why)
                    else:
                        for n in walk_local(c.node):
                            if isinstance(n, ast.Return) and isinstance(n.value, ast.Name) and n.value.id in c.params:
                                return "%s may return its argument as it is" % c.qualname
                return None
            return UNREADABLE
        if isinstance(e, ast.GeneratorExp):
            for g in e.generators:
                why = classify(f, loopnode, g.iter, depth + 1)
                if why:
                    return why
            return None
        if isinstance(e, ast.IfExp):
            return classify(f, loopnode, e.body, depth + 1) or classify(f, loopnode, e.orelse, depth + 1)
        if isinstance(e, ast.BinOp):
            return None     # a new collection
        return UNREADABLE

    def loops_of(f):
        for n in walk_local(f.node):
            if isinstance(n, (ast.For, ast.AsyncFor)):
                yield n, n.iter
            elif isinstance(n, (ast.ListComp, ast.SetComp, ast.GeneratorExp, ast.DictComp)):
                for gi, g in enumerate(n.generators):
                    yield (n, gi), g.iter

    UNREADABLE = "?"
    # the functions requires() runs on self
    todo, seen = [f0], []
    while todo:
        f = todo.pop()
        if f in seen:
            continue
        seen.append(f)
        for n in walk_local(f.node):
            if isinstance(n, ast.Call) and (isinstance(n.func, ast.Name) or
                                            (isinstance(n.func, ast.Attribute) and isinstance(n.func.value, ast.Name)
                                             and n.func.value.id == 'self')):
                for c in callees_by_name(p, f, n):
                    if c.cls is None or r.jobbase in c.cls.mro:
                        todo.append(c)
        todo += [c for c in refs(f) if c not in seen]
    live = 0
    for f in seen:
        for lp, it in loops_of(f):
            acts = [n for n in body_nodes(lp) if shrinking_call(f, n) or direct_shrink(n)]
            if not acts:
                continue
            live += 1
            node = lp if not isinstance(lp, tuple) else lp[0]
            why = classify(f, node, it)
            where = "%s:%d" % (f.module.relpath, node.lineno)
            if why == UNREADABLE:
                rep.error(rule, "%s %s: cannot tell what the loop over `%s` iterates, while its body can remove "
                          "requirements (`%s`)" % (where, f.qualname, src(it), src(acts[0])))
                continue
            rep.check(why is None, rule, "%s a loop that can remove requirements does not iterate the live set"
                      % where, f.qualname,
                      "`for ... in %s` runs `%s`: %s" % (src(it), src(acts[0])[:60], why),
                      "job.requires(job.required, remove=True) changes the set it iterates: RuntimeError, and the "
                      "removal is left half done instead of removing exactly the named requirements")
    rep.need(rule, live, 1, "loops of requires() whose body can remove requirements")


# ======================================================= who may ask for requirements to be dropped
PRUNERS = ('sanitize', 'bypass_and_remove')
PRUNER_CALLERS = {
    'sanitize': "recursion into nested schedulers",
    'keep_only': "documented: narrows the member set, then sanitizes (C18)",
    'keep_only_between': "documented: goes through keep_only (C18)",
    'bypass_and_remove': "the surgery itself",
}


def pruners_called_only_by(ctx, rep, rule):
    """the operations that delete requirement edges wholesale - sanitize(), bypass_and_remove() - are run by the
    user, or by the graph surgery that documents it; the registration API (add / update / remove, sequences,
    requires) and the run never call them: the edges the construction API built stay as built"""
    from ..effects import callees_by_name
    r, p = ctx.roles, ctx.prog
    n = 0
    for g in p.funcs.values():
        for c in walk_local(g.node):
            if not (isinstance(c, ast.Call) and isinstance(c.func, ast.Attribute) and c.func.attr in PRUNERS):
                continue
            if not any(f.cls is not None and r.sched in f.cls.mro for f in callees_by_name(p, g, c)):
                continue
            n += 1
            owner = g
            while owner.parent is not None:
                owner = owner.parent
            ok = owner.name in PRUNER_CALLERS
            if not ok and owner.name.startswith('_') and not owner.name.startswith('__'):
                # a private helper: judged by who uses it
                from .common import only_used_by
                allowed = {f.qualname for f in p.funcs.values() if f.name in PRUNER_CALLERS}
                ok = only_used_by(ctx, owner, allowed)
            rep.check(ok, rule, "%s:%d %s() is called by the graph surgery only" % (g.module.relpath, c.lineno, c.func.attr),
                      g.qualname, "`%s` in %s, which is not one of %s (nor a private helper of theirs)"
                      % (src(c), g.qualname, sorted(PRUNER_CALLERS)),
                      "an operation documented to register or un-register jobs (or the run itself) deletes requirement "
                      "edges behind the caller's back: `s.remove(b); s.add(b)` loses every edge onto b, edges towards "
                      "jobs not registered yet disappear")
    rep.need(rule, n, 2, "calls of sanitize() / bypass_and_remove() in the package")
