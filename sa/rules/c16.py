"""C16 -- sanitize() closes the requirement relation minimally and reports truthfully."""

from . import buildrules, graphrules, common


def check(ctx, rep):
    rep.explanation = (
        "R16.1 closure: for every member (unfiltered loop) job.required is replaced by job.required & the "
        "receiver's own member set. R16.2 minimality: no other writer of `required` in sanitize. R16.3 the "
        "recursive call on a nested scheduler is evaluated on every path through the loop body (not behind a "
        "short-circuit or a condition on the flag), for every scheduler class. R16.4 fold table: the body of "
        "the member loop is evaluated for every valuation of (flag before, removed, nested, nested result) "
        "and the returned value must equal `for all members: not removed and (nested => nested result)`; "
        "the first differing row is printed. R16.7 (= R19.8) the sets sanitize() prunes in place are each job's own: `required` is written only by the documented writers, and a store to it stores a fresh set, never an object the caller or another job may hold (pruning one job would silently prune the other).")
    rep.trusted = ["T8 set algebra, short-circuit evaluation"]
    graphrules.sanitize_rules(ctx, rep, "R16.1", "R16.2", "R16.3", "R16.4")
    p, r = ctx.prog, ctx.roles
    funcs = [p.supplier(c, 'sanitize') for c in [r.sched] + r.nestable]
    common.job_truthiness(ctx, rep, "R16.5", funcs)
    common.no_state_across_calls(ctx, rep, "R16.6", funcs)
    buildrules.relation_writers(ctx, rep, "R16.7")
