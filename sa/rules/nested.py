"""
Rules about the nested form (the class that is both a scheduler and a job):
critical mapping (R04.3), MRO table (R10.1), constructor chaining.
"""

import ast

from .. import terms as T
from ..index import walk_local, dotted
from .common import src, stmt_of, trace
from .runrules import MEMBERS, mcall

RUNRES = T.mk(('runresult',))


def _fact(st, term):
    return st.facts.get(T.mk(term))


def critical_mapping(ctx, rep, rule):
    r = ctx.roles
    n = 0
    for cls in r.nestable:
        f = ctx.prog.supplier(cls, 'co_run')
        if f is r.RUN:
            rep.fail(rule, "%s.co_run" % cls.name, cls.name, "class %s does not override co_run" % cls.name,
                     "a critical nested scheduler that fails returns False instead of raising: its parent "
                     "carries on as if it had succeeded")
            continue
        an, ip, out = ctx.explore(f)
        fn = f.qualname
        ok_t = mcall(T.SELF, 'failed_time_out')
        ok_c = mcall(T.SELF, 'failed_critical')
        crit = T.mk(('attr', T.SELF, 'critical'))
        crit2 = mcall(T.SELF, 'is_critical')
        is_true = T.mk(('cmp', 'is', RUNRES, T.TRUE))

        def verdict_ok(st):
            v = st.facts.get(is_true)
            if v is None:
                v = st.facts.get(RUNRES)
            if v is None:
                # `if not pure` / `pure is False` spellings
                w = st.facts.get(T.mk(('cmp', 'is', RUNRES, T.FALSE)))
                if w is not None:
                    v = not w
            if v is None:
                # `pure is not False` / `pure is not True` (the inherited run returns one of the two literals)
                w = st.facts.get(T.mk(('cmp', 'is not', RUNRES, T.FALSE)))
                if w is not None:
                    v = w
            if v is None:
                w = st.facts.get(T.mk(('cmp', 'is not', RUNRES, T.TRUE)))
                if w is not None:
                    v = not w
            return v

        def is_crit(st):
            v = st.facts.get(crit)
            if v is None:
                v = st.facts.get(crit2)
            return v
        is_false = T.mk(('cmp', 'is', RUNRES, T.FALSE))

        def possible(st, ok=None, critical=None):
            """can this path coexist with `the inherited verdict is ok` / `self is critical`?"""
            y = st
            if ok is not None:
                for t, v in ((is_true, ok), (RUNRES, ok), (is_false, not ok),
                             (T.mk(('cmp', 'is not', RUNRES, T.FALSE)), ok), (T.mk(('cmp', 'is not', RUNRES, T.TRUE)), not ok)):
                    y = y.assume(t, v)
                    if y is None:
                        return False
            if critical is not None:
                for t in (crit, crit2):
                    y = y.assume(t, critical)
                    if y is None:
                        return False
            return True
        for e in an.events('RET'):
            n += 1
            val = e.data['val']
            site = "%s return" % e.where
            good = val == RUNRES or (val == T.TRUE and verdict_ok(e.st) is True) \
                or (val == T.FALSE and verdict_ok(e.st) is False)
            rep.check(good, rule, site + " carries the inherited verdict", fn,
                      "`%s` returns %s" % (src(stmt_of(e.node)), T.show(val, 3)),
                      "the nested scheduler's result is not the verdict of its own run", trace(e.st))
            rep.check(not possible(e.st, ok=False, critical=True), rule,
                      site + " only on success or when not critical", fn,
                      "`%s` reachable with a failed run of a critical scheduler" % src(stmt_of(e.node)),
                      "a critical nested scheduler that fails returns instead of raising: the failure is "
                      "contained although it must propagate", trace(e.st))
        for e in an.events('RAISE'):
            n += 1
            kind = e.data['exc']
            site = "%s raise" % e.where
            st = e.st
            rep.check(not possible(st, ok=True) and not possible(st, critical=False), rule,
                      site + " only for a failed critical scheduler", fn,
                      "`%s` reachable after a successful run or for a non-critical scheduler" % src(stmt_of(e.node)),
                      "a nested scheduler raises although its run succeeded or although it is not critical",
                      trace(st))
            if kind[0] == 'Raise' and kind[1] and kind[1].endswith('TimeoutError'):
                rep.check(st.facts.get(ok_t) is True, rule, site + " TimeoutError iff timed out", fn,
                          "`%s` not under `failed_time_out()`" % src(stmt_of(e.node)),
                          "TimeoutError is raised for a failure that is not a timeout", trace(st))
            elif kind[0] == 'Raise' and kind[1] is None:
                t = kind[2]
                # identity: the very object returned by the member's exception accessor
                good = t[0] == 'mcall' and t[2] == 'raised_exception' and t[1][0] == 'elem' and t[1][1] == MEMBERS
                rep.check(good, rule, site + " re-raises the job's own exception object", fn,
                          "`%s` raises %s" % (src(stmt_of(e.node)), T.show(t, 4)),
                          "the exception that bubbles up is not the very object raised by the critical job",
                          trace(st))
                if good:
                    j = t[1]
                    cj = st.facts.get(T.mk(('attr', j, 'critical')))
                    if cj is None:
                        cj = st.facts.get(mcall(j, 'is_critical'))
                    rep.check(cj is True, rule, site + " the exception of a critical job", fn,
                              "`%s` not restricted to critical members" % src(stmt_of(e.node)),
                              "the exception of a non-critical job is propagated", trace(st))
                rep.check(st.facts.get(ok_c) is True and st.facts.get(ok_t) is False, rule,
                          site + " under failed_critical and not failed_time_out", fn,
                          "`%s` guard: failed_time_out()=%s failed_critical()=%s"
                          % (src(stmt_of(e.node)), st.facts.get(ok_t), st.facts.get(ok_c)),
                          "a job's exception is raised for a timeout (or the tests are in the wrong order)",
                          trace(st))
            elif kind[0] == 'Raise':
                # fallback raise ("should not happen"): acceptable only when neither cause was recognised
                rep.check(st.facts.get(ok_t) is not True, rule, site + " fallback", fn,
                          "`%s` reachable although failed_time_out() holds" % src(stmt_of(e.node)),
                          "a timed-out critical scheduler raises something else than TimeoutError", trace(st))
        kinds = {(e.data['exc'][1] or 'object') for e in an.events('RAISE')}
        rep.check(any(k.endswith('TimeoutError') for k in kinds), rule, "%s raises TimeoutError on expiry" % fn, fn,
                  "no `raise TimeoutError` in %s" % fn,
                  "a critical nested scheduler that times out does not raise TimeoutError")
        rep.check('object' in kinds, rule, "%s re-raises a critical job's exception" % fn, fn,
                  "no re-raise of a member's exception in %s" % fn,
                  "a critical nested scheduler whose critical job fails does not propagate that exception")
    rep.need(rule, n, 4, "exits of the nested form")


JOB_SIDE = ['is_done', 'is_idle', 'is_scheduled', 'is_running', 'requires', 'is_critical',
            'raised_exception', 'result']
SCHED_SIDE = ['co_shutdown', 'sanitize', 'topological_order', 'iterate_jobs', 'entry_jobs', 'exit_jobs']


def mro_table(ctx, rep, rule):
    r = ctx.roles
    p = ctx.prog
    rep.need(rule, len(r.nestable), 1, "nestable classes")
    for cls in r.nestable:
        site = "class %s(%s)" % (cls.name, ", ".join(cls.base_names))
        own = p.supplier(cls, 'co_run')
        rep.check(own is not None and own.cls is not r.jobbase and r.sched in own.cls.mro
                  and (own.cls is not r.sched), rule, "%s.co_run is an override aware of `critical`" % cls.name,
                  site, "%s.co_run resolves to %s" % (cls.name, own.qualname if own else None),
                  "the nested scheduler's body is not the critical-aware run")
        for m in SCHED_SIDE:
            s = p.supplier(cls, m)
            if s is None:
                continue
            good = r.sched in s.cls.mro
            rep.check(good, rule, "%s.%s comes from the scheduler side" % (cls.name, m), site,
                      "%s.%s resolves to %s" % (cls.name, m, s.qualname),
                      "%s of a nested scheduler is the job-side stub: %s" % (
                          m, "its jobs never receive co_shutdown" if m == 'co_shutdown' else
                          "the nested scheduler is not treated as a scheduler"))
        for m in JOB_SIDE:
            s = p.supplier(cls, m)
            if s is None:
                continue
            good = r.jobbase in s.cls.mro
            rep.check(good, rule, "%s.%s comes from the job side" % (cls.name, m), site,
                      "%s.%s resolves to %s" % (cls.name, m, s.qualname),
                      "%s of a nested scheduler is not the job's one" % m)
        # every name defined on both sides must resolve as the tables say, or be overridden
        sched_names = {m for c in r.sched.mro for m in c.methods}
        job_names = {m for c in r.jobbase.mro for m in c.methods}
        for m in sorted(sched_names & job_names):
            if m in SCHED_SIDE or m in JOB_SIDE or m == 'co_run' or m.startswith('__'):
                continue
            s = p.supplier(cls, m)
            sa, sb = p.supplier(r.sched, m), p.supplier(r.jobbase, m)
            if sa is sb:
                continue            # one definition, in an ancestor the two sides share (a mixin): nothing to resolve
            if sa is not None and sb is not None and (
                    (sb.cls in r.sched.mro and s is sa) or (sa.cls in r.jobbase.mro and s is sb)):
                continue            # one side overrides the definition of the shared ancestor, the other inherits it
            rep.check(s.cls is cls or cls in s.cls.mro or s.cls in cls.mro[:1], rule,
                      "%s.%s (defined on both sides) is overridden" % (cls.name, m), site,
                      "%s.%s is defined by both base classes and resolves silently to %s" % (cls.name, m, s.qualname),
                      "an ambiguous hook is resolved by base-class order rather than on purpose")
        # both constructors are run
        init = cls.methods.get('__init__')
        if init is not None:
            called = set()
            for n in walk_local(init.node):
                if isinstance(n, ast.Call) and isinstance(n.func, ast.Attribute) and n.func.attr == '__init__':
                    d = dotted(n.func.value)
                    if d in p.classes:
                        called.add(p.classes[d])
                    elif isinstance(n.func.value, ast.Call) and dotted(n.func.value.func) == 'super':
                        called |= set(cls.mro[1:])
            for side, name in ((r.sched, 'scheduler'), (r.jobbase, 'job')):
                rep.check(any(side in c.mro for c in called) or side in called, rule,
                          "%s.__init__ runs the %s constructor" % (cls.name, name), init.qualname,
                          "%s.__init__ does not call %s.__init__" % (cls.name, side.name),
                          "a nested scheduler lacks the %s-side state" % name)


def reraise_is_immediate(ctx, rep, rule):
    """in the nested form, once the exception of a critical member has been read it is raised at once: a call made in
    between (annotating it, formatting a message from the job) may raise something else, which then travels instead
    of the job's own exception"""
    r = ctx.roles
    n = 0
    for cls in r.nestable:
        f = ctx.prog.supplier(cls, 'co_run')
        if f is None or f is r.RUN:
            continue
        fn = f.qualname
        for rs in walk_local(f.node):
            if not (isinstance(rs, ast.Raise) and isinstance(rs.exc, ast.Name)):
                continue
            name = rs.exc.id
            binds = [a for a in walk_local(f.node) if isinstance(a, ast.Assign) and len(a.targets) == 1
                     and isinstance(a.targets[0], ast.Name) and a.targets[0].id == name
                     and isinstance(a.value, ast.Call) and isinstance(a.value.func, ast.Attribute)
                     and a.value.func.attr in ('raised_exception', 'exception')]
            if not binds:
                continue
            n += 1
            lo = max(b.lineno for b in binds if b.lineno < rs.lineno) if any(b.lineno < rs.lineno for b in binds) else None
            if lo is None:
                continue
            # what may replace the exception on its way: a method called on it, or a call it is handed to (a message
            # printed about it - `print`, `str.format` on a literal - is neither)
            def touches(c):
                if isinstance(c.func, ast.Name) and c.func.id in ('print', 'isinstance', 'hasattr', 'type', 'repr', 'str'):
                    return False
                if isinstance(c.func, ast.Attribute) and isinstance(c.func.value, ast.Constant):
                    return False
                if isinstance(c.func, ast.Attribute) and isinstance(c.func.value, ast.Name) and c.func.value.id == name:
                    return True
                return any(isinstance(a, ast.Name) and a.id == name for a in list(c.args) + [k.value for k in c.keywords])
            between = [c for c in walk_local(f.node) if isinstance(c, ast.Call) and lo < c.lineno <= rs.lineno
                       and touches(c)]
            rep.check(not between, rule, "%s:%d the exception read is raised at once" % (f.module.relpath, rs.lineno), fn,
                      "between `%s` and `%s`: %s" % (src(binds[0])[:50], src(rs), ", ".join("`%s`" % src(c)[:60] for c in between)),
                      "if that call raises (a label that is not a string, a job that overrides the helper) its exception "
                      "bubbles up instead of the job's own: not `the same exception object`")
    rep.ok(rule, "%d re-raise(s) of a local bound to a member's exception examined" % n)
