"""
Rules about the nested form (the class that is both a scheduler and a job):
critical mapping (R04.3), MRO table (R10.1), constructor chaining.
"""

import ast

from .. import terms as T
from ..index import walk_local, dotted
from .common import src, stmt_of, trace
from .runrules import MEMBERS, mcall

RUNRES = T.mk(('runresult',))


def _fact(st, term):
    return st.facts.get(T.mk(term))


def critical_mapping(ctx, rep, rule):
    r = ctx.roles
    n = 0
    for cls in r.nestable:
        f = ctx.prog.supplier(cls, 'co_run')
        if f is r.RUN:
            rep.fail(rule, "%s.co_run" % cls.name, cls.name, "class %s does not override co_run" % cls.name,
                     "a critical nested scheduler that fails returns False instead of raising: its parent "
                     "carries on as if it had succeeded")
            continue
        an, ip, out = ctx.explore(f)
        fn = f.qualname
        ok_t = mcall(T.SELF, 'failed_time_out')
        ok_c = mcall(T.SELF, 'failed_critical')
        crit = T.mk(('attr', T.SELF, 'critical'))
        crit2 = mcall(T.SELF, 'is_critical')
        is_true = T.mk(('cmp', 'is', RUNRES, T.TRUE))

        def verdict_ok(st):
            v = st.facts.get(is_true)
            if v is None:
                v = st.facts.get(RUNRES)
            if v is None:
                # `if not pure` / `pure is False` spellings
                w = st.facts.get(T.mk(('cmp', 'is', RUNRES, T.FALSE)))
                if w is not None:
                    v = not w
            return v

        def is_crit(st):
            v = st.facts.get(crit)
            if v is None:
                v = st.facts.get(crit2)
            return v
        is_false = T.mk(('cmp', 'is', RUNRES, T.FALSE))

        def possible(st, ok=None, critical=None):
            """can this path coexist with `the inherited verdict is ok` / `self is critical`?"""
            y = st
            if ok is not None:
                for t, v in ((is_true, ok), (RUNRES, ok), (is_false, not ok)):
                    y = y.assume(t, v)
                    if y is None:
                        return False
            if critical is not None:
                for t in (crit, crit2):
                    y = y.assume(t, critical)
                    if y is None:
                        return False
            return True
        for e in an.events('RET'):
            n += 1
            val = e.data['val']
            site = "%s return" % e.where
            good = val == RUNRES or (val == T.TRUE and verdict_ok(e.st) is True) \
                or (val == T.FALSE and verdict_ok(e.st) is False)
            rep.check(good, rule, site + " carries the inherited verdict", fn,
                      "`%s` returns %s" % (src(stmt_of(e.node)), T.show(val, 3)),
                      "the nested scheduler's result is not the verdict of its own run", trace(e.st))
            rep.check(not possible(e.st, ok=False, critical=True), rule,
                      site + " only on success or when not critical", fn,
                      "`%s` reachable with a failed run of a critical scheduler" % src(stmt_of(e.node)),
                      "a critical nested scheduler that fails returns instead of raising: the failure is "
                      "contained although it must propagate", trace(e.st))
        for e in an.events('RAISE'):
            n += 1
            kind = e.data['exc']
            site = "%s raise" % e.where
            st = e.st
            rep.check(not possible(st, ok=True) and not possible(st, critical=False), rule,
                      site + " only for a failed critical scheduler", fn,
                      "`%s` reachable after a successful run or for a non-critical scheduler" % src(stmt_of(e.node)),
                      "a nested scheduler raises although its run succeeded or although it is not critical",
                      trace(st))
            if kind[0] == 'Raise' and kind[1] and kind[1].endswith('TimeoutError'):
                rep.check(st.facts.get(ok_t) is True, rule, site + " TimeoutError iff timed out", fn,
                          "`%s` not under `failed_time_out()`" % src(stmt_of(e.node)),
                          "TimeoutError is raised for a failure that is not a timeout", trace(st))
            elif kind[0] == 'Raise' and kind[1] is None:
                t = kind[2]
                # identity: the very object returned by the member's exception accessor
                good = t[0] == 'mcall' and t[2] == 'raised_exception' and t[1][0] == 'elem' and t[1][1] == MEMBERS
                rep.check(good, rule, site + " re-raises the job's own exception object", fn,
                          "`%s` raises %s" % (src(stmt_of(e.node)), T.show(t, 4)),
                          "the exception that bubbles up is not the very object raised by the critical job",
                          trace(st))
                if good:
                    j = t[1]
                    cj = st.facts.get(T.mk(('attr', j, 'critical')))
                    if cj is None:
                        cj = st.facts.get(mcall(j, 'is_critical'))
                    rep.check(cj is True, rule, site + " the exception of a critical job", fn,
                              "`%s` not restricted to critical members" % src(stmt_of(e.node)),
                              "the exception of a non-critical job is propagated", trace(st))
                rep.check(st.facts.get(ok_c) is True and st.facts.get(ok_t) is False, rule,
                          site + " under failed_critical and not failed_time_out", fn,
                          "`%s` guard: failed_time_out()=%s failed_critical()=%s"
                          % (src(stmt_of(e.node)), st.facts.get(ok_t), st.facts.get(ok_c)),
                          "a job's exception is raised for a timeout (or the tests are in the wrong order)",
                          trace(st))
            elif kind[0] == 'Raise':
                # fallback raise ("should not happen"): acceptable only when neither cause was recognised
                rep.check(st.facts.get(ok_t) is not True, rule, site + " fallback", fn,
                          "`%s` reachable although failed_time_out() holds" % src(stmt_of(e.node)),
                          "a timed-out critical scheduler raises something else than TimeoutError", trace(st))
        kinds = {(e.data['exc'][1] or 'object') for e in an.events('RAISE')}
        rep.check(any(k.endswith('TimeoutError') for k in kinds), rule, "%s raises TimeoutError on expiry" % fn, fn,
                  "no `raise TimeoutError` in %s" % fn,
                  "a critical nested scheduler that times out does not raise TimeoutError")
        rep.check('object' in kinds, rule, "%s re-raises a critical job's exception" % fn, fn,
                  "no re-raise of a member's exception in %s" % fn,
                  "a critical nested scheduler whose critical job fails does not propagate that exception")
    rep.need(rule, n, 4, "exits of the nested form")


JOB_SIDE = ['is_done', 'is_idle', 'is_scheduled', 'is_running', 'requires', 'is_critical',
            'raised_exception', 'result']
SCHED_SIDE = ['co_shutdown', 'sanitize', 'topological_order', 'iterate_jobs', 'entry_jobs', 'exit_jobs']


def mro_table(ctx, rep, rule):
    r = ctx.roles
    p = ctx.prog
    rep.need(rule, len(r.nestable), 1, "nestable classes")
    for cls in r.nestable:
        site = "class %s(%s)" % (cls.name, ", ".join(cls.base_names))
        own = p.supplier(cls, 'co_run')
        rep.check(own is not None and own.cls is not r.jobbase and r.sched in own.cls.mro
                  and (own.cls is not r.sched), rule, "%s.co_run is an override aware of `critical`" % cls.name,
                  site, "%s.co_run resolves to %s" % (cls.name, own.qualname if own else None),
                  "the nested scheduler's body is not the critical-aware run")
        for m in SCHED_SIDE:
            s = p.supplier(cls, m)
            if s is None:
                continue
            good = r.sched in s.cls.mro
            rep.check(good, rule, "%s.%s comes from the scheduler side" % (cls.name, m), site,
                      "%s.%s resolves to %s" % (cls.name, m, s.qualname),
                      "%s of a nested scheduler is the job-side stub: %s" % (
                          m, "its jobs never receive co_shutdown" if m == 'co_shutdown' else
                          "the nested scheduler is not treated as a scheduler"))
        for m in JOB_SIDE:
            s = p.supplier(cls, m)
            if s is None:
                continue
            good = r.jobbase in s.cls.mro
            rep.check(good, rule, "%s.%s comes from the job side" % (cls.name, m), site,
                      "%s.%s resolves to %s" % (cls.name, m, s.qualname),
                      "%s of a nested scheduler is not the job's one" % m)
        # every name defined on both sides must resolve as the tables say, or be overridden
        sched_names = {m for c in r.sched.mro for m in c.methods}
        job_names = {m for c in r.jobbase.mro for m in c.methods}
        for m in sorted(sched_names & job_names):
            if m in SCHED_SIDE or m in JOB_SIDE or m == 'co_run' or m.startswith('__'):
                continue
            s = p.supplier(cls, m)
            rep.check(s.cls is cls or cls in s.cls.mro or s.cls in cls.mro[:1], rule,
                      "%s.%s (defined on both sides) is overridden" % (cls.name, m), site,
                      "%s.%s is defined by both base classes and resolves silently to %s" % (cls.name, m, s.qualname),
                      "an ambiguous hook is resolved by base-class order rather than on purpose")
        # both constructors are run
        init = cls.methods.get('__init__')
        if init is not None:
            called = set()
            for n in walk_local(init.node):
                if isinstance(n, ast.Call) and isinstance(n.func, ast.Attribute) and n.func.attr == '__init__':
                    d = dotted(n.func.value)
                    if d in p.classes:
                        called.add(p.classes[d])
                    elif isinstance(n.func.value, ast.Call) and dotted(n.func.value.func) == 'super':
                        called |= set(cls.mro[1:])
            for side, name in ((r.sched, 'scheduler'), (r.jobbase, 'job')):
                rep.check(any(side in c.mro for c in called) or side in called, rule,
                          "%s.__init__ runs the %s constructor" % (cls.name, name), init.qualname,
                          "%s.__init__ does not call %s.__init__" % (cls.name, side.name),
                          "a nested scheduler lacks the %s-side state" % name)
