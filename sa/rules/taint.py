"""R06.1 -- non-interference of task outcomes with scheduling decisions."""

from .. import terms as T
from ..runmodel import is_wdone
from .common import src, stmt_of, trace
from .runrules import run_starts, mcall

OUTCOME_ATTRS = ('_exception', '_result')
OUTCOME_CALLS = ('raised_exception', 'exception', 'result')
CRIT = ('is_critical',)


def is_outcome(s):
    if T.is_attr(s) and s[2] in OUTCOME_ATTRS:
        return True
    if len(s) == 5 and s[0] == 'mcall' and s[2] in OUTCOME_CALLS:
        return True
    return False


def is_crit(s):
    return (len(s) == 5 and s[0] == 'mcall' and s[2] in CRIT) or (T.is_attr(s) and s[2] == 'critical')


def masked_fact(k):
    """the abort fold: exists/forall over the done set whose alternatives mention an
    outcome only together with the criticality of the same job (R05.1's exact shape)"""
    if k[0] not in ('forall', 'exists') or not is_wdone(k[1]):
        return False
    def raised(a, v):
        # `x is None` being False, or `x is not None` being True, says that the outcome x is set
        if a[0] == 'cmp' and a[1] in ('is', '==', 'is not', '!=') and T.NONE in (a[2], a[3]):
            return v if a[1] in ('is not', '!=') else (not v)
        return v
    for alt in k[3]:
        outs = [(a, raised(a, v)) for a, v in alt if T.mentions(a, is_outcome)]
        crits = [(a, v) for a, v in alt if is_crit(a)]
        others = [(a, v) for a, v in alt if not T.mentions(a, is_outcome) and not is_crit(a)]
        if k[0] == 'exists':
            # abort: raised and critical
            if not (outs and all(v for _, v in outs) and crits and all(v for _, v in crits)):
                return False
        else:
            # continue: not raised, or raised and not critical
            if outs and any(v for _, v in outs):
                if not (crits and not any(v for _, v in crits)):
                    return False
    return True


def outcome_reads_masked(ctx, rep, rule):
    r = ctx.roles
    an, ip, out = ctx.run()
    fn = r.RUN.qualname
    n = 0
    sinks = an.events('SPAWN', 'WAIT', 'RET', 'SHUT', 'TIDY', 'AUG', 'COUNTCMP')
    unread = []
    for e in sinks:
        if e.kind == 'TIDY' and e.data.get('what') != 'jobs':
            continue                    # tidying finished tasks is not a scheduling decision
        bad = []
        # (a) path facts
        for k, v in e.st.facts.items():
            if not T.mentions(k, is_outcome):
                continue
            n += 1
            if masked_fact(k):
                continue
            if k[0] == 'comp' or (k[0] == 'call' and k[1] in ('any', 'all')):
                # the outcome is read through a filtered list (`failed = [t for t in done if raised(t)]`, then
                # `any(critical(t) for t in failed)`): whether the two tests together amount to the masked test is
                # not something this rule reads off one fact
                unread.append(T.show(k, 4))
                continue
            bad.append("path condition `%s` is %s" % (T.show(k, 4), v))
        # (b) data terms of the sink
        terms = []
        d = e.data
        if e.kind == 'SPAWN' and d.get('job') is not None:
            terms.append(('the set of jobs considered for starting', d['job']))
        if e.kind == 'WAIT':
            terms.append(('the argument of the main wait', d['arg']))
        if e.kind == 'AUG':
            terms.append(('the completion counter', d['val']))
        if e.kind == 'COUNTCMP':
            terms.append(('the completion test', d['term']))
        if e.kind == 'TIDY' and d.get('what') == 'jobs':
            terms.append(('the tasks tidied at the end', d['coll']))
        for what, t in terms:
            if T.mentions(t, is_outcome):
                n += 1
                bad.append("%s depends on a task outcome: %s" % (what, T.show(t, 5)))
        rep.check(not bad, rule, "%s %s independent of job outcomes" % (e.where, e.kind.lower()), fn,
                  "; ".join(bad)[:400],
                  "whether a non-critical job returned or raised changes what the scheduler does next "
                  "(which jobs start, when the run ends, or its verdict)", trace(e.st))
    if unread:
        rep.error(rule, "job outcomes are tested through a filtered list (%s): whether that is the masked test `raised "
                  "and critical` cannot be read off the path conditions one by one" % sorted(set(unread))[0][:160])
    # outcome reads that only select finished tasks for cancelling/gathering are effect-free
    for e in an.events('TIDY', 'AWAIT_ALL'):
        coll = e.data.get('coll')
        if coll is not None and T.mentions(coll, is_outcome):
            fin = an.finished_only(coll)
            n += 1
            rep.check(fin, rule, "%s outcome-selected tasks are finished ones" % e.where, fn,
                      "`%s` awaits/cancels tasks selected on their outcome that may still be running: %s"
                      % (src(e.node), T.show(coll, 4)),
                      "a job's outcome decides which running tasks get cancelled", trace(e.st))
    rep.need(rule, n, 2, "outcome reads reaching a sink or a tidy")
    rep.need(rule + ":sinks", len(sinks), 6, "sink events")


def feedback_cannot_raise(ctx, rep, rule):
    """R06.6: the diagnostic code the run calls (skipped by the path analysis because it is
    effect-free) must not be able to raise on a job's outcome: no first/last subscript of a
    sequence that may be empty, no explicit raise, in the functions reachable from it."""
    import ast
    from ..index import walk_local
    from ..effects import callees_by_name
    r = ctx.roles
    p = ctx.prog
    an, ip, out = ctx.run()
    roots = [p.funcs[q] for q in an.skipped if q in p.funcs]
    rep.need(rule, len(roots), 1, "effect-free helpers called by the run")
    seen = {}
    stack = list(roots)
    while stack:
        f = stack.pop()
        if f.qualname in seen:
            continue
        seen[f.qualname] = f
        for n in walk_local(f.node):
            if isinstance(n, ast.Call):
                for c in callees_by_name(p, f, n):
                    if c.cls is not None and (r.jobbase in c.cls.mro or c.cls is r.sched or r.sched in c.cls.mro) \
                            and not c.is_async and c.name.startswith(('repr', '_short', '_get', '_req', 'stats', '_stats',
                                                                      'text_label', 'graph_label', '_detect')):
                        stack.append(c)
        for g in f.nested.values():
            stack.append(g)
    n = 0
    for q, f in sorted(seen.items()):
        for node in walk_local(f.node):
            if isinstance(node, ast.Subscript) and isinstance(node.ctx, ast.Load):
                idx = node.slice
                c = idx.value if isinstance(idx, ast.Constant) else (
                    -idx.operand.value if isinstance(idx, ast.UnaryOp) and isinstance(idx.op, ast.USub)
                    and isinstance(idx.operand, ast.Constant) else None)
                if c in (0, -1):
                    n += 1
                    rep.fail(rule, "%s:%d subscript in diagnostic code" % (f.module.relpath, node.lineno), q,
                             "`%s` on the feedback path of the run" % src(node),
                             "a job whose outcome makes this sequence empty (e.g. an exception with an empty "
                             "message, with verbose=True) crashes the whole run with IndexError")
            if isinstance(node, ast.Raise) and node.exc is not None:
                n += 1
                rep.fail(rule, "%s:%d raise in diagnostic code" % (f.module.relpath, node.lineno), q,
                         "`%s` on the feedback path of the run" % src(node),
                         "reporting a job's outcome can abort the run")
    rep.ok(rule, "%d diagnostic functions reachable from the run's feedback: no raise, no unguarded first/last "
                 "subscript" % len(seen))


def diagnosis_reads_flags_only(ctx, rep, rule):
    """the diagnosis accessors (did the run time out? did a critical job fail? why?) are functions of what the run
    recorded about itself - never of what the jobs returned or raised: a non-critical job is free to raise anything,
    TimeoutError included"""
    import ast
    from ..index import walk_local
    r = ctx.roles
    n = 0
    for name in ('failed_time_out', 'failed_critical', 'why'):
        f = ctx.prog.supplier(r.sched, name)
        if f is None:
            rep.error(rule, "accessor %s not found" % name)
            continue
        seen, stack = {}, [f]
        while stack:
            g = stack.pop()
            if g.qualname in seen or len(seen) > 12:
                continue
            seen[g.qualname] = g
            for node in walk_local(g.node):
                if isinstance(node, ast.Attribute) and isinstance(node.value, ast.Name) and node.value.id == 'self':
                    m = ctx.prog.supplier(r.sched, node.attr)
                    if m is not None and not m.is_async:
                        stack.append(m)
        for g in seen.values():
            for node in walk_local(g.node):
                bad = None
                if isinstance(node, ast.Attribute) and node.attr in OUTCOME_ATTRS:
                    bad = node
                elif isinstance(node, ast.Call) and isinstance(node.func, ast.Attribute) and node.func.attr in OUTCOME_CALLS \
                        and not (isinstance(node.func.value, ast.Name) and node.func.value.id == 'self'):
                    bad = node
                if bad is not None:
                    rep.fail(rule, "%s:%d %s() looks at a job's outcome" % (g.module.relpath, bad.lineno, name),
                             g.qualname, "`%s`" % src(bad)[:100],
                             "what a non-critical job returned or raised changes the diagnosis of the run (and, in a "
                             "critical nested scheduler, the exception it raises)")
        n += 1
        rep.ok(rule, "%s(): %d function(s) read, none looks at a job's outcome" % (name, len(seen)))
    rep.need(rule, n, 3, "diagnosis accessors")
