"""
Rule families shared by several properties (DESIGN.md section 5).  Each function
records obligations in the Report under the rule ids given by the caller.
"""

import ast

from .. import terms as T
from ..flow import Analysis, Interp, St, truth
from ..index import AnalysisError, walk_local, dotted, enclosing_func
from ..runmodel import covers, is_wdone, is_wpend


def src(node, n=90):
    try:
        s = " ".join(ast.unparse(node).split())
    except Exception:                                   # noqa: BLE001
        s = type(node).__name__
    return s if len(s) <= n else s[:n - 1] + "…"


def stmt_of(node):
    n = node
    while n is not None and not isinstance(n, ast.stmt):
        n = getattr(n, '_parent', None)
    return n if n is not None else node


def trace(st):
    return list(st.trace)


def kind_name(kind):
    if kind[0] == 'Raise':
        return "raise %s" % (kind[1] or 'exception')
    return kind[0]


# ===================================================================== WRAP
def wrap_exits(ctx, rep, rule, what):
    """R03.1 / R06.2: every exit of the window wrapper leaves the slot free"""
    r = ctx.roles
    an, ip, out = ctx.wrap(gen_cancel=True, gen_bodyexc=True)
    fn = r.WRAP.qualname
    n = 0
    acq = an.events('ACQ')
    rep.need(rule + ":acquire", len(acq), 1, "slot acquisitions in the wrapper")
    for st, val, node in out.ret:
        n += 1
        rep.check(st.a('slot', 'Free') != 'Held', rule, "%s normal return" % ip.where(node),
                  fn, "exit[return] `%s` with the slot held" % src(node),
                  what + " (the wrapper returns while still holding its window slot)", trace(st))
    for st in out.nxt:
        n += 1
        rep.check(st.a('slot', 'Free') != 'Held', rule, "%s falls off the end" % fn,
                  fn, "exit[fall-off] with the slot held", what, trace(st))
    for st, kind, node in out.exc:
        n += 1
        if kind[0] == 'BodyExc' and st.a('slot', 'Free') == 'Held' and _critical_fact(ctx, st) is True:
            # a critical job failed: the scheduler aborts and discards this window, and keeping the
            # slot is what stops a queued job from starting in the meantime (R05.6)
            rep.ok(rule, "%s exit by the failure of a critical job (slot kept on purpose)" % ip.where(node))
            continue
        rep.check(st.a('slot', 'Free') != 'Held', rule,
                  "%s exit by %s" % (ip.where(node), kind_name(kind)),
                  fn, "exit[%s] out of `%s` with the slot held" % (kind[0], src(node)),
                  what + " (a job that %s leaves without giving its window slot back: with jobs_window=N, "
                  "N such jobs wedge the scheduler for good)"
                  % ("raises" if kind[0] == 'BodyExc' else "is cancelled" if kind[0] == 'Cancelled' else "fails"),
                  trace(st))
    rep.need(rule, n, 3, "exits of the wrapper")
    return an, ip, out


def _critical_fact(ctx, st):
    """what the path knows about `the wrapped job is critical`"""
    j = T.mk(('var', ctx.roles.wrap_jobvar))
    keys = (T.mk(('mcall', j, 'is_critical', (), ())), T.mk(('attr', j, 'critical')))
    for k in keys:
        if k in st.facts:
            return st.facts[k]
    c = st.a('crit')
    if c is not None and c[0] in keys:
        return c[1]
    return None


def no_handover_on_critical_failure(ctx, rep, rule):
    """R05.6: when the body of a *critical* job raises, its slot is not handed to a queued job
    before the scheduler has had a chance to abort"""
    r = ctx.roles
    an, ip, out = ctx.wrap(gen_cancel=True, gen_bodyexc=True)
    fn = r.WRAP.qualname
    n = 0
    for st, kind, node in out.exc:
        if kind[0] != 'BodyExc' or not st.a('acqs', 0):
            continue
        n += 1
        released = st.a('slot', 'Free') != 'Held'
        crit = _critical_fact(ctx, st)
        rep.check(not released or crit is False, rule,
                  "%s slot not released when a critical job fails" % ip.where(node), fn,
                  "exit[BodyExc] out of `%s` gives the slot back %s" % (
                      src(node), "whether or not the job is critical" if crit is None else "although the job is critical"),
                  "a job queued for the slot starts its body after a critical job has raised and before the "
                  "scheduler reacts: `boom`, `start q`, `cancel q`", trace(st))
    rep.need(rule, n, 1, "job-exception exits of the wrapper")


def _wpath(k):
    """'a' for self.a, 'a.b' for self.a.b (a state object kept in an attribute of the window), else None"""
    if T.is_attr(k) and k[1] == T.SELF:
        return k[2]
    if T.is_attr(k) and T.is_attr(k[1]) and k[1][1] == T.SELF:
        return k[1][2] + '.' + k[2]
    return None


def _wterm(path):
    t = T.SELF
    for a in path.split('.'):
        t = ('attr', t, a)
    return T.mk(t)


def window_gate(ctx, rep, rule, clause):
    """a job that obtains its window slot after the run is over does not start: between the last suspension and the
    start of the body the wrapper tests a flag of the window (the gate), and that flag is switched
    - clause 'critical': on the path where the body of a critical job raises (C05);
    - clause 'endofrun': when the last job that does not run forever completes - the window counts them (C09).
    The release of a slot wakes a queued job up before the scheduler itself resumes: only the wrapper can tell.
    The flag may be `closed` (false at the body, set to True) or `open` (true at the body, set to False); the count
    may go down to zero or up to the number expected."""
    from .runrules import count_term
    from ..graphmodel import GraphModel
    r = ctx.roles
    an, ip, out = ctx.wrap(gen_cancel=True, gen_bodyexc=True)
    fn = r.WRAP.qualname
    bodies = an.events('BODY')
    rep.need(rule, len(bodies), 1, "job-body awaits in the wrapper")
    gates = None                      # {(attribute, value it has when the body may start)}
    unbounded = {T.mk(('attr', T.SELF, a)) for a in ('jobs_window',)}
    for e in bodies:
        if any(e.st.facts.get(k) is False for k in unbounded):
            # no window at all: the queue is unbounded, nobody ever waits for a slot, the question does not arise
            continue
        g = {(_wpath(k), v) for k, v in e.st.facts.items() if v in (True, False) and _wpath(k) is not None
             and k not in unbounded}
        for k, v in e.st.facts.items():
            # `if self.jobs_window and self.closed:` not taken: no window at all, or the window is still open
            if v is False and k[0] == 'boolop' and k[1] == 'and' and all(_wpath(x) is not None for x in k[2]) \
                    and any(x in unbounded for x in k[2]):
                g |= {(_wpath(x), False) for x in k[2] if x not in unbounded}
        gates = g if gates is None else (gates & g)
    what = {"critical": "a critical job has failed", "endofrun": "the last job that does not run forever is over"}[clause]
    if not gates:
        e = bodies[0]
        rep.fail(rule, "%s the body starts only if the window is still open" % e.where, fn,
                 "`%s` is reached from the acquisition of the slot without a test of the window's state made after the "
                 "last suspension" % src(e.node),
                 "a job queued for a slot when %s is woken up by the next slot that is given back - before the "
                 "scheduler itself resumes and cancels it - and starts its body although the run is over" % what,
                 trace(e.st))
        return
    rep.ok(rule, "%s: body reached only with %s" % (fn, sorted("%s %s" % (a, v) for a, v in gates)))
    closing = {(a, not v) for a, v in gates}            # the stores that close the window
    gname = sorted(a for a, _v in gates)[0]

    def closes_it(wset):
        return bool(closing & (wset or frozenset()))
    if clause == 'critical':
        n = 0
        for st, kind, node in out.exc:
            if kind[0] != 'BodyExc' or _critical_fact(ctx, st) is not True:
                continue
            n += 1
            rep.check(closes_it(st.a('wset')), rule,
                      "%s the failure of a critical job closes the window" % ip.where(node), fn,
                      "exit[BodyExc] of a critical job without closing the window (`self.%s`)" % gname,
                      "a job queued for a slot starts after a critical job has raised, as soon as any other job "
                      "gives its slot back (it completes in the same instant, or a few loop iterations later)",
                      trace(st))
        rep.need(rule + ":critical", n, 1, "exits of the wrapper by the failure of a critical job")
        return
    # --- end of run: the window counts the jobs that are expected to complete
    jv = T.mk(('var', r.wrap_jobvar))
    FOREVER = T.mk(('attr', jv, 'forever'))

    def reached(e, K):
        """the path of event e knows that the count K has reached its end: (kind, other side)"""
        KA = _wterm(K)
        if e.st.facts.get(KA) is False:
            return ('zero', None)
        for k, v in e.st.facts.items():
            if k[0] != 'cmp':
                continue
            a, b = k[2], k[3]
            op = k[1]
            if b == KA and a != KA:
                a, b = b, a
                op = {'<': '>', '>': '<', '<=': '>=', '>=': '<='}.get(op, op)
            if a != KA:
                continue
            hit = (v is True and op in ('==', '<=', '>=')) or (v is False and op in ('!=', '>', '<'))
            if not hit:
                continue
            if b == ('const', 0):
                return ('zero', None)
            if _wpath(b) is not None:
                return ('target', _wpath(b))
        return None
    closes = []
    for e in an.events('WSTORE'):
        # `self.closed = self.closed or self.nb_finite == 0`: the closing value under the test, in one expression
        v = e.data['val']
        if v[0] == 'boolop' and len(v[2]) == 2 and any((e.data['attr'], pol) in closing for pol in (True, False)):
            pol = [pol for pol in (True, False) if (e.data['attr'], pol) in closing][0]
            flag = _wterm(e.data['attr'])
            others = [x for x in v[2] if x != flag]
            if len(others) == 1 and v[1] == ('or' if pol else 'and'):
                o_ = others[0]
                neg = False
                while o_[0] == 'unop' and o_[1] == 'not':
                    o_, neg = o_[2], not neg
                for K in e.data['wdec']:
                    KA = _wterm(K)
                    how = None
                    if o_ == KA and (neg == pol):
                        how = ('zero', None)            # `closed or not count` / `open and count`
                    elif o_[0] == 'cmp' and KA in (o_[2], o_[3]):
                        b = o_[3] if o_[2] == KA else o_[2]
                        eq = (o_[1] in ('==', '<=', '>=')) != neg
                        if eq == pol and b == ('const', 0):
                            how = ('zero', None)
                        elif eq == pol and _wpath(b) is not None:
                            how = ('target', _wpath(b))
                    if how is not None:
                        closes.append((e, K, how))
            continue
        if (e.data['attr'], e.data['val'][1] if e.data['val'] in (T.TRUE, T.FALSE) else None) in closing:
            for K in e.data['wdec']:
                how = reached(e, K)
                if how is not None:
                    closes.append((e, K, how))
    if not closes:
        rep.fail(rule, "%s the window closes with the last job that does not run forever" % fn, fn,
                 "no store that closes the window (`self.%s`) under `<count of the jobs still expected> == 0` (or "
                 "`<count of completions> == <number expected>`) after that count was updated" % gname,
                 "a forever job queued for a slot behind the last regular job is woken up when that job gives its slot "
                 "back, before the scheduler resumes: it starts after the run is over")
        return
    counters = {K for _e, K, _h in closes}
    targets = {h[1] for _e, _K, h in closes if h[0] == 'target'}
    cname = sorted(counters)[0]
    # a completion is counted when it has happened: not when the job gets its slot
    for e in an.events('WSTORE'):
        if e.data['attr'] in counters and (e.data['aug'] in ('Sub', 'Add') or (
                e.data['val'][0] == 'binop' and e.data['val'][1] in ('Sub', 'Add'))):
            rep.check(e.data['body_started'] or e.data['cancelled'], rule,
                      "%s the count moves when the job is over" % e.where, fn,
                      "`%s` before the body of the job has run" % src(stmt_of(e.node)),
                      "the window closes when the last regular job *starts*: a job that becomes eligible while it "
                      "still runs (a forever job behind a finished requirement) is parked although slots are free",
                      trace(e.st))
            up = e.data['aug'] == 'Add' or (e.data['val'][0] == 'binop' and e.data['val'][1] == 'Add')
            rep.check(up == bool(targets), rule, "%s the count moves towards its end" % e.where, fn,
                      "`%s` while the window closes when the count %s" % (
                          src(stmt_of(e.node)), "equals self.%s" % sorted(targets)[0] if targets else "is zero"),
                      "the count never reaches the value at which the window closes", trace(e.st))

    def forever_of(st):
        fv = st.facts.get(FOREVER)
        if fv is None and st.a('fvr') is not None:
            fv = st.a('fvr')[1]
        return fv
    for st, val, node in out.ret:
        fv = forever_of(st)
        dec = counters & (st.a('wdec') or frozenset())
        if fv is None:
            rep.check(not dec, rule, "%s the count tells forever jobs from the others" % ip.where(node), fn,
                      "`self.%s` updated on a path that does not look at `forever`" % cname,
                      "a forever job that ends is counted: the window closes while a regular job is still to run, and "
                      "that job never starts", trace(st))
            rep.check(bool(dec), rule, "%s a job that completes is counted" % ip.where(node), fn,
                      "normal return without an update of `self.%s`" % cname,
                      "the window never closes (a forever job queued behind the last regular job starts after the "
                      "run is over)", trace(st))
        elif fv is False:
            rep.check(bool(dec), rule, "%s a job that completes is counted" % ip.where(node), fn,
                      "normal return of a job that does not run forever without an update of `self.%s`" % cname,
                      "the window never closes (a forever job queued behind the last regular job starts after the "
                      "run is over)", trace(st))
        else:
            rep.check(not dec, rule, "%s a forever job that ends is not counted" % ip.where(node), fn,
                      "`self.%s` updated for a forever job" % cname,
                      "the window closes while a regular job is still to run: that job never starts", trace(st))
    for st, kind, node in out.exc:
        if kind[0] != 'BodyExc':
            continue
        fv = forever_of(st)
        dec = counters & (st.a('wdec') or frozenset())
        if fv is True:
            rep.check(not dec, rule, "%s a forever job that raises is not counted" % ip.where(node), fn,
                      "`self.%s` updated for a forever job" % cname,
                      "the window closes while a regular job is still to run: that job never starts", trace(st))
        elif _critical_fact(ctx, st) is not True:
            rep.check(bool(dec), rule, "%s a job that raises (and is tolerated) is counted" % ip.where(node), fn,
                      "exit[BodyExc] of a job that does not run forever without an update of `self.%s`" % cname,
                      "the window never closes when a regular job has failed", trace(st))
    # the count starts as the number of members that do not run forever (or: starts at zero, and the number expected
    # is that number)
    init = ctx.prog.supplier(r.window_cls, '__init__')
    okinit = False
    why = "no constructor"
    param = None
    counted = targets or counters       # the attribute(s) that must hold the number of jobs expected
    if init is not None:
        from ..flow import HEAP
        an2, ip2, out2 = ctx.explore(init, model=GraphModel)
        # what the constructor leaves in each attribute (path -> values), the fields of a state object it builds
        # and keeps in an attribute included
        initial = {}
        for e in an2.events('STORE'):
            if e.data['obj'] == T.SELF:
                initial.setdefault(e.data['attr'], set()).add(e.data['val'])
        for st in list(out2.nxt) + [x[0] for x in out2.ret]:
            for k, v in st.vars.items():
                if k[0] == HEAP:
                    objt, field = k[1]
                    for a, vals in list(initial.items()):
                        if '.' not in a and objt in vals:
                            initial.setdefault(a + '.' + field, set()).add(v)
        for a in counted:
            for v in initial.get(a, ()):
                for pn in init.params[1:]:
                    okc, why = count_term(v, lambda base, pn=pn: base == T.mk(('var', pn)),
                                          lambda el: T.mk(('attr', el, 'forever')))
                    if okc:
                        okinit, param = True, pn
                        break
        if targets:
            zero = [v for a in counters for v in initial.get(a, ())]
            okz = bool(zero) and all(v == ('const', 0) for v in zero)
            rep.check(okz, rule, "%s the count of completions starts at zero" % r.window_cls.name, init.qualname,
                      "self.%s initialised as %s" % (cname, [T.show(v, 3) for v in zero]),
                      "the window closes too early or never")
    rep.check(okinit, rule, "%s the number expected is the number of jobs that do not run forever" % r.window_cls.name,
              (init.qualname if init else r.window_cls.name), "self.%s is initialised otherwise (%s)"
              % (sorted(counted)[0], why), "the window closes too early (a regular job never starts) or never")
    if okinit:
        idx = init.params.index(param) - 1
        # (in the run itself, or in the private coroutine of the class that holds its loop)
        calls = [n for g in r.sched.methods.values() for n in walk_local(g.node)
                 if isinstance(n, ast.Call) and dotted(n.func) == r.window_cls.name]
        okarg = bool(calls)
        for c in calls:
            a = c.args[idx] if idx < len(c.args) else next((k.value for k in c.keywords if k.arg == param), None)
            okarg = okarg and a is not None and dotted(a) == 'self.jobs'
        rep.check(okarg, rule, "%s hands its members to the window" % r.RUN.qualname, r.RUN.qualname,
                  "`%s`" % (src(calls[0]) if calls else "no window"),
                  "the window counts something else than the jobs of this run")


def wrap_typestate(ctx, rep, rule):
    """R07.1: body only while holding a slot; running flag only while held;
    release only if held; no double acquire"""
    r = ctx.roles
    an, ip, out = ctx.wrap(gen_cancel=True, gen_bodyexc=True)
    fn = r.WRAP.qualname
    bodies = an.events('BODY')
    rep.need(rule + ":body", len(bodies), 1, "job-body awaits in the wrapper")
    for e in bodies:
        rep.check(e.data['slot'] == 'Held', rule, "%s body" % e.where, fn,
                  "job body `%s` awaited in slot state %s" % (src(e.node), e.data['slot']),
                  "a job body runs without holding a window slot: more than jobs_window bodies can run at once",
                  trace(e.st))
    for e in bodies:
        rep.check(not e.st.a('body_done') and not any(c.kind in ('for', 'while') for c in e.loops), rule,
                  "%s body awaited once per task" % e.where, fn,
                  "job body `%s` can be awaited again in the same task (loop or second await)" % src(e.node),
                  "a job's body is entered more than once in one run", trace(e.st))
    for st, val, node in out.ret:
        rep.check(bool(st.a('body_done')), rule, "%s the wrapper returns only after the job body" % ip.where(node), fn,
                  "`%s` reachable without `await <job>.co_run()`" % src(node),
                  "a task ends, and its job is counted as completed, although the body of the job was never "
                  "entered in this run", trace(st))
    for e in an.events('STORE'):
        if e.data['attr'] == r.running_attr and e.data['val'] == T.TRUE:
            rep.check(e.data['slot'] == 'Held', rule, "%s running flag" % e.where, fn,
                      "`%s` in slot state %s" % (src(stmt_of(e.node)), e.data['slot']),
                      "a job is reported running (and counted so) before it owns a window slot", trace(e.st))
    for e in an.events('REL'):
        rep.check(e.data['slot'] == 'Held', rule, "%s release" % e.where, fn,
                  "release `%s` in slot state %s" % (src(e.node), e.data['slot']),
                  "a slot is released on a path where this job never acquired one: another job's slot is "
                  "freed and the window is exceeded", trace(e.st))
    for e in an.events('ACQ'):
        rep.check(e.data['slot'] != 'Held', rule, "%s acquire" % e.where, fn,
                  "second acquire `%s` while holding a slot" % src(e.node),
                  "a job takes two slots", trace(e.st))
    return an


def wrap_acquire_real(ctx, rep, rule):
    """R07.2: the acquire is an awaited put on a queue bounded by the window size"""
    r = ctx.roles
    an, ip, out = ctx.wrap(gen_cancel=True, gen_bodyexc=True)
    fn = r.WRAP.qualname
    acq = an.events('ACQ')
    for e in acq:
        rep.check(e.data['awaited'], rule, "%s acquire awaited" % e.where, fn,
                  "acquire `%s` cannot wait" % src(e.node),
                  "the acquire does not block when the window is full", trace(e.st))
    # queue attribute and its construction
    qattrs = {e.data['queue'][2] for e in acq if e.data['queue'][0] == 'attr'}
    if len(qattrs) != 1:
        rep.error(rule, "cannot identify the queue attribute of the window (%s)" % qattrs)
        return
    qattr = qattrs.pop()
    init = ctx.prog.supplier(r.window_cls, '__init__')
    if init is None:
        rep.error(rule, "window class has no __init__")
        return
    if len(init.params) < 2:
        rep.error(rule, "window constructor takes no size parameter")
        return
    size_param = init.params[1]

    class Cap(Analysis):
        def __init__(self):
            self.stores = []

        def on_store_attr(self, ip2, node, obj, attr, val, st, fr, aug=None):
            if attr == qattr:
                self.stores.append((node, val, st))
            elif obj == T.SELF and aug is None:
                self.attrvals.setdefault(attr, []).append(val)
            return None
    # the size is replaced by "no limit" only because of what the size itself is (None, 0): never because of
    # something else the constructor knows (how many jobs there are, ...)
    def about_size_only(test):
        names = {n.id for n in ast.walk(test) if isinstance(n, ast.Name)}
        attrs = {n.attr for n in ast.walk(test) if isinstance(n, ast.Attribute)}
        calls = [n for n in ast.walk(test) if isinstance(n, ast.Call) and dotted(n.func) not in ('isinstance', 'int', 'bool')]
        return names <= {size_param, 'self', 'None', 'int', 'bool', 'isinstance'} and attrs <= {'jobs_window'} and not calls
    for n in walk_local(init.node):
        tests = []
        if isinstance(n, ast.Assign) and isinstance(n.value, ast.Constant) and any(
                (isinstance(t, ast.Name) and t.id == size_param) or (isinstance(t, ast.Attribute) and t.attr == 'jobs_window')
                for t in n.targets):
            par = getattr(n, '_parent', None)
            while par is not None and par is not init.node:
                if isinstance(par, (ast.If, ast.While)):
                    tests.append(par.test)
                par = getattr(par, '_parent', None)
        elif isinstance(n, ast.IfExp) and (isinstance(n.body, ast.Constant) or isinstance(n.orelse, ast.Constant)) \
                and any(isinstance(x, ast.Name) and x.id == size_param for x in ast.walk(n)):
            tests.append(n.test)
        for t in tests:
            rep.check(about_size_only(t), rule, "%s:%d the window is unbounded only when jobs_window says so"
                      % (init.module.relpath, n.lineno), init.qualname,
                      "`%s` under `%s`" % (src(n), src(t)),
                      "the limit is lifted under a condition that is not about jobs_window itself: more than "
                      "jobs_window bodies run at once (forever jobs, jobs of other kinds, are not in that count)")
    cap = Cap()
    cap.attrvals = {}
    ip2 = Interp(ctx.prog, cap)
    ip2.run(init)
    ctx.stats['functions_analysed'].add(init.qualname)
    rep.need(rule + ":queue", len(cap.stores), 1, "constructions of the window queue")
    P = T.mk(('var', size_param))
    bynode = {}
    for node, val, st in cap.stores:
        bynode.setdefault(id(node), (node, []))[1].append((val, st))
    for node, vals in bynode.values():
        site = "%s queue bound" % ip2.where(node)
        sizes = []
        ok = True
        why = ""
        for val, st in vals:
            if val[0] == 'call' and val[1].endswith('Queue'):
                kws = dict(val[3])
                m = kws.get('maxsize', val[2][0] if val[2] else None)
                if m is None:
                    ok = False
                    why = "queue has no maxsize: the window is unbounded whatever jobs_window says"
                elif m[0] == 'attr' and m[1] == T.SELF and m[2] in cap.attrvals:
                    # the bound is read back from an attribute the constructor has just set
                    sizes.extend(cap.attrvals[m[2]])
                else:
                    sizes.append(m)
            else:
                ok = False
                why = "queue constructed as %s" % T.show(val, 5)
        if ok:
            # over all paths: the bound is the size parameter itself, except on paths
            # where it was replaced by a non-positive constant (None/0 = unbounded)
            ok = any(_is_param(m, P) for m in sizes) and all(_size_ok(m, P) for m in sizes)
            why = "maxsize in {%s}" % ", ".join(sorted(T.show(m, 5) for m in set(sizes)))
        rep.check(ok, rule, site, init.qualname, "`%s` (%s)" % (src(stmt_of(node)), why),
                  "the queue bound is not the window size (None/0 mapped to unbounded): the number of "
                  "simultaneously running bodies is not jobs_window", trace(vals[0][1]), detail=why)


def _is_param(m, P):
    if m == P:
        return True
    if m[0] == 'boolop' and m[1] == 'or' and len(m[2]) == 2 and m[2][0] == P:
        return True
    if m[0] == 'ifexp':
        return _is_param(m[2], P) or _is_param(m[3], P)
    return False


def _size_ok(m, P):
    if m == P:
        return True
    if m[0] == 'const' and (m[1] is None or (isinstance(m[1], int) and not isinstance(m[1], bool) and m[1] <= 0)):
        return True
    if m[0] == 'boolop' and m[1] == 'or' and len(m[2]) == 2 and m[2][0] == P \
            and m[2][1][0] == 'const' and m[2][1][1] in (0, None):
        return True
    if m[0] == 'ifexp':
        return _size_ok(m[2], P) and _size_ok(m[3], P)
    return False


# ============================================================ who may start
def _sync_driver_param(ctx, f, call):
    """`call` is `self._h(...)` in the synchronous function `f`, where `_h` is a private synchronous helper that drives
    to completion what one of its parameters makes (`loop.run_until_complete(p())`): -> {parameter: argument node}"""
    if not (isinstance(call, ast.Call) and isinstance(call.func, ast.Attribute) and isinstance(call.func.value, ast.Name)
            and call.func.value.id == 'self' and f is not None and f.cls is not None and not f.is_async):
        return None
    h = ctx.prog.supplier(f.cls, call.func.attr)
    if h is None or h.is_async or not h.name.startswith('_'):
        return None
    drv = [c for c in walk_local(h.node) if isinstance(c, ast.Call) and isinstance(c.func, ast.Attribute)
           and c.func.attr == 'run_until_complete']
    if len(drv) != 1 or len(drv[0].args) != 1:
        return None
    a = drv[0].args[0]
    if not (isinstance(a, ast.Call) and isinstance(a.func, ast.Name) and a.func.id in h.params and not a.args):
        return None
    ps = list(h.params)[(0 if h.is_static else 1):]
    given = dict(zip(ps, call.args))
    given.update({k.arg: k.value for k in call.keywords if k.arg})
    return given.get(a.func.id)


def who_may_start(ctx, rep, rule):
    """R01.1 / R07.4: the only places a member's co_run is awaited or scheduled"""
    r = ctx.roles
    p = ctx.prog
    n = 0
    # the synchronous entry may hand `self.co_run` (or `lambda: self.co_run(...)`) to a private helper that drives it
    for f in p.all_functions():
        for call in walk_local(f.node):
            v = _sync_driver_param(ctx, f, call) if f.cls in (r.sched, r.jobbase) else None
            if isinstance(v, ast.Attribute) and v.attr == 'co_run' and isinstance(v.value, ast.Name) and v.value.id == 'self':
                n += 1
                rep.check(True, rule, "%s:%d co_run handed to the synchronous driver" % (f.module.relpath, call.lineno),
                          f.qualname, "", "", detail="documented synchronous top-level entry")
    mods = list(p.modules.values())
    extra = getattr(ctx, 'control_modules', [])
    for mod in mods:
        for node in ast.walk(mod.tree):
            if not (isinstance(node, ast.Call) and isinstance(node.func, ast.Attribute)
                    and node.func.attr == 'co_run'):
                continue
            n += 1
            f = enclosing_func(p, node)
            fq = f.qualname if f else mod.name
            where = "%s:%d" % (mod.relpath, node.lineno)
            par = getattr(node, '_parent', None)
            recv = node.func.value
            ok = False
            why = ""
            if f is r.WRAP_BODY and node is r.wrap_body_await and isinstance(par, ast.Await) \
                    and isinstance(recv, ast.Name) and (f is not r.WRAP or recv.id == r.wrap_jobvar) \
                    and (f is r.WRAP or only_used_by(ctx, f, {r.WRAP.qualname})):
                ok, why = True, "job body awaited inside the window wrapper"
            elif isinstance(recv, ast.Name) and recv.id in p.classes and r.sched in p.classes[recv.id].mro \
                    and isinstance(par, ast.Await) and f is not None and f.cls in r.nestable \
                    and (f.name == 'co_run' or (f.is_async and f.name.startswith('_') and only_used_by(
                        ctx, f, {g.qualname for c in r.nestable for g in [c.methods.get('co_run')] if g is not None}))) \
                    and node.args and isinstance(node.args[0], ast.Name) and node.args[0].id == 'self':
                # (in the nested run itself, or in a private coroutine only it awaits)
                ok, why = True, "nested form delegates to the inherited run, awaited"
            elif isinstance(recv, ast.Name) and recv.id == 'self' and isinstance(par, ast.Call) \
                    and isinstance(par.func, ast.Attribute) and par.func.attr == 'run_until_complete' \
                    and f is not None and not f.is_async and f.cls in (r.sched, r.jobbase):
                ok, why = True, "documented synchronous top-level entry"
            elif isinstance(recv, ast.Name) and recv.id == 'self' and isinstance(par, ast.Lambda) and par.body is node \
                    and not par.args.args and f is not None and f.cls in (r.sched, r.jobbase) \
                    and _sync_driver_param(ctx, f, getattr(par, '_parent', None)
                                           if not isinstance(getattr(par, '_parent', None), ast.keyword)
                                           else getattr(par._parent, '_parent', None)) is par:
                ok, why = True, "documented synchronous top-level entry, through its private driver"
            rep.check(ok, rule, "%s co_run call" % where, fq, "`%s`" % src(stmt_of(node)),
                      "a job body is started outside the guarded, windowed start path: it can run before its "
                      "requirements are done and outside the window", detail=why)
    rep.need(rule, n, 4, "co_run call sites")


# ========================================================== window scoping
def window_scope(ctx, rep, rule):
    """R07.3: one window per activation of the run, built from the scheduler's own size"""
    r = ctx.roles
    an, ip, out = ctx.run()
    fn = r.RUN.qualname
    spawns = [e for e in an.events('SPAWN') if e.data['tkind'] in ('run', 'bare')]
    rep.need(rule, len(spawns), 1, "job starts in the run")
    wins = set()
    for e in spawns:
        w = e.data['window']
        ok = w is not None and w[0] == 'new' and w[1] == r.window_cls.name
        rep.check(ok, rule, "%s start uses a window built by this activation" % e.where, fn,
                  "job started through window %s" % T.show(w, 4) if w is not None
                  else "job started without a window: `%s`" % src(stmt_of(e.node)),
                  "the window is not created by this activation of the run: nested or repeated runs share "
                  "slots, or the job is not windowed at all", trace(e.st))
        if ok:
            wins.add(w)
            init = ctx.prog.supplier(r.window_cls, '__init__')
            pname = init.params[1] if init is not None and len(init.params) > 1 else None
            size = w[2][0] if w[2] else dict(w[3]).get(pname)
            okk = size == T.mk(('attr', T.SELF, 'jobs_window'))
            rep.check(okk, rule, "%s window sized by own jobs_window" % e.where, fn,
                      "window built as %s" % T.show(w, 4),
                      "the window of a scheduler is not sized by that scheduler's own jobs_window",
                      trace(e.st))
    rep.check(len(wins) <= 1, rule, "%s single window" % fn, fn,
              "%d different windows used by the starts of one run" % len(wins),
              "jobs of one run are throttled by different windows: more than jobs_window run at once")
    for e in an.events('NEWWIN'):
        rep.check(not e.data['in_loop'], rule, "%s window built once" % e.where, fn,
                  "`%s` inside a loop" % src(stmt_of(e.node)),
                  "a new window per iteration: each batch of jobs gets fresh slots", trace(e.st))
    for e in an.events('STOREWIN'):
        rep.fail(rule, "%s window stored" % e.where, fn, "`%s`" % src(stmt_of(e.node)),
                 "the window outlives / is shared beyond one activation of the run", trace(e.st))


# ============================================================ nested form
def nested_awaits_run(ctx, rep, rule):
    """R01.4 / R10.2: the body of a nested scheduler is the awaited inherited run"""
    r = ctx.roles
    rep.need(rule, len(r.nestable), 1, "nestable scheduler classes")
    for cls in r.nestable:
        f = ctx.prog.supplier(cls, 'co_run')
        if f is r.RUN:
            rep.ok(rule, "%s inherits the run unchanged" % cls.name)
            continue
        an, ip, out = ctx.explore(f)
        dels = an.events('DELEGATE')
        rep.check(bool(dels), rule, "%s delegates to the inherited run" % f.qualname, f.qualname,
                  "no awaited call of %s in %s" % (r.RUN.qualname, f.qualname),
                  "the nested scheduler's body is not the scheduler run: its jobs are not orchestrated, or "
                  "are orchestrated in a detached task that the parent does not wait for")
        n = 0
        for st, val, node in out.ret:
            n += 1
            rep.check(st.a('delegated', False), rule, "%s return after the run" % ip.where(node), f.qualname,
                      "`%s` reachable before the inherited run was awaited" % src(node),
                      "the nested scheduler is reported finished before its own run is over: its successors "
                      "start too early", trace(st))
        for st, kind, node in out.exc:
            n += 1
            rep.check(st.a('delegated', False), rule, "%s raise after the run" % ip.where(node), f.qualname,
                      "`%s` reachable before the inherited run was awaited" % src(stmt_of(node)),
                      "the nested scheduler fails before its own run is over", trace(st))
        for st in out.nxt:
            n += 1
            rep.fail(rule, "%s falls off its end" % f.qualname, f.qualname, "end of function reached",
                     "the nested scheduler's verdict is lost", trace(st))
        for e in an.events('SPAWN'):
            if e.data['tkind'] in ('bare', 'run', 'other'):
                rep.fail(rule, "%s detached task" % e.where, f.qualname, "`%s`" % src(stmt_of(e.node)),
                         "the nested run is started in a task of its own instead of being awaited",
                         trace(e.st))
        rep.need(rule + ":exits", n, 2, "exits of the nested form")


# ======================================================= relation builder
def relation_builder(ctx, rep, rule):
    """R12.3 / R17.2: the builder resets succ(j) for every member and adds j to
    succ(r) for every member j and every r in j.required"""
    r = ctx.roles
    f = r.relation_builder
    an, ip, out = ctx.explore(f)
    A = r.reverse_attr
    M = T.mk(('attr', T.SELF, 'jobs'))
    resets = [e for e in an.events('STORE') if e.data['attr'] == A and e.data['aug'] is None]
    links = an.events('LINK')
    rep.check(bool(resets), rule, "%s resets the reverse links" % f.qualname, f.qualname,
              "no statement resets job.%s of the members before relinking" % A,
              "stale reverse links survive: jobs that no longer require a job are still listed (and started) after it")
    rep.check(bool(links), rule, "%s links successors" % f.qualname, f.qualname,
              "no statement adds a job to the reverse links of its requirements",
              "the reverse relation is empty: no successor is ever found")
    for e in resets:
        o = e.data['obj']
        ok = o[0] == 'elem' and o[1] == M and e.data['val'][0] == 'union' and not e.data['val'][1]
        lp = [c for c in e.loops if c.elem == o]
        ok = ok and lp and not lp[0].conds
        rep.check(bool(ok), rule, "%s every member's reverse links are reset" % e.where, f.qualname,
                  "`%s` (object %s)" % (src(stmt_of(e.node)), T.show(o, 3)),
                  "stale reverse links survive: jobs that no longer require a job are still started after it",
                  trace(e.st))
    for e in links:
        obj, val = e.data['obj'], e.data['val']
        ok = False
        why = "%s.%s.add(%s)" % (T.show(obj, 3), A, T.show(val, 3))
        if val[0] == 'elem' and val[1] == M and obj[0] == 'elem' and obj[1] == T.mk(('attr', val, 'required')) \
                and e.data['how'] == 'add':
            ok = not e.data['conds'] and not any(c.conds for c in e.loops)
        rep.check(ok, rule, "%s link orientation and totality" % e.where, f.qualname, why,
                  "the reverse relation is not `r.successors contains j for every member j and every r in "
                  "j.required`: successors are looked up in the wrong direction or partially", trace(e.st))
    # the rebuild is unconditional: the builder returns early only on the say-so of its caller (a parameter), never
    # because of something it remembers (a fingerprint of the previous graph: edits that keep it leave stale links)
    for st, val, node in out.ret:
        if st.a('built') or any(e.st is st for e in links):
            continue
        built = any(True for e in resets if e.where <= ip.where(node)) and False
        own = [k for k, v in st.facts.items() if T.mentions(k, lambda s_: T.is_attr(s_) and s_[1] == T.SELF)]
        params_only = all(T.mentions(k, lambda s_: s_[0] == 'var' and s_[1] in f.params) and not
                          T.mentions(k, lambda s_: T.is_attr(s_) and s_[1] == T.SELF) for k in st.facts) if st.facts else False
        if isinstance(node, ast.Return) and not st.a('linked') and not built:
            rep.check(params_only, rule, "%s the rebuild is skipped only when the caller asks so" % ip.where(node),
                      f.qualname, "`%s` before the links are rebuilt, under %s"
                      % (src(node), [(T.show(k, 3), v) for k, v in st.facts.items()][:3]),
                      "the reverse links are not rebuilt although the graph may have changed: successors(), "
                      "exit_jobs() and the run itself work on a stale relation", trace(st))
    for lp in {id(c.node): c for e in links + resets for c in e.loops}.values():
        from ..flow import _may_stop_early
        if lp.kind == 'for':
            rep.check(not _may_stop_early(lp.node), rule, "%s:%d builder loop runs to its end"
                      % (f.module.relpath, lp.node.lineno), f.qualname,
                      "loop `for %s in %s` can stop early" % (src(lp.node.target), src(lp.node.iter)),
                      "some reverse links are never built")


def slot_adjacency(ctx, rep, rule):
    """R12.5: in the wrapper nothing suspends while the slot is held, except the body"""
    r = ctx.roles
    an, ip, out = ctx.wrap(gen_cancel=True, gen_bodyexc=True)
    fn = r.WRAP.qualname
    n = 0
    for e in an.events('SUSPEND', 'AWAIT_ALL', 'WAIT', 'SHUT'):
        n += 1
        held = e.st.a('slot', 'Free') == 'Held'
        rep.check(not held, rule, "%s suspension outside the slot" % e.where, fn,
                  "`%s` suspends while the window slot is held" % src(e.node),
                  "a slot is held idle: an eligible job is kept waiting although fewer than jobs_window "
                  "bodies are running", trace(e.st))
    bodies = an.events('BODY')
    rep.need(rule, len(bodies), 1, "bodies in the wrapper")
    rep.ok(rule, "%s: %d other suspension points examined" % (fn, n))


def failure_read_when_it_happens(ctx, rep, rule):
    """what the wrapper does with the slot of a failing job (keep it, close the window) and what the run does about
    the failure (abort or go on) are one decision taken twice: both must ask the job when the failure happens.  A
    handler of the wrapper that uses a value sampled from the job when the task was created decides on old news"""
    r = ctx.roles
    w, fac, jv = r.WRAP, r.wrap_factory, r.wrap_jobvar
    fn = w.qualname
    if fac is None or fac is w or jv is None:
        rep.ok(rule, "%s: the wrapper has no enclosing factory to sample the job in" % fn)
        return
    sampled = {}
    for n in fac.node.body:
        if isinstance(n, ast.Assign) and len(n.targets) == 1 and isinstance(n.targets[0], ast.Name):
            if any(isinstance(m, (ast.Attribute, ast.Call)) and isinstance(getattr(m, 'func', m), ast.Attribute)
                   and isinstance(getattr(m, 'func', m).value, ast.Name) and getattr(m, 'func', m).value.id == jv
                   for m in ast.walk(n.value)):
                sampled[n.targets[0].id] = n
    bodies = [w] + ([r.WRAP_BODY] if getattr(r, 'WRAP_BODY', None) not in (None, w) else [])
    handlers = [h for b in bodies for n in walk_local(b.node) if isinstance(n, ast.Try) for h in n.handlers]
    if not handlers:
        # the failure of the job is dealt with somewhere else (a context manager, a helper object): what the closure
        # captured from the factory is then looked for wherever the wrapper reads it
        handlers = [b.node for b in bodies]
    local = {m.id for b in bodies for m in walk_local(b.node) if isinstance(m, ast.Name) and isinstance(m.ctx, ast.Store)}
    local |= {a for b in bodies if b is not w for a in b.params}
    n = 0
    for h in handlers:
        for m in ast.walk(h):
            if isinstance(m, ast.Name) and isinstance(m.ctx, ast.Load) and m.id in sampled and m.id not in local:
                n += 1
                rep.fail(rule, "%s:%d the handler asks the job now" % (w.module.relpath, m.lineno), fn,
                         "`%s` was sampled when the task was created (`%s`, line %d) and is used when the job fails"
                         % (m.id, src(sampled[m.id])[:70], sampled[m.id].lineno),
                         "a job whose criticality changed in between is critical for the window and not for the run (or "
                         "the reverse): the window closes while the run goes on, every job started afterwards parks "
                         "for ever")
    rep.ok(rule, "%s: %d handler(s), %d stale read(s)" % (fn, len(handlers), n))


def no_suspension_after_body(ctx, rep, rule):
    """once the body has finished the wrapper reaches its end without letting the loop run: the job is reported done
    at the first quiescent point after its body ended (giving the slot back does not suspend: trusted fact T4)"""
    r = ctx.roles
    an, ip, out = ctx.wrap(gen_cancel=True, gen_bodyexc=True)
    fn = r.WRAP.qualname
    n = 0
    for e in an.events('SUSPEND', 'AWAIT_ALL', 'WAIT', 'SHUT', 'PARK', 'ACQ'):
        if not e.st.a('body_started', False):
            continue
        if e.kind == 'ACQ' and not e.data.get('awaited'):
            continue
        n += 1
        rep.fail(rule, "%s the wrapper ends as soon as the body has" % e.where, fn,
                 "`%s` suspends after the body of the job has finished (or raised)" % src(e.node),
                 "for as long as this lasts the body is over while is_done() is still False; a cancellation that "
                 "lands there turns a job that completed into a cancelled one", trace(e.st))
    bodies = an.events('BODY')
    rep.need(rule, len(bodies), 1, "bodies in the wrapper")
    rep.ok(rule, "%s: no suspension point after the body (%d found)" % (fn, n))


# ================================================================ generic lints
JOB_SOURCES_ATTR = ('jobs', 'required')
JOB_SOURCES_CALL = ('entry_jobs', 'exit_jobs', 'topological_order', 'iterate_jobs', 'successors', 'predecessors',
                    'successors_downstream', 'predecessors_upstream')


def _yields_jobs(ctx, e):
    """is `e` an iterable of job objects? (member set, requirements, reverse links, job queries)"""
    if isinstance(e, ast.Attribute) and (e.attr in JOB_SOURCES_ATTR or e.attr == ctx.roles.reverse_attr):
        return True
    if isinstance(e, ast.Call) and isinstance(e.func, ast.Attribute) and e.func.attr in JOB_SOURCES_CALL:
        return True
    if isinstance(e, ast.Call) and isinstance(e.func, ast.Name) and e.func.id in ('list', 'set', 'sorted', 'tuple') \
            and e.args:
        return _yields_jobs(ctx, e.args[0])
    return False


def job_truthiness(ctx, rep, rule, funcs):
    """a job object must never be used as a boolean: the nestable class inherits __len__ from the
    scheduler side, so a nested scheduler is falsy exactly while it is empty"""
    r = ctx.roles
    has_len = any('__len__' in c.methods for n in r.nestable for c in n.mro)
    n = 0
    for f in funcs:
        if f is None:
            continue
        jobvars = {}
        for node in walk_local(f.node):
            if isinstance(node, (ast.For, ast.comprehension)) and isinstance(node.target, ast.Name) \
                    and _yields_jobs(ctx, node.iter):
                jobvars[node.target.id] = node.iter
        # the result of a search over jobs: x = next((j for j in <jobs> if ...), None)
        for node in walk_local(f.node):
            if isinstance(node, ast.Assign) and len(node.targets) == 1 and isinstance(node.targets[0], ast.Name) \
                    and isinstance(node.value, ast.Call) and isinstance(node.value.func, ast.Name) \
                    and node.value.func.id == 'next' and node.value.args \
                    and isinstance(node.value.args[0], ast.GeneratorExp):
                ge = node.value.args[0]
                g0 = ge.generators[0]
                if isinstance(ge.elt, ast.Name) and isinstance(g0.target, ast.Name) and ge.elt.id == g0.target.id \
                        and _yields_jobs(ctx, g0.iter):
                    jobvars[node.targets[0].id] = g0.iter
        # requirement-like parameters iterated directly (requires(*requirements))
        for node in walk_local(f.node):
            if isinstance(node, ast.For) and isinstance(node.target, ast.Name) and isinstance(node.iter, ast.Name) \
                    and node.iter.id in ('requirements', 'requirement', 'jobs', 'sequences_or_jobs', 'starts', 'ends'):
                jobvars[node.target.id] = node.iter

        def boolean_uses():
            for node in walk_local(f.node):
                if isinstance(node, (ast.If, ast.While, ast.IfExp)):
                    yield node.test
                elif isinstance(node, ast.BoolOp):
                    for v in node.values:
                        yield v
                elif isinstance(node, ast.UnaryOp) and isinstance(node.op, ast.Not):
                    yield node.operand
                elif isinstance(node, ast.comprehension):
                    for c in node.ifs:
                        yield c
                elif isinstance(node, ast.Call) and isinstance(node.func, ast.Name) and node.func.id in ('any', 'all') \
                        and node.args:
                    a = node.args[0]
                    if _yields_jobs(ctx, a):
                        yield a
                    if isinstance(a, (ast.GeneratorExp, ast.ListComp, ast.SetComp)):
                        yield a.elt
        for t in boolean_uses():
            while isinstance(t, ast.UnaryOp) and isinstance(t.op, ast.Not):
                t = t.operand
            bad = None
            if isinstance(t, ast.Name) and t.id in jobvars:
                bad = "`%s` (an element of `%s`)" % (t.id, src(jobvars[t.id]))
            elif _yields_jobs(ctx, t) and isinstance(getattr(t, '_parent', None), ast.Call):
                bad = "`%s(%s)`" % (getattr(t._parent.func, 'id', '?'), src(t))
            if bad:
                n += 1
                rep.check(not has_len, rule, "%s:%d job used as a boolean" % (f.module.relpath, t.lineno), f.qualname,
                          "%s is tested for truthiness" % bad,
                          "a nested scheduler is falsy while it is empty (it inherits __len__): an empty nested "
                          "scheduler is skipped / treated as absent here")
    rep.ok(rule, "no job object is used as a boolean in %d functions" % len([f for f in funcs if f]))


MUTABLE_CALLS = ('set', 'list', 'dict', 'BestSet', 'defaultdict', 'OrderedDict', 'deque')


def no_state_across_calls(ctx, rep, rule, funcs):
    """the answer of a query/transformation depends on the current graph only: no mutable default
    argument (state shared by every call), no module-level cache written by the function"""
    n = 0
    for f in funcs:
        if f is None:
            continue
        a = f.node.args
        for d in list(a.defaults) + [x for x in a.kw_defaults if x is not None]:
            mutable = isinstance(d, (ast.List, ast.Dict, ast.Set)) or (
                isinstance(d, ast.Call) and isinstance(d.func, ast.Name) and (
                    d.func.id in MUTABLE_CALLS or d.func.id in ctx.prog.classes))     # an object of the package
            n += 1
            rep.check(not mutable, rule, "%s:%d default argument" % (f.module.relpath, d.lineno), f.qualname,
                      "mutable default argument `%s` in %s" % (src(d), f.qualname),
                      "the default object is shared by every call: what one call records (e.g. 'already visited') "
                      "silently changes the result of the next one")
        for node in walk_local(f.node):
            if isinstance(node, ast.Global):
                rep.fail(rule, "%s:%d global state" % (f.module.relpath, node.lineno), f.qualname,
                         "`%s`" % src(node), "the result depends on what previous calls stored in a global")
    rep.ok(rule, "%d functions: no mutable default, no global" % len([f for f in funcs if f]))


# ======================================================= synchronous wrappers
def sync_wrapper(ctx, rep, rule, name):
    """the synchronous entry point `name()` is transparent: every return is the value of driving the
    coroutine `co_<name>()` of the same object to completion, once, and nothing it raises is caught"""
    from ..graphmodel import GraphModel
    r = ctx.roles
    f = ctx.prog.supplier(r.sched, name)
    co = 'co_' + name
    if f is None or f.is_async:
        rep.error(rule, "synchronous wrapper %s not found" % name)
        return
    fn = f.qualname
    an, ip, out = ctx.explore(f, model=GraphModel)

    def driven(t):
        """the coroutine term driven to completion by t, or None"""
        if t[0] == 'mcall' and t[2] == 'run_until_complete' and len(t[3]) == 1:
            return t[3][0]
        if t[0] == 'call' and t[1] in ('asyncio.run',) and len(t[2]) == 1:
            return t[2][0]
        return None

    def is_own(x):
        if x is None:
            return False
        if x[0] == 'mcall' and x[1] == T.SELF and x[2] == co:
            return True
        if x[0] == 'coro' and x[1].endswith('.' + co) and dict(x[2]).get('self') == T.SELF:
            return True
        return False
    n = 0
    for st, val, node in out.ret:
        n += 1
        rep.check(is_own(driven(val)), rule, "%s returns what %s() returned" % (ip.where(node), co), fn,
                  "`%s` returns %s" % (src(node)[:80], T.show(val, 4)[:120]),
                  "the value of %s() is not the value of %s(): the verdict is altered or lost" % (name, co), trace(st))
    for st in out.nxt:
        n += 1
        rep.fail(rule, "%s falls off its end" % fn, fn, "end of function reached without returning the verdict",
                 "%s() returns None whatever happened" % name, trace(st))
    rep.need(rule, n, 1, "exits of %s" % fn)
    # the drive is not protected by a handler, and happens once
    # (in the wrapper itself, or in the private helper it hands the coroutine - or a way to make it - to)
    walked = [f] + [ctx.prog.funcs[q] for q in sorted(ip.inlined) if q in ctx.prog.funcs and ctx.prog.funcs[q] is not f
                    and ctx.prog.funcs[q].name.startswith('_') and not ctx.prog.funcs[q].is_async]
    owner = {}
    drives = []
    for g in walked:
        for c in walk_local(g.node):
            if isinstance(c, ast.Call) and ((isinstance(c.func, ast.Attribute) and c.func.attr == 'run_until_complete')
                                            or dotted(c.func) == 'asyncio.run'):
                drives.append(c)
                owner[id(c)] = g
    rep.check(len(drives) == 1, rule, "%s drives the coroutine once" % fn, fn,
              "%d calls of run_until_complete / asyncio.run" % len(drives),
              "the run is performed twice, or not at all")
    for c in drives:
        for t in [t_ for g_ in ([f] if owner[id(c)] is f else [f, owner[id(c)]]) for t_ in walk_local(g_.node)]:
            if isinstance(t, ast.Try) and t.handlers and any(
                    c is x or (owner[id(c)] is not f and isinstance(x, ast.Call) and isinstance(x.func, ast.Attribute)
                               and x.func.attr == owner[id(c)].name)
                    for b in t.body for x in ast.walk(b)):
                rep.fail(rule, "%s:%d the drive is not inside a handler" % (f.module.relpath, c.lineno), fn,
                         "`%s` runs under `try ... except %s`" % (src(c)[:60], ", ".join(
                             src(h.type) if h.type is not None else "<bare>" for h in t.handlers)),
                         "an exception of the run (e.g. a critical failure re-raised by a nested scheduler, a "
                         "cancellation) is swallowed or replaced by the synchronous wrapper")
        # the coroutine is not wrapped in another bound
        arg = c.args[0] if c.args else None
        def own_call(a):
            return isinstance(a, ast.Call) and isinstance(a.func, ast.Attribute) and a.func.attr == co \
                and isinstance(a.func.value, ast.Name) and a.func.value.id == 'self'
        direct = own_call(arg)
        g = owner[id(c)]
        if not direct and g is not f and isinstance(arg, ast.Call) and isinstance(arg.func, ast.Name) \
                and arg.func.id in g.params and not arg.args and not arg.keywords:
            # the helper is given a way to make the coroutine: the bound method itself, or `lambda: self.co_x(...)`
            ps = list(g.params)[(0 if g.is_static else 1):]
            for call in walk_local(f.node):
                if isinstance(call, ast.Call) and isinstance(call.func, ast.Attribute) and call.func.attr == g.name \
                        and isinstance(call.func.value, ast.Name) and call.func.value.id == 'self':
                    given = dict(zip(ps, call.args))
                    given.update({k.arg: k.value for k in call.keywords if k.arg})
                    v = given.get(arg.func.id)
                    if isinstance(v, ast.Attribute) and v.attr == co and isinstance(v.value, ast.Name) \
                            and v.value.id == 'self':
                        direct = True
                    elif isinstance(v, ast.Lambda) and not v.args.args and own_call(v.body):
                        direct = True
        rep.check(direct, rule, "%s:%d drives %s() itself" % (f.module.relpath, c.lineno, co), fn,
                  "`%s`" % src(c)[:100], "the coroutine is wrapped (another timeout, a shield, a task): the run no "
                  "longer behaves as %s()" % co)


# ======================================================= class-level mutable state
def no_shared_class_state(ctx, rep, rule, classes=None):
    """a mutable object bound at class level (list / dict / set literal or constructor) is shared by every
    instance: it must not be mutated through an instance, directly or through an alias (`d[k] = self.X;
    d[k].append(...)`). Copies (`list(self.X)`, `.copy()`, `sorted`, slicing `[:]`) are fresh objects."""
    p = ctx.prog
    classes = classes or list(p.classes.values())
    shared = {}
    for c in classes:
        for s in c.node.body:
            if isinstance(s, ast.AnnAssign) and s.value is not None and isinstance(s.target, ast.Name):
                # `name: list = []` declares (and shares) the object just the same
                s = ast.copy_location(ast.Assign(targets=[s.target], value=s.value), s)
            if isinstance(s, ast.Assign) and len(s.targets) == 1 and isinstance(s.targets[0], ast.Name):
                v = s.value
                if isinstance(v, (ast.List, ast.Dict, ast.Set, ast.ListComp, ast.DictComp, ast.SetComp)) or (
                        isinstance(v, ast.Call) and isinstance(v.func, ast.Name) and v.func.id in MUTABLE_CALLS):
                    shared.setdefault(s.targets[0].id, []).append((c, s))
    # a class-level container whose literal holds mutable values: a shallow copy of it (`dict(X)`, `X.copy()`,
    # `cls(X)`) is a fresh object, but the values inside are still the shared ones
    deep = {}
    for name, lst in shared.items():
        for c_, st_ in lst:
            v = st_.value
            vals = list(v.values) if isinstance(v, ast.Dict) else list(getattr(v, 'elts', []))
            if any(isinstance(x, (ast.List, ast.Dict, ast.Set)) or (
                    isinstance(x, ast.Call) and isinstance(x.func, ast.Name) and x.func.id in MUTABLE_CALLS) for x in vals):
                deep[name] = (c_, st_)
    # functions returning (a shallow copy of) such a container: `return cls(cls.BOX)`
    deep_makers = {}
    for f in p.all_functions():
        for n in walk_local(f.node):
            if isinstance(n, ast.Return) and n.value is not None:
                for x in ast.walk(n.value):
                    if isinstance(x, ast.Attribute) and x.attr in deep and isinstance(x.value, ast.Name) \
                            and x.value.id in ('self', 'cls') + tuple(p.classes):
                        deep_makers[f.name] = x.attr
    nsite = 0
    MUT = {'append', 'extend', 'insert', 'add', 'update', 'remove', 'discard', 'pop', 'clear', 'sort', 'reverse',
           'setdefault', 'popitem', 'difference_update', 'intersection_update', 'symmetric_difference_update'}
    for f in p.all_functions():
        if f.cls is None or not shared:
            continue

        def is_shared(e):
            return isinstance(e, ast.Attribute) and e.attr in shared and isinstance(e.value, ast.Name) and (
                e.value.id in ('self', 'cls') or e.value.id in p.classes)
        tainted = {}          # unparsed expression -> the class attribute it aliases
        inner = {}            # name of a local holding a shallow copy of a `deep` container -> attribute
        overridden = set()    # (local, key) given a fresh value since
        stmts = [n for n in walk_local(f.node) if isinstance(n, (ast.Assign, ast.AugAssign, ast.Expr))]
        stmts.sort(key=lambda n: (n.lineno, n.col_offset))
        for s in stmts:
            if isinstance(s, ast.Assign) and len(s.targets) == 1 and isinstance(s.targets[0], ast.Name) \
                    and isinstance(s.value, ast.Call):
                fnn = s.value.func.attr if isinstance(s.value.func, ast.Attribute) else getattr(s.value.func, 'id', None)
                if fnn in deep_makers and f.name != fnn:
                    inner[s.targets[0].id] = deep_makers[fnn]
                elif any(isinstance(x, ast.Attribute) and x.attr in deep and is_shared(x) for x in ast.walk(s.value)):
                    inner[s.targets[0].id] = [x.attr for x in ast.walk(s.value) if isinstance(x, ast.Attribute)
                                              and x.attr in deep][0]

            def alias_of(e):
                if is_shared(e):
                    return e.attr
                # a value read out of a shallow copy of a class-level container is the shared value
                if isinstance(e, ast.Subscript) and isinstance(e.value, ast.Name) and e.value.id in inner \
                        and isinstance(e.ctx, ast.Load) and (e.value.id, ast.unparse(e.slice)) not in overridden:
                    return inner[e.value.id]
                return tainted.get(ast.unparse(e))
            # mutations
            for c in ast.walk(s):
                hit = None
                if isinstance(c, ast.Call) and isinstance(c.func, ast.Attribute) and c.func.attr in MUT:
                    hit = alias_of(c.func.value)
                    what = c
                elif isinstance(c, ast.Subscript) and isinstance(c.ctx, (ast.Store, ast.Del)):
                    hit = alias_of(c.value)
                    what = c
                if hit:
                    nsite += 1
                    cls_, st_ = shared[hit][0]
                    rep.fail(rule, "%s:%d class-level mutable `%s` mutated" % (f.module.relpath, c.lineno, hit),
                             f.qualname, "`%s` mutates `%s.%s = %s`, an object shared by every instance"
                             % (src(what)[:80], cls_.name, hit, src(st_.value)[:40]),
                             "what one job (or one call) records leaks into every other job: e.g. a style added for "
                             "one job shows on all the jobs drawn after it")
            if isinstance(s, ast.AugAssign):
                a = alias_of(s.target)
                if a:
                    nsite += 1
                    cls_, st_ = shared[a][0]
                    rep.fail(rule, "%s:%d class-level mutable `%s` mutated" % (f.module.relpath, s.lineno, a),
                             f.qualname, "`%s` updates `%s.%s` in place" % (src(s)[:80], cls_.name, a),
                             "state shared by every instance changes")
            # propagation
            if isinstance(s, ast.Assign):
                a = alias_of(s.value)
                for t in s.targets:
                    key = ast.unparse(t)
                    if a:
                        tainted[key] = a
                    else:
                        tainted.pop(key, None)
                        if isinstance(t, ast.Subscript) and isinstance(t.value, ast.Name) and t.value.id in inner:
                            overridden.add((t.value.id, ast.unparse(t.slice)))
                        if isinstance(t, ast.Name):
                            if not (isinstance(s.value, ast.Call) and t.id in inner):
                                inner.pop(t.id, None)
    rep.ok(rule, "%d class-level mutable objects (%s); no mutation through an instance or an alias"
           % (len(shared), ", ".join(sorted(shared)) or "none"))


# ======================================================= an exception object is not a boolean
def _boolean_positions(fnode):
    for node in walk_local(fnode):
        if isinstance(node, (ast.If, ast.While, ast.IfExp)):
            yield node.test
        elif isinstance(node, ast.BoolOp):
            for v in node.values:
                yield v
        elif isinstance(node, ast.UnaryOp) and isinstance(node.op, ast.Not):
            yield node.operand
        elif isinstance(node, ast.comprehension):
            for c in node.ifs:
                yield c
        elif isinstance(node, ast.Assert):
            yield node.test


def exception_truthiness(ctx, rep, rule):
    """in the run, its nested form and the window wrapper, `did this job raise` is decided by comparing the
    exception value with None: the truth value of an exception object is whatever its class says
    (`__bool__`, `__len__`), so `if job.raised_exception():` reads a falsy exception as `did not raise`"""
    r = ctx.roles
    funcs = [r.RUN, r.WRAP]
    for cls in r.nestable:
        f = ctx.prog.supplier(cls, 'co_run')
        if f is not None and f not in funcs:
            funcs.append(f)
    # the private coroutines the run awaits on self (delegations, tidies)
    for f in list(funcs):
        if f is None:
            continue
        for n in walk_local(f.node):
            if isinstance(n, ast.Await) and isinstance(n.value, ast.Call) and isinstance(n.value.func, ast.Attribute) \
                    and isinstance(n.value.func.value, ast.Name) and n.value.func.value.id == 'self' and f.cls is not None:
                g = ctx.prog.supplier(f.cls, n.value.func.attr)
                if g is not None and g not in funcs and g.name.startswith('_'):
                    sig = ctx.sigs.get(g.qualname)
                    if sig is not None and (sig.suspends or sig.spawns or sig.cancels or sig.stores):
                        funcs.append(g)
    ACC = ('raised_exception', 'exception')

    def is_exc(e, names):
        if isinstance(e, ast.Call) and isinstance(e.func, ast.Attribute) and e.func.attr in ACC and not e.args:
            return True
        if isinstance(e, ast.Attribute) and e.attr == '_exception':
            return True
        if isinstance(e, ast.Name) and e.id in names:
            return True
        return False
    nsite = nfun = 0
    for f in funcs:
        if f is None:
            continue
        nfun += 1
        names = set()
        for n in walk_local(f.node):
            if isinstance(n, ast.Assign) and len(n.targets) == 1 and isinstance(n.targets[0], ast.Name) \
                    and is_exc(n.value, set()):
                names.add(n.targets[0].id)
        for t in _boolean_positions(f.node):
            while isinstance(t, ast.UnaryOp) and isinstance(t.op, ast.Not):
                t = t.operand
            if is_exc(t, names):
                nsite += 1
                rep.fail(rule, "%s:%d exception value compared with None" % (f.module.relpath, t.lineno), f.qualname,
                         "`%s` is used as a boolean" % src(t),
                         "a job that raises an exception object whose truth value is False is read as `did not "
                         "raise`: a critical failure goes unnoticed and the run reports success")
    rep.need(rule, nfun, 2, "functions of the run")
    rep.ok(rule, "%d functions of the run: no exception value used as a boolean" % nfun)


# ======================================================= who uses a function
def users_map(ctx):
    """qualname -> qualnames of the functions that call it or refer to it (`h = self._helper`), by name
    resolution over the class hierarchy; cached on the context"""
    m = getattr(ctx, '_users_map', None)
    if m is not None:
        return m
    from ..effects import callees_by_name
    p = ctx.prog
    m = {}
    for g in p.all_functions():
        for n in walk_local(g.node):
            if isinstance(n, ast.Call):
                for c in callees_by_name(p, g, n):
                    m.setdefault(c.qualname, set()).add(g.qualname)
            elif isinstance(n, ast.Attribute) and isinstance(n.ctx, ast.Load):
                fake = ast.Call(func=n, args=[], keywords=[])
                for c in callees_by_name(p, g, fake):
                    if c.name == n.attr:
                        m.setdefault(c.qualname, set()).add(g.qualname)
    ctx._users_map = m
    return m


def only_used_by(ctx, f, allowed, _seen=()):
    """f is one of `allowed` (qualnames), a closure of one, or a private helper all of whose users are"""
    if f.qualname in allowed:
        return True
    g = f.parent
    while g is not None:
        if g.qualname in allowed:
            return True
        g = g.parent
    if not f.name.startswith('_') or (f.name.startswith('__') and f.name.endswith('__')) or f.qualname in _seen:
        return False
    users = users_map(ctx).get(f.qualname, set())
    return bool(users) and all(u in ctx.prog.funcs and only_used_by(ctx, ctx.prog.funcs[u], allowed, _seen + (f.qualname,))
                               for u in users)


def topo_loops(ctx, f, depth=2, _seen=None, exclude=()):
    """the `for x in self.topological_order()` loops of f, or of the private methods it calls on self
    (helper extraction must not hide the iteration order from the rules)"""
    _seen = _seen if _seen is not None else set()
    if f is None or f.qualname in _seen:
        return []
    _seen.add(f.qualname)
    def is_topo(e):
        # (`list(...)` / `tuple(...)` keep the order of what they are given)
        while isinstance(e, ast.Call) and isinstance(e.func, ast.Name) and (
                (e.func.id in ('list', 'tuple', 'iter') and len(e.args) == 1 and not e.keywords)
                or (e.func.id == 'enumerate' and 1 <= len(e.args) <= 2)):
            e = e.args[0]
        return isinstance(e, ast.Call) and dotted(e.func) == 'self.topological_order'
    out = [n for n in walk_local(f.node) if isinstance(n, (ast.For, ast.comprehension)) and is_topo(n.iter)]
    if depth > 0 and f.cls is not None:
        for n in walk_local(f.node):
            if isinstance(n, ast.Call) and isinstance(n.func, ast.Attribute) and isinstance(n.func.value, ast.Name) \
                    and n.func.value.id == 'self' and n.func.attr.startswith('_'):
                g = ctx.prog.supplier(f.cls, n.func.attr)
                if g is not None and g.name not in exclude:
                    out += topo_loops(ctx, g, depth - 1, _seen, exclude)
    return out


# ======================================================= an iterable argument is run through once
MATERIALISERS = ('set', 'list', 'tuple', 'frozenset', 'sorted', 'BestSet', 'dict')


def params_consumed_once(ctx, rep, rule, funcs):
    """an argument that may be a one-shot iterator (a generator, `filter(...)`, `map(...)`) is run through at
    most once on every path, unless it was first materialised (`x = set(x)`): the second pass would find it
    empty. Consumption = iterating it (for / comprehension), `in`, `*x`, or handing it to a call."""
    n = 0
    for f in funcs:
        if f is None:
            continue
        params = [p for p in list(f.params)[(0 if f.is_static or f.cls is None else 1):] + list(f.kwonly)
                  if p != f.vararg and p != getattr(f, 'kwarg', None)]
        for pn in params:
            n += 1
            _MAT_CTX[0], _MAT_CTX[1] = ctx.prog, f
            worst = _consumption(f.node.body, pn, 0)
            rep.check(worst[0] < 2, rule, "%s: `%s` is run through at most once" % (f.qualname, pn), f.qualname,
                      "`%s` is consumed twice on a path (second time at line %s) without having been copied into "
                      "a collection first" % (pn, worst[1]),
                      "when the caller passes a generator, the second pass finds it empty: e.g. keep_only(j for j "
                      "in ...) keeps nothing")
    rep.need(rule, n, 1, "iterable-looking parameters")


def _uses(e, pn):
    """number of consumptions of the name pn in expression e (in evaluation order is not needed: counts)"""
    cnt = 0
    line = None
    for x in ast.walk(e):
        hit = False
        if isinstance(x, (ast.comprehension,)) and isinstance(x.iter, ast.Name) and x.iter.id == pn:
            hit = True
        elif isinstance(x, ast.Compare):
            for op, c in zip(x.ops, x.comparators):
                if isinstance(op, (ast.In, ast.NotIn)) and isinstance(c, ast.Name) and c.id == pn:
                    hit = True
        elif isinstance(x, ast.Call):
            fn = dotted(x.func) or ''
            last = fn.split('.')[-1]
            iterating = last in MATERIALISERS or last in ('sum', 'any', 'all', 'max', 'min', 'enumerate', 'zip',
                                                          'map', 'filter', 'join', 'extend', 'update', 'chain',
                                                          'intersection', 'union', 'difference', 'iter', 'next',
                                                          'intersection_update', 'difference_update')
            for a in x.args:
                if iterating and isinstance(a, ast.Name) and a.id == pn:
                    hit = True
                if isinstance(a, ast.Starred) and isinstance(a.value, ast.Name) and a.value.id == pn:
                    hit = True
        if hit:
            # a membership test / iteration inside a comprehension body happens once per element
            cnt += 1
            line = getattr(x, 'lineno', line) or line
    # uses inside the element / condition part of a comprehension repeat
    for x in ast.walk(e):
        if isinstance(x, (ast.ListComp, ast.SetComp, ast.GeneratorExp, ast.DictComp)):
            inner = [x.elt] if not isinstance(x, ast.DictComp) else [x.key, x.value]
            for g in x.generators:
                inner += g.ifs
            for part in inner:
                c2, l2 = _uses(part, pn)
                if c2:
                    cnt += 1          # at least twice in all
                    line = l2 or line
    return cnt, line


def _consumption(stmts, pn, start):
    """(max number of consumptions of the object bound to pn along a path through stmts, line of the last one,
    materialised?) - once `pn = set(pn)` has been executed, later uses are harmless"""
    state = start
    line = None
    for s in stmts:
        if isinstance(s, ast.If):
            c, l = _uses(s.test, pn)
            base = state + c
            a = _consumption(s.body, pn, base)
            b = _consumption(s.orelse, pn, base)
            worst = max(a[0], b[0])
            line = (a[1] if a[0] >= b[0] else b[1]) or l or line
            if worst >= 2:
                return (worst, line, False)
            if a[2] and b[2]:
                return (worst, line, True)
            # a branch that materialised leaves a harmless object: only the other branch's count goes on
            state = max(a[0] if not a[2] else base, b[0] if not b[2] else base)
            continue
        if isinstance(s, (ast.For, ast.AsyncFor, ast.While)):
            head = s.iter if not isinstance(s, ast.While) else s.test
            c, l = _uses(head, pn)
            if not isinstance(s, ast.While) and isinstance(s.iter, ast.Name) and s.iter.id == pn:
                c += 1
                l = s.lineno
            state += c
            line = l or line
            inner = _consumption(s.body, pn, 0)
            if inner[0] >= 1 and not inner[2]:
                state += 2          # consumed again at every iteration
                line = inner[1] or line
            if state >= 2:
                return (state, line, False)
            continue
        if isinstance(s, ast.Try):
            inner = _consumption(s.body + s.orelse + s.finalbody, pn, state)
            if inner[0] >= 2 or inner[2]:
                return inner
            state, line = inner[0], inner[1] or line
            continue
        if isinstance(s, (ast.With, ast.AsyncWith)):
            inner = _consumption(s.body, pn, state)
            if inner[0] >= 2 or inner[2]:
                return inner
            state, line = inner[0], inner[1] or line
            continue
        # simple statement: its expressions are evaluated first, a rebinding of pn comes last
        rebinds = isinstance(s, ast.Assign) and any(isinstance(t, ast.Name) and t.id == pn for t in s.targets)
        for e in [x for x in ast.iter_child_nodes(s) if isinstance(x, ast.expr)]:
            if rebinds and e is not s.value:
                continue
            c, l = _uses(e, pn)
            state += c
            line = l or line
        if state >= 2:
            return (state, line, False)
        if rebinds and _is_materialisation(s.value, pn):
            return (state, line, True)
    return (state, line, False)


_MAT_CTX = [None, None]      # (program, function being judged): set by params_consumed_once


def _is_materialisation(v, pn, depth=0):
    if isinstance(v, ast.Call) and isinstance(v.func, ast.Name) and v.func.id in MATERIALISERS:
        return True
    if isinstance(v, ast.Call) and _MAT_CTX[0] is not None and depth < 2 and isinstance(v.func, ast.Attribute):
        # x = self._as_set(x): a helper of the package every return of which is a fresh collection
        from ..effects import callees_by_name
        cs = callees_by_name(_MAT_CTX[0], _MAT_CTX[1], v)
        if cs and all(c.name.startswith('_') and not c.is_generator and not c.is_async and
                      [n for n in walk_local(c.node) if isinstance(n, ast.Return)] and
                      all(n.value is not None and _is_materialisation(n.value, None, depth + 1)
                          for n in walk_local(c.node) if isinstance(n, ast.Return)) for c in cs):
            return True
    if isinstance(v, ast.IfExp):
        return _is_materialisation(v.body, pn) or _is_materialisation(v.orelse, pn)
    if isinstance(v, (ast.List, ast.Set, ast.Tuple, ast.ListComp, ast.SetComp)):
        return True
    return False


def topo_consumed_opaquely(ctx, f, depth=2, _seen=None):
    """does f (or a private helper it calls on self) hand `self.topological_order()` to something else than a
    loop (reduce, map, sorted ...)? then the iteration order is used, in a way the rules cannot read"""
    _seen = _seen if _seen is not None else set()
    if f is None or f.qualname in _seen:
        return False
    _seen.add(f.qualname)
    for n in ast.walk(f.node):
        if isinstance(n, ast.Call) and dotted(n.func) == 'self.topological_order':
            par = getattr(n, '_parent', None)
            if isinstance(par, ast.Call):
                return True
    if depth > 0 and f.cls is not None:
        for n in walk_local(f.node):
            if isinstance(n, ast.Call) and isinstance(n.func, ast.Attribute) and isinstance(n.func.value, ast.Name) \
                    and n.func.value.id == 'self' and n.func.attr.startswith('_'):
                if topo_consumed_opaquely(ctx, ctx.prog.supplier(f.cls, n.func.attr), depth - 1, _seen):
                    return True
    return False


def topo_reordered(ctx, f):
    """calls in f that take `self.topological_order()` and give its items back in another order (sorted, reversed, a
    set): -> [call nodes]"""
    out = []
    for n in ast.walk(f.node):
        if isinstance(n, ast.Call) and dotted(n.func) == 'self.topological_order':
            par = getattr(n, '_parent', None)
            if isinstance(par, ast.Call) and n in par.args and \
                    (dotted(par.func) or '').split('.')[-1] in ('sorted', 'reversed', 'set', 'frozenset', 'BestSet',
                                                                'shuffle', 'sample', 'nsmallest', 'nlargest'):
                out.append(par)
    return out


# ======================================================= a job is never asked whether it is iterable
ABSTRACT_COLLECTIONS = {'Iterable', 'Iterator', 'Collection', 'Sized', 'Container', 'Reversible', 'Sequence'}


def job_iterability(ctx, rep, rule, funcs):
    """the nestable class is a collection of jobs (`__iter__`, `__len__` come from the scheduler side): code that sorts
    its arguments into "a job" and "a collection of jobs" must ask `is it a job` first - a test of iterability that is
    not preceded, in its if-chain, by a test for the job classes takes a nested scheduler apart"""
    from ..effects import callees_by_name
    r, p = ctx.roles, ctx.prog
    has_iter = any('__iter__' in c.methods for n in r.nestable for c in n.mro)
    todo = [f for f in funcs if f is not None]
    seen = []
    while todo:
        f = todo.pop()
        if f in seen:
            continue
        seen.append(f)
        for n in walk_local(f.node):
            if isinstance(n, ast.Call):
                for c in callees_by_name(p, f, n):
                    if c.name.startswith('_') and not c.name.startswith('__') and c.cls is not None and \
                            (r.sched in c.cls.mro or r.jobbase in c.cls.mro or (r.sequence and c.cls is r.sequence)):
                        todo.append(c)
    n_tests = 0
    job_classes = {c.name for c in p.classes.values() if r.jobbase in c.mro or r.sched in c.mro}

    def kinds(test):
        """names of the classes an isinstance test (or a conjunct of it) names"""
        out = set()
        for c in ast.walk(test):
            if isinstance(c, ast.Call) and dotted(c.func) == 'isinstance' and len(c.args) == 2:
                ks = c.args[1].elts if isinstance(c.args[1], ast.Tuple) else [c.args[1]]
                out |= {(dotted(k) or '').split('.')[-1] for k in ks}
            if isinstance(c, ast.Call) and dotted(c.func) == 'hasattr' and len(c.args) == 2 \
                    and isinstance(c.args[1], ast.Constant) and c.args[1].value in ('__iter__', '__len__', '__getitem__'):
                out.add('Iterable')
        return out
    for f in seen:
        for node in walk_local(f.node):
            if not isinstance(node, ast.If):
                continue
            ks = kinds(node.test)
            if not (ks & ABSTRACT_COLLECTIONS) or (ks & {'Sequence'} and r.sequence is not None and
                                                   not (ks & (ABSTRACT_COLLECTIONS - {'Sequence'}))):
                continue
            n_tests += 1
            # the tests that precede it in the same if / elif chain
            before = set()
            cur = node
            while True:
                par = getattr(cur, '_parent', None)
                if isinstance(par, ast.If) and par.orelse == [cur]:
                    before |= kinds(par.test)
                    cur = par
                else:
                    break
            # ... or earlier `if isinstance(x, Job): ...; continue / return / yield` statements of the same block
            par = getattr(cur, '_parent', None)
            body = getattr(par, 'body', None)
            if isinstance(body, list) and cur in body:
                for prev in body[:body.index(cur)]:
                    if isinstance(prev, ast.If) and prev.body and isinstance(prev.body[-1], (ast.Continue, ast.Return, ast.Raise)):
                        before |= kinds(prev.test)
            rep.check(not has_iter or bool(before & job_classes), rule,
                      "%s:%d a job is recognised as a job before anything is asked about iterability"
                      % (f.module.relpath, node.lineno), f.qualname,
                      "`if %s` with no earlier test for %s in the chain" % (src(node.test), sorted(job_classes)[:3]),
                      "a nested scheduler is iterable: it is taken for a collection and replaced by the jobs it contains "
                      "(queries about it come back empty, closures stop at it)")
    rep.ok(rule, "%d functions, %d tests of iterability" % (len(seen), n_tests))
