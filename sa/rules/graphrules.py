"""
Rules for the pure graph algorithms: topological order and cycle detection (C15),
queries and closures (C17), sanitize (C16), surgery (C18).
"""

import ast

from .. import terms as T
from ..graphmodel import GraphModel
from ..index import walk_local, dotted
from .common import src, stmt_of, trace
from .runrules import MEMBERS, mcall, strip_coll, conj_items, neg

LENM = T.mk(('call', 'len', (MEMBERS,), ()))


def _unmarked_forms(x, mark):
    """terms meaning `x is marked` == value"""
    a = T.mk(('attr', x, mark))
    return {
        (a, True): True, (a, False): False,
        (T.mk(('cmp', 'is', a, T.NONE)), True): False, (T.mk(('cmp', 'is', a, T.NONE)), False): True,
        (T.mk(('cmp', 'is not', a, T.NONE)), True): True, (T.mk(('cmp', 'is not', a, T.NONE)), False): False,
    }


def topo(ctx):
    f = ctx.prog.supplier(ctx.roles.sched, 'topological_order')
    if f is None:
        from ..index import AnalysisError
        raise AnalysisError("topological_order not found")
    return f, ctx.explore(f, model=GraphModel)


def order_sound(ctx, rep, r1, r2, r3):
    """R15.1 every yield guarded by all-requirements-marked; R15.2 exactly once
    (guarded by not-marked, marked on the same path); R15.3 nothing else in the guard"""
    r = ctx.roles
    mark = r.mark_attr
    f, (an, ip, out) = topo(ctx)
    fn = f.qualname
    if mark is None:
        rep.fail(r2, fn, fn, "no attribute is set to True next to the yield",
                 "jobs are never marked as visited: the scan yields them again on every pass")
        return
    # value-set of the mark attribute: {None, True}
    vals = set()
    for g in ctx.prog.all_functions():
        for n in walk_local(g.node):
            if isinstance(n, ast.Assign):
                for t in n.targets:
                    if isinstance(t, ast.Attribute) and t.attr == mark:
                        vals.add(ast.unparse(n.value))
    rep.check(vals <= {'None', 'True'}, r1, "value-set of the mark attribute", fn,
              "job.%s takes values %s" % (mark, sorted(vals)),
              "`is None` no longer means `not marked`: the scan mistakes marked for unmarked jobs")
    ys = an.events('YIELD')
    rep.need(r1, len(ys), 1, "yields of the ordering generator")
    stores = [e for e in an.events('STORE') if e.data['attr'] == mark and e.data['val'] == T.TRUE]
    for y in ys:
        j = y.data['val']
        site = "%s yield" % y.where
        # state in which the guard facts are still intact
        st = y.st
        if y.data['marked'] == j:
            cands = [s for s in stores if s.data['obj'] == j]
            if cands:
                st = cands[0].st
                for s in cands:
                    if all(s.st.facts.get(k) == v for k, v in y.st.facts.items() if k in s.st.facts):
                        st = s.st
        ok_member = j[0] == 'elem' and j[1] == MEMBERS
        rep.check(ok_member, r1, site + " yields a member", fn, "yield of %s" % T.show(j, 3),
                  "the ordering yields something that is not a member of the scheduler", trace(st))
        # R15.1
        req = T.mk(('attr', j, 'required'))
        found = None
        for k, v in st.facts.items():
            if v and k[0] == 'forall' and strip_coll(k[1]) == req:
                found = k
            if v and k[0] == 'call' and k[1] == 'all' and len(k[2]) == 1 and k[2][0][0] == 'comp' \
                    and strip_coll(k[2][0][3][0][1]) == req:
                found = k
        good = False
        why = "no universally quantified test of job.required on the path to the yield"
        if found is not None and found[0] == 'forall':
            elem = T.mk(('elem', found[1], found[2]))
            forms = _unmarked_forms(elem, mark)
            good = bool(found[3]) and all(any(forms.get((a, b)) is True for a, b in alt) for alt in found[3])
            why = "requirement scan keeps going when: %s" % [[(T.show(a, 3), b) for a, b in alt] for alt in found[3]]
        elif found is not None:
            c = found[2][0]
            elem = T.mk(('elem', c[3][0][1], c[3][0][0]))
            forms = {k[0]: v for k, v in _unmarked_forms(elem, mark).items() if k[1] is True}
            good = forms.get(c[2]) is True and not c[3][0][2]
            why = "all(%s ...)" % T.show(c[2], 3)
        rep.check(good, r1, site + " only after all its requirements were yielded", fn, why,
                  "a job is yielded (numbered, listed, drawn) before one of its requirements", trace(st))
        # R15.2
        forms = _unmarked_forms(j, mark)
        guard = [k for k, v in st.facts.items() if forms.get((k, v)) is False]
        rep.check(bool(guard), r2, site + " only for a job not yet marked", fn,
                  "yield reachable without testing that the job is unmarked",
                  "a job is yielded more than once", trace(st))
        # R15.3
        extras = []
        for k, v in st.facts.items():
            if not T.contains(k, j) or k == MEMBERS:
                continue
            if forms.get((k, v)) is not None:
                continue
            if k[0] in ('forall', 'exists') and strip_coll(k[1]) == req:
                continue
            if k[0] == 'call' and k[1] == 'all':
                continue
            if k == req:
                continue
            extras.append((k, v))
        rep.check(not extras, r3, site + " guard has no extra condition", fn,
                  "yield additionally requires %s" % [(T.show(k, 3), v) for k, v in extras],
                  "a job whose requirements are all marked is skipped by the pass that sees it", trace(st))
    for e in an.events('YIELD_UNMARKED'):
        rep.fail(r2, "%s yielded job not marked" % e.where, fn,
                 "an iteration yields %s without marking it" % T.show(e.data['val'], 3),
                 "the job is yielded again on the next pass (and the scan may never end)", trace(e.st))


def progress_or_raise(ctx, rep, rule):
    """R15.4 no silent stop, no spin; marks reset before the scan"""
    r = ctx.roles
    mark = r.mark_attr
    f, (an, ip, out) = topo(ctx)
    fn = f.qualname
    for e in an.events('SPIN'):
        rep.fail(rule, "%s pass without progress loops again" % e.where, fn,
                 "the outer loop can start a new pass although the previous one marked nothing",
                 "on a cyclic graph topological_order()/check_cycles() never returns", trace(e.st))
    rep.ok(rule, "%s: every new pass follows a pass that marked a job (or the scan raised/ended)" % fn)
    # marks reset before the first yield
    ys = an.events('YIELD')
    for y in ys:
        rep.check(y.st.a('reset'), rule, "%s marks reset before the scan" % y.where, fn,
                  "jobs yielded on a path where job.%s was not reset first" % mark,
                  "a second scan finds every job already marked: it yields nothing, and check_cycles() "
                  "of a sound graph is False from then on", trace(y.st))
    resets = [e for e in an.events('STORE') if e.data['attr'] == mark and e.data['val'] == T.NONE]
    for e in resets:
        o = e.data['obj']
        lp = [c for c in e.loops if c.elem == o]
        conds = [k for k, v in e.st.facts.items() if T.contains(k, o) and k != MEMBERS]
        ok = o[0] == 'elem' and o[1] == MEMBERS and lp and not lp[0].conds and not conds
        rep.check(bool(ok), rule, "%s every member's mark is reset" % e.where, e.fr.func.qualname,
                  "`%s` (object %s, conditions %s)" % (src(stmt_of(e.node)), T.show(o, 3), [T.show(c, 3) for c in conds]),
                  "some jobs keep a stale mark from a previous scan", trace(e.st))
    # normal exhaustion only when everybody was counted; counting goes with marking
    n = 0
    ends = list(out.nxt) + [x[0] for x in out.ret]

    def is_counter(t):
        return t[0] in ('pos', 'acc') or (t[0] == 'const' and isinstance(t[1], int) and not isinstance(t[1], bool))
    for st in ends + [e.st for e in an.events('RAISE')]:
        for k, v in st.facts.items():
            if k[0] == 'cmp' and k[1] in ('>=', '<=', '==', '!=', '<', '>'):
                a, b = k[2], k[3]
                cnt = lambda t: t[0] in ('pos', 'acc')
                if (cnt(a) and b != LENM) or (cnt(b) and a != LENM):
                    rep.fail(rule, "%s scan exit tests the count against the number of members" % fn, fn,
                             "the scan leaves its loop on `%s`" % T.show(k, 3),
                             "the scan stops before every member was yielded (or goes on after): an acyclic "
                             "graph is reported cyclic, or jobs are dropped", trace(st))
    for st in ends:
        n += 1
        good = False
        for k, v in st.facts.items():
            if k[0] == 'cmp' and LENM in (k[2], k[3]):
                op = k[1]
                other = k[3] if k[2] == LENM else k[2]
                if k[2] == LENM:
                    op = {'<=': '>=', '>=': '<=', '<': '>', '>': '<'}.get(op, op)
                if (op in ('>=', '==') and v) or (op in ('!=', '<') and not v):
                    good = True
        rep.check(good, rule, "%s normal end only when every member was yielded" % fn, fn,
                  "the generator can end normally on a path with facts %s" % [(T.show(k, 3), v) for k, v in st.facts.items()],
                  "on a cyclic graph the scan silently drops the jobs of the cycle instead of raising",
                  trace(st))
    rep.need(rule + ":exits", n, 1, "normal ends of the generator")
    raises = an.events('RAISE')
    rep.check(bool(raises), rule, "%s raises when it cannot go on" % fn, fn, "no raise statement is reachable",
              "a cyclic graph is never reported")
    for e in an.events('AUG'):
        if e.data['val'][0] in ('pos', 'acc'):
            rep.check(e.data['marked'] is not None, rule, "%s counter goes with marking" % e.where, fn,
                      "`%s` on a path where no job was marked in this step" % src(stmt_of(e.node)),
                      "the count of yielded jobs runs ahead: the scan stops before all jobs were yielded",
                      trace(e.st))


def check_cycles_rules(ctx, rep, rule):
    """R15.5 both forms of check_cycles; consumers iterate in the generator's order"""
    r = ctx.roles
    p = ctx.prog
    forms = []
    for cls in [r.sched] + r.nestable:
        f = p.supplier(cls, 'check_cycles')
        if f is not None and f not in forms:
            forms.append(f)
    rep.need(rule, len(forms), 1, "check_cycles implementations")
    for f in forms:
        an, ip, out = ctx.explore(f, model=GraphModel)
        fn = f.qualname
        rets = an.events('RET')
        rep.need(rule + ":" + fn, len(rets), 2, "returns")
        for e in rets:
            v = e.data['val']
            if v == T.TRUE:
                inloop = e.data['in_loop'] or any(val and k[0] == 'exists' and k[1][0] in ('gen', 'call')
                                                  for k, val in e.st.facts.items())
                rep.check(not inloop, rule, "%s True only after the scan is exhausted" % e.where, fn,
                          "`return True` inside the scan loop", "a cyclic graph is declared sound after its "
                          "first job was scanned", trace(e.st))
                caught = any(c[1] for c in [(x, True) for x in e.st.trace if 'caught' in str(x[1])])
                rep.check(not caught, rule, "%s True never after an exception" % e.where, fn,
                          "`return True` on a path that caught the scan's exception",
                          "a cyclic graph is declared sound", trace(e.st))
            elif v == T.FALSE:
                rep.ok(rule, "%s return False" % e.where)
            else:
                rep.fail(rule, "%s returns a boolean" % e.where, fn, "`%s`" % src(stmt_of(e.node)),
                         "check_cycles() must return True or False", trace(e.st))
        for st, kind, node in out.exc:
            rep.fail(rule, "%s exception escapes" % ip.where(node), fn,
                     "the exception raised by the scan escapes check_cycles()",
                     "check_cycles() raises on a cyclic graph instead of returning False", trace(st))
        caught = an.events('CAUGHT')
        rep.check(bool(caught), rule, "%s handles the scan's exception" % fn, fn,
                  "no handler catches the exception raised by the ordering generator",
                  "check_cycles() raises on a cyclic graph instead of returning False")
        loops_over_topo = [n for n in walk_local(f.node) if isinstance(n, ast.For)
                           and isinstance(n.iter, ast.Call) and dotted(n.iter.func) == 'self.topological_order']
        rep.check(bool(loops_over_topo), rule, "%s scans with topological_order()" % fn, fn,
                  "no loop over self.topological_order()", "cycles are not looked for at all")
        if f.cls in r.nestable or (f.cls is not r.sched):
            # the recursive form: every nested member's own verdict is consulted
            def flat(st):
                """path facts, with the alternatives of folded search loops opened up"""
                out_ = []
                for k, v in st.facts.items():
                    if v and k[0] == 'exists':
                        for alt in k[3]:
                            out_.append(dict(alt))
                if not out_:
                    out_.append(dict(st.facts))
                return out_
            rec = []
            for e in rets:
                if e.data['val'] != T.FALSE:
                    continue
                for d in flat(e.st):
                    if any(k[0] == 'mcall' and k[2] == 'check_cycles' and v is False for k, v in d.items()):
                        rec.append((e, d))
            rep.check(bool(rec), rule, "%s recursion into nested schedulers" % fn, fn,
                      "no `return False` under `not <member>.check_cycles()` inside the scan",
                      "a cycle inside a nested scheduler is not detected")
            # completeness: True is returned only if every member either is not a nested
            # scheduler or passed its own check
            for e in rets:
                if e.data['val'] != T.TRUE:
                    continue
                fa = [k for k, v in e.st.facts.items() if v and k[0] == 'forall' and k[1][0] == 'gen']
                if not fa:
                    continue
                for k in fa:
                    good = bool(k[3]) and all(
                        any((a[0] == 'call' and a[1] == 'isinstance' and b is False) or
                            (a[0] == 'mcall' and a[2] == 'check_cycles' and b is True) for a, b in alt)
                        for alt in k[3])
                    rep.check(good, rule, "%s True only if every nested member passed" % e.where, fn,
                              "the scan goes on when: %s" % [[(T.show(a, 3), b) for a, b in alt] for alt in k[3]],
                              "a nested scheduler with a cycle does not make check_cycles() False", trace(e.st))
            for e, d in rec:
                tested = [k for k, v in d.items()
                          if k[0] == 'call' and k[1] == 'isinstance' and v]
                okc = False
                for k in tested:
                    c = k[2][1]
                    if c[0] == 'class' and c[1] in p.classes and r.sched in p.classes[c[1]].mro:
                        okc = True
                rep.check(okc or not tested, rule, "%s recursion covers every nested scheduler" % e.where, fn,
                          "recursion restricted by %s" % [T.show(k, 3) for k in tested],
                          "some nested schedulers are not checked", trace(e.st))
    # consumers use the generator's order
    for name in ('list', '_set_sched_ids', '_dot_body'):
        f = p.supplier(r.sched, name)
        if f is None:
            continue
        uses = [n for n in walk_local(f.node) if isinstance(n, ast.For) and isinstance(n.iter, ast.Call)
                and dotted(n.iter.func) == 'self.topological_order']
        rep.check(bool(uses), rule, "%s iterates in topological order" % f.qualname, f.qualname,
                  "%s does not loop over self.topological_order()" % f.qualname,
                  "jobs are numbered / listed / drawn in an order that is not a linear extension")


# ==================================================================== C16
class SanitizeModel(GraphModel):
    """GraphModel + fold table of the member loop of sanitize (appendix B of DESIGN.md)"""

    def __init__(self, *a, **k):
        GraphModel.__init__(self, *a, **k)
        self.tables = []

    def on_branch(self, ip, node, term, val, st, fr):
        if term[0] == 'call' and term[1] == 'isinstance' and val and not ip.in_summary:
            st = st.set(nested_iter=True)
        return st

    def on_call(self, ip, node, fterm, args, kws, st, fr):
        if fterm[0] == 'attr' and fterm[2] == 'sanitize' and fterm[1][0] == 'elem':
            self.ev(ip, 'CALL', node, st, fr, recv=fterm[1], meth='sanitize', args=args, kws=kws, depth=fr.depth)
            return [(st.set(rec_called=True), T.mk(('mcall', fterm[1], 'sanitize', (), ())))]
        return GraphModel.on_call(self, ip, node, fterm, args, kws, st, fr)

    def on_iter(self, ip, ctx, st, fr):
        if ctx.kind == 'for' and ctx.iter == MEMBERS and not ip.in_summary and fr.depth == 0:
            if st.a('nested_iter') and not st.a('rec_called'):
                self.ev(ip, 'REC_SKIPPED', ctx.node, st, fr)
            st = st.set(nested_iter=False, rec_called=False)
        return GraphModel.on_iter(self, ip, ctx, st, fr)

    def on_loop_exit(self, ip, ctx, st, fr):
        if ctx.kind == 'for' and ctx.iter == MEMBERS and not ip.in_summary and fr.depth == 0:
            if st.a('nested_iter') and not st.a('rec_called'):
                self.ev(ip, 'REC_SKIPPED', ctx.node, st, fr)
            st = st.set(nested_iter=False, rec_called=False)
        return GraphModel.on_loop_exit(self, ip, ctx, st, fr)

    def on_loop(self, ip, node, it, st, fr):
        if it != MEMBERS or fr.depth != 0 or ip.in_summary:
            return None
        from ..flow import LoopCtx, Out, truth
        assigned = {n.id for n in ast.walk(node) if isinstance(n, ast.Name) and isinstance(n.ctx, ast.Store)}
        flags = [n for n in assigned if T.is_const(st.var(fr.fid, n, ('unk',))) and
                 isinstance(st.var(fr.fid, n)[1], bool)]
        key = ip.loop_key(node, fr)
        elem = T.mk(('elem', it, key))
        for f in flags:
            rows = []
            for fin in (False, True):
                b = st.with_var(fr.fid, f, ('const', fin))
                sc = Out()
                bs = ip.assign(node.target, elem, b, fr, sc, node)
                ctx = LoopCtx('for', node, it, elem, key, node.target)
                ip.loopctx.append(ctx)
                ip.in_summary += 1
                try:
                    r = ip.exec_block(node.body, bs, fr)
                finally:
                    ip.in_summary -= 1
                    ip.loopctx.pop()
                for x in r.nxt + r.cont:
                    new = {k: v for k, v in x.facts.items() if st.facts.get(k) != v}
                    ft = x.var(fr.fid, f)
                    rows.append((fin, new, ft, x))
                if r.brk or r.ret or r.exc:
                    rows.append((fin, None, None, None))
            self.tables.append((f, st.var(fr.fid, f)[1], rows, node))
        return None


def _eval_bool(e, env):
    if isinstance(e, ast.Constant):
        return bool(e.value)
    if isinstance(e, ast.Name) and e.id in env:
        return env[e.id]
    if isinstance(e, ast.UnaryOp) and isinstance(e.op, ast.Not):
        return not _eval_bool(e.operand, env)
    if isinstance(e, ast.BoolOp):
        vals = [_eval_bool(v, env) for v in e.values]
        return all(vals) if isinstance(e.op, ast.And) else any(vals)
    raise ValueError("not a boolean expression of the flag")


def sanitize_rules(ctx, rep, r1, r2, r3, r4):
    r = ctx.roles
    f = ctx.prog.supplier(r.sched, 'sanitize')
    if f is None:
        rep.error(r1, "sanitize not found")
        return
    an, ip, out = ctx.explore(f, model=SanitizeModel)
    fn = f.qualname
    REQ = 'required'
    # R16.1 / R16.2 writers of `required`
    writes = [e for e in an.events('STORE') if e.data['attr'] == REQ] + \
             [e for e in an.events('MUT') if e.data['attr'] == REQ]
    rep.need(r1, len(writes), 1, "writers of `required` in sanitize")
    good_writes = 0
    for e in writes:
        o = e.data['obj']
        site = "%s requirements intersected with the member set" % e.where
        okobj = o[0] == 'elem' and o[1] == MEMBERS
        cur = T.mk(('attr', o, REQ))
        okval = False
        why = ""
        if e.kind == 'STORE':
            v = e.data['val']
            why = T.show(v, 4)
            if v[0] == 'binop' and v[1] == 'BitAnd' and {v[2], v[3]} == {cur, MEMBERS}:
                okval = True
            if v[0] == 'mcall' and v[1] == cur and v[2] == 'intersection' and v[3] == (MEMBERS,):
                okval = True
            if v[0] == 'comp' and len(v[3]) == 1 and strip_coll(v[3][0][1]) == cur:
                el = T.mk(('elem', v[3][0][1], v[3][0][0]))
                if v[2] == el and list(v[3][0][2]) == [T.mk(('cmp', 'in', el, MEMBERS))]:
                    okval = True
        else:
            why = ".%s(%s)" % (e.data['how'], ", ".join(T.show(a, 3) for a in e.data['args']))
            okval = e.data['how'] == 'intersection_update' and e.data['args'] == (MEMBERS,)
        lp = [c for c in e.loops if c.elem == o]
        conds = [k for k, v in e.st.facts.items() if T.contains(k, o) and k != MEMBERS]
        uncond = bool(lp) and not lp[0].conds and not conds
        rep.check(okobj and okval and uncond, r1 if (okobj and okval) else r2, site, fn,
                  "`%s` (value %s%s)" % (src(stmt_of(e.node)), why,
                                         "" if uncond else ", under conditions %s" % [T.show(c, 3) for c in conds]),
                  "after sanitize() a member still requires a job that is not a member of the same scheduler, "
                  "or an edge between two members was dropped", trace(e.st))
        if okobj and okval and uncond:
            good_writes += 1
    rep.check(good_writes > 0, r1, "%s closes every member's requirements" % fn, fn,
              "no statement replaces job.required by job.required & self.jobs for every member",
              "sanitize() does not close the requirement relation")
    # R16.3 recursion unconditional
    calls = [e for e in an.events('CALL') if e.data['meth'] == 'sanitize']
    rep.check(bool(calls), r3, "%s recurses into nested schedulers" % fn, fn,
              "no call of <member>.sanitize()", "nested schedulers are not sanitized")
    for e in calls:
        recv = e.data['recv']
        conds = [(k, v) for k, v in e.st.facts.items() if T.contains(k, recv) and k != MEMBERS
                 and not (k[0] == 'call' and k[1] == 'isinstance' and v)
                 and not (k[0] == 'cmp' and k[1] in ('!=', '=='))]
        rep.check(not conds, r3, "%s recursion not filtered" % e.where, fn,
                  "recursive sanitize under %s" % [(T.show(k, 3), v) for k, v in conds],
                  "some nested schedulers are not sanitized", trace(e.st))
        isi = [k for k, v in e.st.facts.items() if k[0] == 'call' and k[1] == 'isinstance' and v
               and k[2][0] == recv]
        for k in isi:
            c = k[2][1]
            okc = c[0] == 'class' and c[1] in ctx.prog.classes and \
                ctx.prog.classes[c[1]] in r.sched.mro
            rep.check(okc, r3, "%s recursion covers every nested scheduler" % e.where, fn,
                      "recursion restricted to instances of %s" % T.show(c, 2),
                      "nested schedulers of another class are not sanitized", trace(e.st))
    for e in an.events('REC_SKIPPED'):
        rep.fail(r3, "%s recursion skipped on some path" % e.where, fn,
                 "an iteration over a nested scheduler can finish without calling its sanitize() "
                 "(short-circuit or condition on the flag)",
                 "a nested scheduler is left unsanitized once a change was seen earlier in the loop",
                 trace(e.st))
    # R16.4 truth table of the returned value
    if not an.tables:
        rep.error(r4, "cannot find the boolean accumulator of the member loop of sanitize")
        return
    rets = an.events('RET')
    for (flag, init, rows, node) in an.tables:
        # R(flag): the returned value as a function of the final flag
        R = {}
        for n in walk_local(f.node):
            if isinstance(n, ast.Return) and n.value is not None and \
                    any(isinstance(m, ast.Name) and m.id == flag for m in ast.walk(n.value)):
                for fv in (True, False):
                    try:
                        R[fv] = _eval_bool(n.value, {flag: fv})
                    except ValueError:
                        pass
        if set(R) != {True, False} or R[True] == R[False]:
            continue            # not the accumulator that decides the result
        good = lambda fv: R[fv]
        rep.check(good(init), r4, "%s initial state means `nothing removed`" % fn, fn,
                  "flag `%s` starts at %s, for which sanitize() returns %s" % (flag, init, good(init)),
                  "sanitize() of a sound scheduler returns False")
        nrows = 0
        for fin, new, ft, x in rows:
            if new is None:
                rep.error(r4, "member loop of sanitize leaves early")
                continue
            removed = nested = ok = None
            for k, v in new.items():
                if k[0] == 'call' and k[1] == 'isinstance':
                    nested = v
                elif k[0] == 'mcall' and k[2] == 'sanitize':
                    ok = v
                elif k[0] == 'cmp' and k[1] in ('!=', '==', '<', '>'):
                    removed = v if k[1] != '==' else (not v)
                elif k[0] not in ('forall', 'exists') and T.mentions(k, lambda s: T.is_attr(s, 'required')):
                    removed = v
            subs = [s for s in T.subterms(ft) if s[0] == 'mcall' and s[2] == 'sanitize'] if ft is not None else []
            for okv in ([ok] if ok is not None else [True, False]):
                y = x
                if subs and ok is None:
                    y = x.assume(subs[0], okv)
                    if y is None:
                        continue
                from ..flow import truth
                fo = truth(ft, y)
                if fo is None:
                    rep.error(r4, "value of `%s` after one member not decidable: %s" % (flag, T.show(ft, 4)))
                    continue
                for rm in ([removed] if removed is not None else [True, False]):
                    for ns in ([nested] if nested is not None else [False, True]):
                        want = good(fin) and (not rm) and ((not ns) or okv is True)
                        nrows += 1
                        rep.check(good(fo) == want, r4,
                                  "%s result after a member (before:%s removed:%s nested:%s nested-ok:%s)"
                                  % (fn, "ok" if good(fin) else "changed", rm, ns, okv), fn,
                                  "after a member with removed=%s nested=%s nested-result=%s and previous state %s, "
                                  "sanitize() would return %s" % (rm, ns, okv, "fine" if good(fin) else "changed",
                                                                  good(fo)),
                                  "sanitize() must return True iff nothing had to be removed anywhere in the tree "
                                  "(here it must be %s)" % want)
        rep.need(r4, nrows, 6, "rows of the fold table")
        return
    rep.error(r4, "no boolean accumulator of the member loop determines the result of sanitize")
