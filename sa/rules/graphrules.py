"""
Rules for the pure graph algorithms: topological order and cycle detection (C15),
queries and closures (C17), sanitize (C16), surgery (C18).
"""

import ast

from .. import terms as T
from ..graphmodel import GraphModel
from ..index import walk_local, dotted
from .common import src, stmt_of, trace
from .runrules import MEMBERS, mcall, strip_coll, conj_items, neg

LENM = T.mk(('call', 'len', (MEMBERS,), ()))


def _unmarked_forms(x, mark):
    """terms meaning `x is marked` == value"""
    a = T.mk(('attr', x, mark))
    return {
        (a, True): True, (a, False): False,
        (T.mk(('cmp', 'is', a, T.NONE)), True): False, (T.mk(('cmp', 'is', a, T.NONE)), False): True,
        (T.mk(('cmp', 'is not', a, T.NONE)), True): True, (T.mk(('cmp', 'is not', a, T.NONE)), False): False,
    }


def topo(ctx):
    f = ctx.prog.supplier(ctx.roles.sched, 'topological_order')
    if f is None:
        from ..index import AnalysisError
        raise AnalysisError("topological_order not found")
    return f, ctx.explore(f, model=GraphModel)


def order_sound(ctx, rep, r1, r2, r3):
    """R15.1 every yield guarded by all-requirements-marked; R15.2 exactly once
    (guarded by not-marked, marked on the same path); R15.3 nothing else in the guard"""
    r = ctx.roles
    mark = r.mark_attr
    f, (an, ip, out) = topo(ctx)
    fn = f.qualname
    if mark is None:
        rep.fail(r2, fn, fn, "no attribute is set to True next to the yield",
                 "jobs are never marked as visited: the scan yields them again on every pass")
        return
    # value-set of the mark attribute: {None, True}
    vals = set()
    for g in ctx.prog.all_functions():
        for n in walk_local(g.node):
            if isinstance(n, ast.Assign):
                for t in n.targets:
                    if isinstance(t, ast.Attribute) and t.attr == mark:
                        vals.add(ast.unparse(n.value))
    rep.check(vals <= {'None', 'True'}, r1, "value-set of the mark attribute", fn,
              "job.%s takes values %s" % (mark, sorted(vals)),
              "`is None` no longer means `not marked`: the scan mistakes marked for unmarked jobs")
    ys = an.events('YIELD')
    rep.need(r1, len(ys), 1, "yields of the ordering generator")
    stores = [e for e in an.events('STORE') if e.data['attr'] == mark and e.data['val'] == T.TRUE]
    for y in ys:
        j = y.data['val']
        site = "%s yield" % y.where
        # state in which the guard facts are still intact
        st = y.st
        if y.data['marked'] == j:
            cands = [s for s in stores if s.data['obj'] == j]
            if cands:
                st = cands[0].st
                for s in cands:
                    if all(s.st.facts.get(k) == v for k, v in y.st.facts.items() if k in s.st.facts):
                        st = s.st
        ok_member = j[0] == 'elem' and j[1] == MEMBERS
        rep.check(ok_member, r1, site + " yields a member", fn, "yield of %s" % T.show(j, 3),
                  "the ordering yields something that is not a member of the scheduler", trace(st))
        # R15.1
        req = T.mk(('attr', j, 'required'))
        found = None
        for k, v in st.facts.items():
            if v and k[0] == 'forall' and strip_coll(k[1]) == req:
                found = k
            if v and k[0] == 'call' and k[1] == 'all' and len(k[2]) == 1 and k[2][0][0] == 'comp' \
                    and strip_coll(k[2][0][3][0][1]) == req:
                found = k
        good = False
        why = "no universally quantified test of job.required on the path to the yield"
        if found is not None and found[0] == 'forall':
            elem = T.mk(('elem', found[1], found[2]))
            forms = _unmarked_forms(elem, mark)
            good = bool(found[3]) and all(any(forms.get((a, b)) is True for a, b in alt) for alt in found[3])
            why = "requirement scan keeps going when: %s" % [[(T.show(a, 3), b) for a, b in alt] for alt in found[3]]
        elif found is not None:
            c = found[2][0]
            elem = T.mk(('elem', c[3][0][1], c[3][0][0]))
            forms = {k[0]: v for k, v in _unmarked_forms(elem, mark).items() if k[1] is True}
            good = forms.get(c[2]) is True and not c[3][0][2]
            why = "all(%s ...)" % T.show(c[2], 3)
        rep.check(good, r1, site + " only after all its requirements were yielded", fn, why,
                  "a job is yielded (numbered, listed, drawn) before one of its requirements", trace(st))
        # R15.2
        forms = _unmarked_forms(j, mark)
        guard = [k for k, v in st.facts.items() if forms.get((k, v)) is False]
        rep.check(bool(guard), r2, site + " only for a job not yet marked", fn,
                  "yield reachable without testing that the job is unmarked",
                  "a job is yielded more than once", trace(st))
        # R15.3
        extras = []
        for k, v in st.facts.items():
            if not T.contains(k, j) or k == MEMBERS:
                continue
            if forms.get((k, v)) is not None:
                continue
            if k[0] in ('forall', 'exists') and strip_coll(k[1]) == req:
                continue
            if k[0] == 'call' and k[1] == 'all':
                continue
            if k == req:
                continue
            if k[0] == 'comp' and len(k) == 4 and len(k[3]) == 1 and strip_coll(k[3][0][1]) == req:
                continue        # judged through the quantified fact derived from its emptiness
            extras.append((k, v))
        rep.check(not extras, r3, site + " guard has no extra condition", fn,
                  "yield additionally requires %s" % [(T.show(k, 3), v) for k, v in extras],
                  "a job whose requirements are all marked is skipped by the pass that sees it", trace(st))
    for e in an.events('YIELD_UNMARKED'):
        rep.fail(r2, "%s yielded job not marked" % e.where, fn,
                 "an iteration yields %s without marking it" % T.show(e.data['val'], 3),
                 "the job is yielded again on the next pass (and the scan may never end)", trace(e.st))


def progress_or_raise(ctx, rep, rule):
    """R15.4 no silent stop, no spin; marks reset before the scan"""
    r = ctx.roles
    mark = r.mark_attr
    f, (an, ip, out) = topo(ctx)
    fn = f.qualname
    for n in walk_local(f.node):
        if isinstance(n, (ast.Assign, ast.AugAssign, ast.AnnAssign)) and isinstance(n.value, ast.YieldFrom):
            # `n = yield from self._one_pass()`: whether a pass made progress is told by the value a sub-generator
            # returns; the link between that number and the marks it stored is beyond this rule
            rep.error(rule, "%s:%d the progress of a pass is the value returned by a sub-generator (`%s`): this rule "
                      "cannot decide this form" % (f.module.relpath, n.lineno, src(n)[:70]))
            return
    for e in an.events('SPIN'):
        rep.fail(rule, "%s pass without progress loops again" % e.where, fn,
                 "the outer loop can start a new pass although the previous one marked nothing",
                 "on a cyclic graph topological_order()/check_cycles() never returns", trace(e.st))
    rep.ok(rule, "%s: every new pass follows a pass that marked a job (or the scan raised/ended)" % fn)
    # marks reset before the first yield
    ys = an.events('YIELD')
    for y in ys:
        rep.check(y.st.a('reset'), rule, "%s marks reset before the scan" % y.where, fn,
                  "jobs yielded on a path where job.%s was not reset first" % mark,
                  "a second scan finds every job already marked: it yields nothing, and check_cycles() "
                  "of a sound graph is False from then on", trace(y.st))
    resets = [e for e in an.events('STORE') if e.data['attr'] == mark and e.data['val'] == T.NONE]
    for e in resets:
        o = e.data['obj']
        lp = [c for c in e.loops if c.elem == o]
        conds = [k for k, v in e.st.facts.items() if T.contains(k, o) and k != MEMBERS]
        ok = o[0] == 'elem' and o[1] == MEMBERS and lp and not lp[0].conds and not conds
        rep.check(bool(ok), rule, "%s every member's mark is reset" % e.where, e.fr.func.qualname,
                  "`%s` (object %s, conditions %s)" % (src(stmt_of(e.node)), T.show(o, 3), [T.show(c, 3) for c in conds]),
                  "some jobs keep a stale mark from a previous scan", trace(e.st))
    # normal exhaustion only when everybody was counted; counting goes with marking
    n = 0
    ends = list(out.nxt) + [x[0] for x in out.ret]

    def is_counter(t):
        return t[0] in ('pos', 'acc') or (t[0] == 'const' and isinstance(t[1], int) and not isinstance(t[1], bool))
    nends = len(ends)
    for i, st in enumerate(ends + [e.st for e in an.events('RAISE')]):
        for k, v in st.facts.items():
            if k[0] == 'cmp' and k[1] in ('>=', '<=', '==', '!=', '<', '>'):
                a, b = k[2], k[3]
                cnt = lambda t: t[0] in ('pos', 'acc')
                if i >= nends and k[1] in ('==', '!=') and is_counter(a) and is_counter(b):
                    continue        # a raise decided by comparing the count with an earlier count of itself
                if (cnt(a) and b != LENM) or (cnt(b) and a != LENM):
                    rep.fail(rule, "%s scan exit tests the count against the number of members" % fn, fn,
                             "the scan leaves its loop on `%s`" % T.show(k, 3),
                             "the scan stops before every member was yielded (or goes on after): an acyclic "
                             "graph is reported cyclic, or jobs are dropped", trace(st))
    for st in ends:
        n += 1
        good = st.facts.get(MEMBERS) is False      # no member at all: vacuously all yielded
        REM = T.mk(('rem', LENM))                  # the count-down form: remaining = len(members), one down per mark
        for k, v in st.facts.items():
            if k[0] == 'cmp' and k[2] == REM and k[3] == ('const', 0):
                if (k[1] in ('==', '<=') and v) or (k[1] in ('!=', '>') and not v):
                    good = True
        for k, v in st.facts.items():
            if k[0] == 'cmp' and LENM in (k[2], k[3]):
                op = k[1]
                other = k[3] if k[2] == LENM else k[2]
                if k[2] == LENM:
                    op = {'<=': '>=', '>=': '<=', '<': '>', '>': '<'}.get(op, op)
                if (op in ('>=', '==') and v) or (op in ('!=', '<') and not v):
                    good = True
        rep.check(good, rule, "%s normal end only when every member was yielded" % fn, fn,
                  "the generator can end normally on a path with facts %s" % [(T.show(k, 3), v) for k, v in st.facts.items()],
                  "on a cyclic graph the scan silently drops the jobs of the cycle instead of raising",
                  trace(st))
    rep.need(rule + ":exits", n, 1, "normal ends of the generator")
    raises = an.events('RAISE')
    rep.check(bool(raises), rule, "%s raises when it cannot go on" % fn, fn, "no raise statement is reachable",
              "a cyclic graph is never reported")
    # the counter of the scan is the one a test reads (a count of rounds kept for a message is no concern)
    tested = {m.id for n in walk_local(f.node) if isinstance(n, (ast.If, ast.While, ast.IfExp, ast.Compare, ast.Assert))
              for m in ast.walk(n.test if hasattr(n, 'test') else n) if isinstance(m, ast.Name)}
    for e in an.events('AUG'):
        if e.data['val'][0] in ('pos', 'acc', 'rem') and not e.data.get('depth') and e.data.get('name') in tested:
            # (the counter of the scan itself: a helper that counts something else is not concerned)
            rep.check(e.data['marked'] is not None, rule, "%s counter goes with marking" % e.where, fn,
                      "`%s` on a path where no job was marked in this step" % src(stmt_of(e.node)),
                      "the count of yielded jobs runs ahead: the scan stops before all jobs were yielded",
                      trace(e.st))


def _all_nested_ok(ctx, v):
    """v == all(<x>.check_cycles() for x in <members yielded by topological_order() that are schedulers>)"""
    r = ctx.roles
    if not (v[0] == 'call' and v[1] == 'all' and len(v[2]) == 1 and v[2][0][0] == 'comp'):
        return False
    c = v[2][0]
    if len(c[3]) != 1:
        return False
    key, it, conds0 = c[3][0]
    elem = T.mk(('elem', it, key))
    if c[2] != T.mk(('mcall', elem, 'check_cycles', (), ())):
        return False
    if conds0:
        # one comprehension: all(x.check_cycles() for x in self.topological_order() if isinstance(x, Sched))
        g = strip_coll(it)
        if g[0] != 'gen' or not g[1].endswith('topological_order') or len(conds0) != 1:
            return False
        cd = conds0[0]
        if not (cd[0] == 'call' and cd[1] == 'isinstance' and cd[2][0] == elem and cd[2][1][0] == 'class'):
            return False
        cls = ctx.prog.classes.get(cd[2][1][1])
        return cls is not None and r.sched in cls.mro
    src_ = strip_coll(it)
    if src_[0] != 'comp' or len(src_[3]) != 1:
        return False
    k2, it2, conds = src_[3][0]
    e2 = T.mk(('elem', it2, k2))
    if src_[2] != e2 or strip_coll(it2)[0] != 'gen' or not strip_coll(it2)[1].endswith('topological_order'):
        return False
    if len(conds) != 1:
        return False
    cd = conds[0]
    if not (cd[0] == 'call' and cd[1] == 'isinstance' and cd[2][0] == e2 and cd[2][1][0] == 'class'):
        return False
    cls = ctx.prog.classes.get(cd[2][1][1])
    return cls is not None and r.sched in cls.mro


def _verdict_hooks(ctx):
    """names of per-job hooks that stand for `the verdict of this member's own check_cycles()`: the job base class
    answers True (an atomic job has no cycle), every nestable class answers `self.check_cycles()`"""
    r, p = ctx.roles, ctx.prog
    out = set()
    for name, f in r.jobbase.methods.items():
        rets = [n for n in walk_local(f.node) if isinstance(n, ast.Return)]
        if len(rets) != 1 or not (isinstance(rets[0].value, ast.Constant) and rets[0].value.value is True):
            continue
        if len([n for n in f.node.body if not (isinstance(n, ast.Expr) and isinstance(n.value, ast.Constant))]) != 1:
            continue
        ok = bool(r.nestable)
        for n_ in r.nestable:
            g = p.supplier(n_, name)
            if g is None or g is f:
                ok = False
                break
            gr = [n for n in walk_local(g.node) if isinstance(n, ast.Return)]
            if not (len(gr) == 1 and isinstance(gr[0].value, ast.Call) and dotted(gr[0].value.func) == 'self.check_cycles'
                    and not gr[0].value.args and not gr[0].value.keywords):
                ok = False
        if ok:
            out.add(name)
    return out


def check_cycles_rules(ctx, rep, rule):
    """R15.5 both forms of check_cycles; consumers iterate in the generator's order"""
    r = ctx.roles
    p = ctx.prog
    VERDICTS = {'check_cycles'} | _verdict_hooks(ctx)
    class CyclesModel(GraphModel):
        # `return all(c(x) for x in S)` is read as the search loop it is
        desugar_all_any = True
    forms = []
    for cls in [r.sched] + r.nestable:
        # (an override that only hands over to the parent's implementation is that implementation); the same
        # function may have to be read once per class of `self`, when it calls a hook that subclasses override
        f = p.effective_supplier(cls, 'check_cycles')
        hooks = {n.func.attr for n in ast.walk(f.node) if isinstance(n, ast.Call) and isinstance(n.func, ast.Attribute)
                 and isinstance(n.func.value, ast.Name) and n.func.value.id == 'self'
                 and len(p.dispatch_set(r.sched, n.func.attr)) > 1} if f is not None else set()
        key = (f, cls if hooks else None)
        if f is not None and key not in forms:
            forms.append(key)
    rep.need(rule, len(forms), 1, "check_cycles implementations")
    for f, as_cls in forms:
        an, ip, out = ctx.explore(f, model=CyclesModel, self_cls=as_cls)
        fn = f.qualname if as_cls is None else "%s (self: %s)" % (f.qualname, as_cls.name)
        form_cls = as_cls or f.cls
        rets = an.events('RET')
        rep.need(rule + ":" + fn, len(rets), 2, "returns")
        for e in rets:
            v = e.data['val']
            if v == T.TRUE:
                inloop = e.data['in_loop'] or any(val and k[0] == 'exists' and k[1][0] in ('gen', 'call')
                                                  for k, val in e.st.facts.items())
                done_scan = e.data.get('scanned') or any(val and k[0] == 'forall' and k[1][0] in ('gen', 'call')
                                                         for k, val in e.st.facts.items())
                rep.check(done_scan, rule, "%s True only once the whole scan was made" % e.where, fn,
                          "`%s` reachable without scanning the graph (facts: %s)"
                          % (src(stmt_of(e.node)), [(T.show(k, 3), v) for k, v in e.st.facts.items()][:3]),
                          "check_cycles() answers True without looking at the graph - or at its nested schedulers",
                          trace(e.st))
                rep.check(not inloop, rule, "%s True only after the scan is exhausted" % e.where, fn,
                          "`return True` inside the scan loop", "a cyclic graph is declared sound after its "
                          "first job was scanned", trace(e.st))
                caught = any(c[1] for c in [(x, True) for x in e.st.trace if 'caught' in str(x[1])])
                rep.check(not caught, rule, "%s True never after an exception" % e.where, fn,
                          "`return True` on a path that caught the scan's exception",
                          "a cyclic graph is declared sound", trace(e.st))
            elif v == T.FALSE:
                rep.ok(rule, "%s return False" % e.where)
            elif _all_nested_ok(ctx, v):
                # return all(n.check_cycles() for n in <nested members met by the scan>)
                rep.ok(rule, "%s returns all(nested.check_cycles() ...) over the scan" % e.where)
                e.data['all_form'] = True
            elif v[0] in ('call', 'mcall') and (v[0] == 'mcall' or v[1] in ('all', 'any', 'bool', 'not')):
                # a verdict computed by something this rule cannot read (a hook dispatched on the class of self,
                # say): neither accepted nor refuted
                rep.error(rule, "%s: the returned value %s is not one of the forms this rule can decide"
                          % (e.where, T.show(v, 3)[:120]))
                e.data['all_form'] = True
            else:
                rep.fail(rule, "%s returns a boolean" % e.where, fn, "`%s`" % src(stmt_of(e.node)),
                         "check_cycles() must return True or False", trace(e.st))
        for st, kind, node in out.exc:
            rep.fail(rule, "%s exception escapes" % ip.where(node), fn,
                     "the exception raised by the scan escapes check_cycles()",
                     "check_cycles() raises on a cyclic graph instead of returning False", trace(st))
        # ... and False only because the scan failed (or a nested verdict was False): check_cycles() itself, and
        # the helpers it runs, raise nothing of their own - a graph that is acyclic is never reported cyclic
        for e in an.events('RAISE'):
            if e.fr.func.name == 'topological_order' or isinstance(stmt_of(e.node), ast.Raise) and stmt_of(e.node).exc is None:
                continue
            rep.fail(rule, "%s False only when the scan failed" % e.where, fn,
                     "`%s` in %s" % (src(stmt_of(e.node)), e.fr.func.qualname),
                     "check_cycles() returns False (its handler catches this) on a graph whose ordering exists: an "
                     "acyclic graph is reported cyclic", trace(e.st))
        caught = an.events('CAUGHT')
        rep.check(bool(caught), rule, "%s handles the scan's exception" % fn, fn,
                  "no handler catches the exception raised by the ordering generator",
                  "check_cycles() raises on a cyclic graph instead of returning False")
        # (in the function itself, or in a helper it runs - a scan handed over as a bound method included)
        walked = [f] + [p.funcs[q] for q in sorted(ip.inlined) if q in p.funcs and p.funcs[q] is not f]
        loops_over_topo = [n for g in walked for n in walk_local(g.node) if isinstance(n, ast.Call)
                           and dotted(n.func) == 'self.topological_order'
                           and isinstance(getattr(n, '_parent', None), (ast.For, ast.comprehension))]
        rep.check(bool(loops_over_topo), rule, "%s scans with topological_order()" % fn, fn,
                  "no loop over self.topological_order()", "cycles are not looked for at all")
        if form_cls in r.nestable or (form_cls is not r.sched):
            # the recursive form: every nested member's own verdict is consulted
            def flat(st):
                """path facts, with the alternatives of folded search loops opened up"""
                out_ = []
                for k, v in st.facts.items():
                    if v and k[0] == 'exists':
                        for alt in k[3]:
                            out_.append(dict(alt))
                if not out_:
                    out_.append(dict(st.facts))
                return out_
            rec = []
            for e in rets:
                if e.data['val'] != T.FALSE:
                    continue
                for d in flat(e.st):
                    if any(k[0] == 'mcall' and k[2] in VERDICTS and v is False for k, v in d.items()):
                        rec.append((e, d))
            allform = [e for e in rets if e.data.get('all_form')]
            rep.check(bool(rec) or bool(allform), rule, "%s recursion into nested schedulers" % fn, fn,
                      "no `return False` under `not <member>.check_cycles()` inside the scan",
                      "a cycle inside a nested scheduler is not detected")
            # completeness: True is returned only if every member either is not a nested
            # scheduler or passed its own check
            for e in rets:
                if e.data['val'] != T.TRUE:
                    continue
                fa = [k for k, v in e.st.facts.items() if v and k[0] == 'forall' and k[1][0] == 'gen']
                if not fa:
                    continue
                for k in fa:
                    good = bool(k[3]) and all(
                        any((a[0] == 'call' and a[1] == 'isinstance' and b is False) or
                            (a[0] == 'mcall' and a[2] in VERDICTS and b is True) for a, b in alt)
                        for alt in k[3])
                    rep.check(good, rule, "%s True only if every nested member passed" % e.where, fn,
                              "the scan goes on when: %s" % [[(T.show(a, 3), b) for a, b in alt] for alt in k[3]],
                              "a nested scheduler with a cycle does not make check_cycles() False", trace(e.st))
            for e, d in rec:
                tested = [k for k, v in d.items()
                          if k[0] == 'call' and k[1] == 'isinstance' and v]
                okc = False
                for k in tested:
                    c = k[2][1]
                    if c[0] == 'class' and c[1] in p.classes and r.sched in p.classes[c[1]].mro:
                        okc = True
                rep.check(okc or not tested, rule, "%s recursion covers every nested scheduler" % e.where, fn,
                          "recursion restricted by %s" % [T.show(k, 3) for k in tested],
                          "some nested schedulers are not checked", trace(e.st))
    # consumers use the generator's order
    for name in ('list', '_set_sched_ids', '_dot_body'):
        f = p.supplier(r.sched, name)
        if f is None:
            continue
        from .common import topo_loops
        # (the numbering helper that list() calls first has its own loop: it is a consumer of its own)
        uses = topo_loops(ctx, f, exclude={x for x in ('list', '_set_sched_ids', '_dot_body') if x != name})
        from .common import topo_consumed_opaquely, topo_reordered
        reo = topo_reordered(ctx, f)
        for c in reo:
            rep.fail(rule, "%s:%d the order of the generator is used as it is" % (f.module.relpath, c.lineno), f.qualname,
                     "`%s` re-orders what topological_order() yields" % src(c)[:90],
                     "jobs are numbered / listed / drawn in an order that is not a linear extension: a job can come "
                     "before one of its requirements")
        if reo:
            continue
        if not uses and topo_consumed_opaquely(ctx, f):
            rep.error(rule, "%s hands self.topological_order() to a fold (reduce / map ...): the order is used, "
                            "in a form this rule cannot read" % f.qualname)
            continue
        rep.check(bool(uses), rule, "%s iterates in topological order" % f.qualname, f.qualname,
                  "%s does not loop over self.topological_order()" % f.qualname,
                  "jobs are numbered / listed / drawn in an order that is not a linear extension")


# ==================================================================== C16
class SanitizeModel(GraphModel):
    """GraphModel + fold table of the member loop of sanitize (appendix B of DESIGN.md)"""

    def __init__(self, *a, **k):
        GraphModel.__init__(self, *a, **k)
        self.tables = []

    def on_branch(self, ip, node, term, val, st, fr):
        if term[0] == 'call' and term[1] == 'isinstance' and val and not ip.in_summary:
            st = st.set(nested_iter=True)
        return st

    def on_call(self, ip, node, fterm, args, kws, st, fr):
        if fterm[0] == 'attr' and fterm[2] == 'sanitize' and fterm[1][0] == 'elem':
            self.ev(ip, 'CALL', node, st, fr, recv=fterm[1], meth='sanitize', args=args, kws=kws, depth=fr.depth)
            for c in ip.loopctx:
                if c.kind == 'comp' and isinstance(c.node, ast.GeneratorExp):
                    par = getattr(c.node, '_parent', None)
                    if isinstance(par, ast.Call) and dotted(par.func) in ('all', 'any', 'next'):
                        self.ev(ip, 'REC_SKIPPED', node, st, fr, how=dotted(par.func))
            return [(st.set(rec_called=True), T.mk(('mcall', fterm[1], 'sanitize', (), ())))]
        res = GraphModel.on_call(self, ip, node, fterm, args, kws, st, fr)
        if fterm[0] == 'attr' and fterm[2] in self.INPLACE and (
                T.is_attr(fterm[1], 'required') or fterm[1][0] == 'post'):
            obj = fterm[1][1]
            if res is None:
                res = ip.call_generic(node, fterm, args, kws, st, fr)
            return [(self._prune(obj, x, True), v) for x, v in res]
        return res

    # --- before / after: the requirement set of a member is an object; once it has been pruned, reading it
    # gives the pruned contents, and so does every *alias* taken before an in-place prune (`b = j.required;
    # j.required &= ...` leaves b pruned too), whereas copies and sizes taken before keep the old contents
    INPLACE = ('intersection_update', 'difference_update', 'discard', 'remove', 'clear')

    def _prune(self, obj, st, inplace):
        old = T.mk(('attr', obj, 'required'))
        post = T.mk(('post', obj, 'required'))
        cur = dict(st.a('reqver') or ())
        prev = cur.get(obj, old)
        cur[obj] = post
        st = st.set(reqver=tuple(sorted(cur.items(), key=repr)))
        if inplace:
            v = dict(st.vars)
            ch = False
            for k, t in v.items():
                if t == prev:
                    v[k] = post
                    ch = True
            if ch:
                st = st._new(vars=v)
        return st

    def on_store_attr(self, ip, node, obj, attr, val, st, fr, aug=None):
        r = GraphModel.on_store_attr(self, ip, node, obj, attr, val, st, fr, aug)
        if attr == 'required':
            if r is None:
                r = ip.default_store_attr(obj, attr, st)
            if isinstance(r, list):
                return [self._prune(obj, b, aug is not None) for b in r]
            return self._prune(obj, r, aug is not None)
        return r

    def on_attr(self, ip, node, base, attr, st, fr):
        if attr == 'required' and isinstance(getattr(node, 'ctx', ast.Load()), ast.Load):
            cur = dict(st.a('reqver') or ())
            if base in cur:
                return cur[base]
        return GraphModel.on_attr(self, ip, node, base, attr, st, fr)

    def on_iter(self, ip, ctx, st, fr):
        if ctx.kind == 'for' and st.a('reqver'):
            st = st.set(reqver=None)        # another member: nothing pruned yet
        if ctx.kind == 'for' and ctx.iter == MEMBERS and not ip.in_summary and fr.depth == 0:
            if st.a('nested_iter') and not st.a('rec_called'):
                self.ev(ip, 'REC_SKIPPED', ctx.node, st, fr)
            st = st.set(nested_iter=False, rec_called=False)
        return GraphModel.on_iter(self, ip, ctx, st, fr)

    def on_loop_exit(self, ip, ctx, st, fr):
        if ctx.kind == 'for' and ctx.iter == MEMBERS and not ip.in_summary and fr.depth == 0:
            if st.a('nested_iter') and not st.a('rec_called'):
                self.ev(ip, 'REC_SKIPPED', ctx.node, st, fr)
            st = st.set(nested_iter=False, rec_called=False)
        return GraphModel.on_loop_exit(self, ip, ctx, st, fr)

    def on_loop(self, ip, node, it, st, fr):
        if it != MEMBERS or fr.depth != 0 or ip.in_summary:
            return None
        from ..flow import LoopCtx, Out, truth
        assigned = {n.id for n in ast.walk(node) if isinstance(n, ast.Name) and isinstance(n.ctx, ast.Store)}
        # the accumulator: a boolean flag, or a counter starting at 0 (read through its truth value)
        flags = [n for n in assigned if T.is_const(st.var(fr.fid, n, ('unk',))) and
                 (isinstance(st.var(fr.fid, n)[1], bool) or st.var(fr.fid, n)[1] == 0)]
        key = ip.loop_key(node, fr)
        elem = T.mk(('elem', it, key))
        for f in flags:
            rows = []
            counter = not isinstance(st.var(fr.fid, f)[1], bool)
            for fin in (False, True):
                b = st.with_var(fr.fid, f, (('pos',) if fin else ('const', 0)) if counter else ('const', fin))
                sc = Out()
                bs = ip.assign(node.target, elem, b, fr, sc, node)
                ctx = LoopCtx('for', node, it, elem, key, node.target)
                ip.loopctx.append(ctx)
                ip.in_summary += 1
                try:
                    r = ip.exec_block(node.body, bs, fr)
                finally:
                    ip.in_summary -= 1
                    ip.loopctx.pop()
                for x in r.nxt + r.cont:
                    new = {k: v for k, v in x.facts.items() if st.facts.get(k) != v}
                    ft = x.var(fr.fid, f)
                    rows.append((fin, new, ft, x))
                if r.brk or r.ret or r.exc:
                    rows.append((fin, None, None, None))
            self.tables.append((f, bool(st.var(fr.fid, f)[1]), rows, node))
        return None


def _eval_bool(e, env):
    if isinstance(e, ast.Constant):
        return bool(e.value)
    if isinstance(e, ast.Name) and e.id in env:
        return env[e.id]
    if isinstance(e, ast.UnaryOp) and isinstance(e.op, ast.Not):
        return not _eval_bool(e.operand, env)
    if isinstance(e, ast.BoolOp):
        vals = [_eval_bool(v, env) for v in e.values]
        return all(vals) if isinstance(e.op, ast.And) else any(vals)
    raise ValueError("not a boolean expression of the flag")


def _is_dangling(v, cur, members):
    """v = cur - members (the requirements that are not members)"""
    if v[0] == 'binop' and v[1] == 'Sub' and v[2] == cur and v[3] == members:
        return True
    if v[0] == 'mcall' and v[1] == cur and v[2] == 'difference' and v[3] == (members,):
        return True
    return False


def _is_meet(v, cur, members):
    """v = cur & members, in any of the spellings of set algebra"""
    if v[0] == 'binop' and v[1] == 'BitAnd' and {v[2], v[3]} == {cur, members}:
        return True
    if v[0] == 'mcall' and v[2] == 'intersection' and len(v[3]) == 1 and {v[1], v[3][0]} == {cur, members}:
        return True
    # cur - (cur - members)
    if v[0] == 'binop' and v[1] == 'Sub' and v[2] == cur and _is_dangling(v[3], cur, members):
        return True
    if v[0] == 'mcall' and v[1] == cur and v[2] == 'difference' and len(v[3]) == 1 \
            and _is_dangling(v[3][0], cur, members):
        return True
    return False


def _count_truth(t, st, okv):
    """truth value of a counter term: is it non-zero? (None when it cannot be told). A nested sanitize() result
    added to a count contributes 1 when it is True (`nothing had to be removed`) and 0 when False."""
    from ..flow import truth
    if t[0] == 'const':
        return bool(t[1])
    if t[0] == 'pos':
        return True
    if t[0] == 'mcall' and t[2] == 'sanitize':
        return okv
    if t[0] == 'unop' and t[1] == 'not':
        v = _count_truth(t[2], st, okv)
        return None if v is None else (not v)
    if t[0] == 'call' and t[1] in ('int', 'bool') and len(t[2]) == 1:
        return _count_truth(t[2][0], st, okv)
    if t[0] == 'binop' and t[1] == 'Sub':
        # a difference of two sizes is non-zero exactly when they differ
        for op, pol in (('!=', True), ('==', False)):
            for a, b in ((t[2], t[3]), (t[3], t[2])):
                v = st.facts.get(T.mk(('cmp', op, a, b)))
                if v is not None:
                    return v if pol else (not v)
        return None
    if t[0] == 'binop' and t[1] == 'Add':
        a, b = _count_truth(t[2], st, okv), _count_truth(t[3], st, okv)
        if a or b:
            return True
        if a is False and b is False:
            return False
        return None
    if t[0] == 'acc':
        vals = [_count_truth(t[1], st, okv)] + [_count_truth(x, st, okv) for x in t[2]]
        if any(v is True for v in vals):
            return True
        if all(v is False for v in vals):
            return False
        return None
    v = truth(t, st)
    return v


def _measure_result(ctx, rep, r4, f):
    """sanitize() that answers by comparing one measure of the tree taken before and after the pruning
    (`total = sum(len(j.required) for j in W)` ... `return total == sum(len(j.required) for j in W)`): the answer is
    right iff the walk W reaches every object whose requirements sanitize() may prune - members at every depth,
    nested scheduler nodes included.  -> True when the shape was recognised (and judged)"""
    r = ctx.roles
    fn = f.qualname
    rets = [n for n in walk_local(f.node) if isinstance(n, ast.Return) and n.value is not None]
    if len(rets) != 1 or not isinstance(rets[0].value, ast.Compare) or len(rets[0].value.ops) != 1 \
            or not isinstance(rets[0].value.ops[0], ast.Eq):
        return False
    cmpn = rets[0].value
    sides = [cmpn.left, cmpn.comparators[0]]
    names = [x for x in sides if isinstance(x, ast.Name)]
    exprs = [x for x in sides if not isinstance(x, ast.Name)]
    if len(names) != 1 or len(exprs) != 1:
        return False
    binds = [n for n in f.node.body if isinstance(n, ast.Assign) and len(n.targets) == 1
             and isinstance(n.targets[0], ast.Name) and n.targets[0].id == names[0].id]
    stores = [n for n in walk_local(f.node) if isinstance(n, ast.Name) and n.id == names[0].id
              and isinstance(n.ctx, ast.Store)]
    if len(binds) != 1 or len(stores) != 1 or ast.dump(binds[0].value) != ast.dump(exprs[0]):
        return False
    e = exprs[0]
    if not (isinstance(e, ast.Call) and isinstance(e.func, ast.Name) and e.func.id == 'sum' and len(e.args) == 1
            and isinstance(e.args[0], (ast.GeneratorExp, ast.ListComp)) and len(e.args[0].generators) == 1
            and not e.args[0].generators[0].ifs):
        return False
    g = e.args[0].generators[0]
    elt = e.args[0].elt
    if not (isinstance(g.target, ast.Name) and isinstance(elt, ast.Call) and isinstance(elt.func, ast.Name)
            and elt.func.id == 'len' and len(elt.args) == 1 and isinstance(elt.args[0], ast.Attribute)
            and elt.args[0].attr == 'required' and isinstance(elt.args[0].value, ast.Name)
            and elt.args[0].value.id == g.target.id):
        return False
    w = g.iter
    site = "%s result = the number of requirements is unchanged" % fn
    if isinstance(w, ast.Attribute) and isinstance(w.value, ast.Name) and w.value.id == 'self' \
            and w.attr == MEMBERS[2]:
        rep.fail(r4, site, fn, "`%s` counts the requirements of the direct members only" % src(rets[0]),
                 "requirements removed inside a nested scheduler go unseen: sanitize() returns True although it "
                 "changed something")
        return True
    if isinstance(w, ast.Call) and isinstance(w.func, ast.Attribute) and isinstance(w.func.value, ast.Name) \
            and w.func.value.id == 'self' and not w.args:
        g2 = ctx.prog.supplier(r.sched, w.func.attr)
        if g2 is None or not g2.is_generator or 'scan_schedulers' not in g2.params:
            return False
        val = None
        for k in w.keywords:
            if k.arg == 'scan_schedulers' and isinstance(k.value, ast.Constant):
                val = bool(k.value.value)
            elif k.arg == 'scan_schedulers' or k.arg is None:
                return False
        if val is None:
            a = g2.node.args
            pos = a.posonlyargs + a.args
            for prm, d in list(zip(pos[len(pos) - len(a.defaults):], a.defaults)) + \
                    [(x, y) for x, y in zip(a.kwonlyargs, a.kw_defaults) if y is not None]:
                if prm.arg == 'scan_schedulers' and isinstance(d, ast.Constant):
                    val = bool(d.value)
        if val is None:
            return False
        rep.check(val, r4, site, fn,
                  "`%s` walks the tree with scan_schedulers=%s: nested scheduler objects are skipped" % (
                      src(rets[0])[:120], val),
                  "a requirement removed from a nested scheduler object itself goes unseen: sanitize() returns True "
                  "although it changed something")
        return True
    return False


def sanitize_rules(ctx, rep, r1, r2, r3, r4):
    r = ctx.roles
    f = ctx.prog.supplier(r.sched, 'sanitize')
    if f is None:
        rep.error(r1, "sanitize not found")
        return
    an, ip, out = ctx.explore(f, model=SanitizeModel)
    fn = f.qualname
    REQ = 'required'
    # R16.1 / R16.2 writers of `required`
    writes = [e for e in an.events('STORE') if e.data['attr'] == REQ] + \
             [e for e in an.events('MUT') if e.data['attr'] == REQ]
    rep.need(r1, len(writes), 1, "writers of `required` in sanitize")
    good_writes = 0
    for e in writes:
        o = e.data['obj']
        site = "%s requirements intersected with the member set" % e.where
        okobj = o[0] == 'elem' and o[1] == MEMBERS
        cur = T.mk(('attr', o, REQ))
        okval = False
        why = ""
        if e.kind == 'STORE':
            v = e.data['val']
            why = T.show(v, 4)
            if _is_meet(v, cur, MEMBERS):
                okval = True
            if v[0] == 'comp' and len(v[3]) == 1 and strip_coll(v[3][0][1]) == cur:
                el = T.mk(('elem', v[3][0][1], v[3][0][0]))
                if v[2] == el and list(v[3][0][2]) == [T.mk(('cmp', 'in', el, MEMBERS))]:
                    okval = True
        else:
            why = ".%s(%s)" % (e.data['how'], ", ".join(T.show(a, 3) for a in e.data['args']))
            okval = (e.data['how'] == 'intersection_update' and e.data['args'] == (MEMBERS,)) or \
                (e.data['how'] == 'difference_update' and len(e.data['args']) == 1
                 and _is_dangling(e.data['args'][0], cur, MEMBERS))
        lp = [c for c in e.loops if c.elem == o]
        conds = [k for k, v in e.st.facts.items() if T.contains(k, o) and k != MEMBERS]
        uncond = bool(lp) and not lp[0].conds and not conds
        rep.check(okobj and okval and uncond, r1 if (okobj and okval) else r2, site, fn,
                  "`%s` (value %s%s)" % (src(stmt_of(e.node)), why,
                                         "" if uncond else ", under conditions %s" % [T.show(c, 3) for c in conds]),
                  "after sanitize() a member still requires a job that is not a member of the same scheduler, "
                  "or an edge between two members was dropped", trace(e.st))
        if okobj and okval and uncond:
            good_writes += 1
    rep.check(good_writes > 0, r1, "%s closes every member's requirements" % fn, fn,
              "no statement replaces job.required by job.required & self.jobs for every member",
              "sanitize() does not close the requirement relation")
    # R16.3 recursion unconditional
    calls = [e for e in an.events('CALL') if e.data['meth'] == 'sanitize']
    rep.check(bool(calls), r3, "%s recurses into nested schedulers" % fn, fn,
              "no call of <member>.sanitize()", "nested schedulers are not sanitized")
    for e in calls:
        recv = e.data['recv']
        conds = [(k, v) for k, v in e.st.facts.items() if T.contains(k, recv) and k != MEMBERS
                 and not (k[0] == 'call' and k[1] == 'isinstance' and v)
                 and not (k[0] == 'cmp' and k[1] in ('!=', '=='))]
        rep.check(not conds, r3, "%s recursion not filtered" % e.where, fn,
                  "recursive sanitize under %s" % [(T.show(k, 3), v) for k, v in conds],
                  "some nested schedulers are not sanitized", trace(e.st))
        isi = [k for k, v in e.st.facts.items() if k[0] == 'call' and k[1] == 'isinstance' and v
               and k[2][0] == recv]
        for k in isi:
            c = k[2][1]
            okc = c[0] == 'class' and c[1] in ctx.prog.classes and \
                ctx.prog.classes[c[1]] in r.sched.mro
            rep.check(okc, r3, "%s recursion covers every nested scheduler" % e.where, fn,
                      "recursion restricted to instances of %s" % T.show(c, 2),
                      "nested schedulers of another class are not sanitized", trace(e.st))
    for e in an.events('REC_SKIPPED'):
        rep.fail(r3, "%s recursion skipped on some path" % e.where, fn,
                 "an iteration over a nested scheduler can finish without calling its sanitize() "
                 "(short-circuit%s or condition on the flag)" % (
                     " of %s() over a generator" % e.data['how'] if e.data.get('how') else ""),
                 "a nested scheduler is left unsanitized once a change was seen earlier in the loop",
                 trace(e.st))
    # R16.4 truth table of the returned value
    if not an.tables and _measure_result(ctx, rep, r4, f):
        return
    if not an.tables:
        rep.error(r4, "cannot find the boolean accumulator of the member loop of sanitize")
        return
    rets = an.events('RET')
    for (flag, init, rows, node) in an.tables:
        # R(flag): the returned value as a function of the final flag
        R = {}
        for n in walk_local(f.node):
            if isinstance(n, ast.Return) and n.value is not None and \
                    any(isinstance(m, ast.Name) and m.id == flag for m in ast.walk(n.value)):
                for fv in (True, False):
                    try:
                        R[fv] = _eval_bool(n.value, {flag: fv})
                    except ValueError:
                        pass
        if set(R) != {True, False} or R[True] == R[False]:
            continue            # not the accumulator that decides the result
        good = lambda fv: R[fv]
        rep.check(good(init), r4, "%s initial state means `nothing removed`" % fn, fn,
                  "flag `%s` starts at %s, for which sanitize() returns %s" % (flag, init, good(init)),
                  "sanitize() of a sound scheduler returns False")
        nrows = 0
        vac = set()
        for fin, new, ft, x in rows:
            if new is None:
                rep.error(r4, "member loop of sanitize leaves early")
                continue
            removed = nested = ok = None
            for k, v in new.items():
                if k[0] == 'call' and k[1] == 'isinstance':
                    nested = v
                elif k[0] == 'mcall' and k[2] == 'sanitize':
                    ok = v
                elif k[0] == 'cmp' and k[1] in ('!=', '==', '<', '>'):
                    removed = v if k[1] != '==' else (not v)
                elif k[0] not in ('forall', 'exists') and T.mentions(
                        k, lambda s: T.is_attr(s, 'required') or s[0] == 'post'):
                    removed = v
                if k[0] not in ('forall', 'exists', 'call') or (k[0] == 'call' and k[1] != 'isinstance'):
                    pre = T.mentions(k, lambda s: T.is_attr(s, 'required'))
                    post = T.mentions(k, lambda s: s[0] == 'post')
                    if post and not pre and k not in vac:
                        vac.add(k)
                        rep.fail(r4, "%s the test for `something was removed` looks at the state before the prune"
                                 % fn, fn, "`%s` is computed from the pruned set only (an alias of a set pruned in "
                                 "place is pruned too)" % T.show(k, 5)[:160],
                                 "the test can never see a removal: sanitize() returns True although requirements "
                                 "were dropped")
            subs = [s for s in T.subterms(ft) if s[0] == 'mcall' and s[2] == 'sanitize'] if ft is not None else []
            for okv in ([ok] if ok is not None else [True, False]):
                y = x
                if subs and ok is None:
                    y = x.assume(subs[0], okv)
                    if y is None:
                        continue
                from ..flow import truth
                fo = truth(ft, y)
                if fo is None:
                    fo = _count_truth(ft, y, okv)
                if fo is None:
                    rep.error(r4, "value of `%s` after one member not decidable: %s" % (flag, T.show(ft, 4)))
                    continue
                for rm in ([removed] if removed is not None else [True, False]):
                    for ns in ([nested] if nested is not None else [False, True]):
                        want = good(fin) and (not rm) and ((not ns) or okv is True)
                        nrows += 1
                        rep.check(good(fo) == want, r4,
                                  "%s result after a member (before:%s removed:%s nested:%s nested-ok:%s)"
                                  % (fn, "ok" if good(fin) else "changed", rm, ns, okv), fn,
                                  "after a member with removed=%s nested=%s nested-result=%s and previous state %s, "
                                  "sanitize() would return %s" % (rm, ns, okv, "fine" if good(fin) else "changed",
                                                                  good(fo)),
                                  "sanitize() must return True iff nothing had to be removed anywhere in the tree "
                                  "(here it must be %s)" % want)
        rep.need(r4, nrows, 6, "rows of the fold table")
        return
    rep.error(r4, "no boolean accumulator of the member loop determines the result of sanitize")


# ==================================================================== C17
def _str_literal(func, e):
    """the string an argument stands for: a literal, or a module-level name bound once to a string literal"""
    if isinstance(e, ast.Constant) and isinstance(e.value, str):
        return e.value
    if isinstance(e, ast.Attribute) and isinstance(e.value, ast.Name) and e.value.id in ('self', 'cls') and func.cls is not None:
        # a constant of the class (`_UPSTREAM = "required"` in the class body, never re-assigned)
        for k in func.cls.mro:
            defs = [n for n in k.node.body if isinstance(n, (ast.Assign, ast.AnnAssign)) and any(
                isinstance(t, ast.Name) and t.id == e.attr for t in (n.targets if isinstance(n, ast.Assign) else [n.target]))]
            if defs:
                d = defs[-1]
                if len(defs) == 1 and isinstance(d.value, ast.Constant) and isinstance(d.value.value, str):
                    return d.value.value
                return None
        return None
    if isinstance(e, ast.Name) and e.id not in func.params:
        if any(isinstance(n, ast.Name) and n.id == e.id and isinstance(n.ctx, ast.Store) for n in ast.walk(func.node)):
            return None
        defs = [n for n in func.module.tree.body if isinstance(n, (ast.Assign, ast.AnnAssign, ast.AugAssign))
                and any(isinstance(t, ast.Name) and t.id == e.id
                        for t in (n.targets if isinstance(n, ast.Assign) else [n.target]))]
        if len(defs) == 1 and isinstance(defs[0], (ast.Assign, ast.AnnAssign)) and isinstance(defs[0].value, ast.Constant) \
                and isinstance(defs[0].value.value, str):
            return defs[0].value.value
    return None


def _helper_roles(ctx):
    """step helper = the function reading getattr(<x>, <its parameter>); closure helper =
    the function that loops `while` around calls of the step helper"""
    r = ctx.roles
    step = clos = None
    for f in r.sched.methods.values():
        for n in walk_local(f.node):
            if isinstance(n, ast.Call) and dotted(n.func) == 'getattr' and len(n.args) >= 2 \
                    and isinstance(n.args[1], ast.Name) and n.args[1].id in f.params:
                step = (f, n.args[1].id)
    if step is None:
        # the relation parameter is not read (any more): the helper is still the private method that the
        # public queries call with the name of a relation, and that does not iterate to a fixpoint
        lits = {}
        for f in r.sched.methods.values():
            for n in walk_local(f.node):
                if isinstance(n, ast.Call) and isinstance(n.func, ast.Attribute) and isinstance(n.func.value, ast.Name) \
                        and n.func.value.id == 'self' and n.args and _str_literal(f, n.args[0]) is not None \
                        and n.func.attr in r.sched.methods:
                    lits.setdefault(n.func.attr, set()).add(_str_literal(f, n.args[0]))
        cands = [r.sched.methods[m] for m, v in lits.items() if len(v) >= 2
                 and not any(isinstance(n, ast.While) for n in walk_local(r.sched.methods[m].node))
                 and len(r.sched.methods[m].params) > 1]
        if len(cands) == 1:
            step = (cands[0], cands[0].params[1])
    if step is None:
        return None, None
    for f in r.sched.methods.values():
        if f is step[0]:
            continue
        has_while = any(isinstance(n, ast.While) for n in walk_local(f.node))
        calls = [n for n in walk_local(f.node) if isinstance(n, ast.Call) and isinstance(n.func, ast.Attribute)
                 and n.func.attr == step[0].name]
        if has_while and calls:
            clos = f
    return step, clos


def _literal_attr(ctx, func, helpers):
    """the string literal a public query passes as attribute name to a helper"""
    out = set()
    for n in walk_local(func.node):
        if isinstance(n, ast.Call) and isinstance(n.func, ast.Attribute) and n.func.attr in helpers \
                and n.args and _str_literal(func, n.args[0]) is not None:
            out.add((n.func.attr, _str_literal(func, n.args[0])))
    return out


def queries(ctx, rep, r1, r2, r3, r4, r5, r6):
    r = ctx.roles
    p = ctx.prog
    step, clos = _helper_roles(ctx)
    if step is None or clos is None:
        rep.error(r1, "neighbour helpers not recognised (a function reading getattr(x, <param>), and a "
                      "function looping `while` around it)")
        return
    stepf, attparam = step
    helpers = {stepf.name: 'step', clos.name: 'closure'}
    rev = r.reverse_attr
    table = {'predecessors': ('step', 'required'), 'successors': ('step', rev),
             'predecessors_upstream': ('closure', 'required'), 'successors_downstream': ('closure', rev)}
    # ---- R17.1 direction agreement
    n = 0
    for name, (kind, att) in table.items():
        f = p.supplier(r.sched, name)
        if f is None:
            rep.error(r1, "public query %s not found" % name)
            continue
        lits = _literal_attr(ctx, f, helpers)
        n += 1
        ok = lits == {(h, att) for h, k in helpers.items() if k == kind}
        rep.check(ok, r1, "%s uses the %s helper along `%s`" % (name, kind, att), f.qualname,
                  "%s calls %s" % (name, sorted(lits)),
                  "%s() follows the wrong relation (or only one step / the whole closure instead of the other)"
                  % name)
    rep.need(r1, n, 4, "direction queries")
    # the closure helper forwards its attribute parameter unchanged to the step helper
    cp = clos.params[1] if len(clos.params) > 1 else None
    for c in [x for x in walk_local(clos.node) if isinstance(x, ast.Call) and isinstance(x.func, ast.Attribute)
              and x.func.attr == stepf.name]:
        ok = c.args and isinstance(c.args[0], ast.Name) and c.args[0].id == cp
        rep.check(bool(ok), r1, "%s:%d closure follows the same relation as its step" % (clos.module.relpath, c.lineno),
                  clos.qualname, "`%s`" % src(c), "the closure mixes two relations")
    # ---- R17.2 freshness: reverse links rebuilt before they are read (unless opted out)
    m = 0
    for name in ('successors', 'successors_downstream', 'exit_jobs'):
        f = p.supplier(r.sched, name)
        if f is None:
            continue
        opt = [k for k in f.kwonly + f.params if 'backlink' in k or k.startswith('compute')]
        dflt = f.defaults()
        for k in opt:
            d = dflt.get(k)
            rep.check(isinstance(d, ast.Constant) and d.value is True, r2, "%s rebuilds by default" % name,
                      f.qualname, "parameter %s of %s defaults to %s" % (k, name, src(d) if d is not None else None),
                      "by default the query reads reverse links that may be stale after edits to the graph")
        binds = {k: T.TRUE for k in opt}
        an, ip, out = ctx.explore(f, model=GraphModel, bindings=binds, no_inline=(stepf.name, clos.name))
        reads = [e for e in an.events('READREV') if e.fr.func is not r.relation_builder]
        for e in reads:
            m += 1
            rep.check(e.data['built'], r2, "%s reverse links fresh when read in %s" % (e.where, name), f.qualname,
                      "`%s` reads job.%s on a path where the reverse links were not rebuilt"
                      % (src(stmt_of(e.node)), rev),
                      "after an edit of the graph (requires(), bypass, keep_only...) the query answers from stale "
                      "reverse links", trace(e.st))
    rep.need(r2, m, 2, "reads of the reverse links in public queries")
    # ---- R17.3 one step = union over all starts, members only
    _step_shape(ctx, rep, r3, stepf, attparam)
    # ---- R17.4 closure is the fixpoint of the step
    _closure_shape(ctx, rep, r4, clos, stepf)
    # ---- R17.5 yield conditions
    f = p.supplier(r.sched, 'entry_jobs')
    an, ip, out = ctx.explore(f, model=GraphModel)
    ys = an.events('YIELD')
    rep.need(r5, len(ys), 1, "yields of entry_jobs")
    for y in ys:
        v = y.data['val']
        req = T.mk(('attr', v, 'required'))
        conds = {k: b for k, b in y.st.facts.items() if T.contains(k, v) and k != MEMBERS}
        ok = v[0] == 'elem' and v[1] == MEMBERS and conds == {req: False}
        rep.check(ok, r5, "%s entry_jobs yields exactly the members without requirement" % y.where, f.qualname,
                  "yield of %s under %s" % (T.show(v, 3), [(T.show(k, 3), b) for k, b in conds.items()]),
                  "entry_jobs() misses an entry job or yields a job that has requirements", trace(y.st))
    lp = [n for n in walk_local(f.node) if isinstance(n, ast.For)]
    from ..flow import _may_stop_early
    for l in lp:
        rep.check(not _may_stop_early(l), r5, "%s:%d entry_jobs scans every member" % (f.module.relpath, l.lineno),
                  f.qualname, "the member loop of entry_jobs can stop early", "entry_jobs() misses entry jobs")
    f = p.supplier(r.sched, 'exit_jobs')
    kws = [k for k in f.kwonly + f.params[1:]]
    disc = [k for k in kws if 'forever' in k]
    for dval in (True, False):
        binds = {k: T.mk(('const', dval)) for k in disc}
        binds.update({k: T.TRUE for k in kws if 'backlink' in k})
        an, ip, out = ctx.explore(f, model=GraphModel, bindings=binds)
        ys = an.events('YIELD')
        rep.need(r5 + ":exit:%s" % dval, len(ys), 1, "yields of exit_jobs")
        for y in ys:
            v = y.data['val']
            succ = T.mk(('attr', v, rev))
            fv = T.mk(('attr', v, 'forever'))
            def atoms(t):
                if t[0] == 'boolop':
                    out_ = set()
                    for x in t[2]:
                        out_ |= atoms(x)
                    return out_
                if t[:2] == ('unop', 'not'):
                    return atoms(t[2])
                return {t}
            conds = {k: b for k, b in y.st.facts.items() if T.contains(k, v) and k != MEMBERS
                     and not (k[0] in ('boolop', 'unop') and atoms(k) <= {succ, fv})}
            want = {succ: False}
            if dval:
                want[fv] = False
            ok = v[0] == 'elem' and v[1] == MEMBERS and conds == want
            rep.check(ok, r5, "%s exit_jobs(discard_forever=%s) yields members nobody requires%s"
                      % (y.where, dval, ", forever ones left out" if dval else ""), f.qualname,
                      "yield of %s under %s" % (T.show(v, 3), [(T.show(k, 3), b) for k, b in conds.items()]),
                      "exit_jobs() is not `members that no member requires` (forever ones left out unless asked)",
                      trace(y.st))
    if not disc:
        rep.fail(r5, "exit_jobs has a discard_forever option", f.qualname, "no parameter about forever jobs",
                 "forever jobs cannot be left out / kept on request")
    # ---- R17.6 traversal siblings
    _traversal(ctx, rep, r6)


def _guards_of(node, stop):
    """the If tests between `node` and the enclosing statement `stop`, with polarity;
    plus `if c: continue` guards that precede it in the same block"""
    out = []
    n = node
    while n is not None and n is not stop:
        par = getattr(n, '_parent', None)
        if isinstance(par, ast.If):
            if n in par.body:
                out.append((par.test, True))
            elif n in par.orelse:
                out.append((par.test, False))
        if par is not None and hasattr(par, 'body') and isinstance(par.body, list) and n in par.body:
            for prev in par.body[:par.body.index(n)]:
                if isinstance(prev, ast.If) and prev.body and isinstance(prev.body[-1], (ast.Continue,)) \
                        and not prev.orelse:
                    out.append((prev.test, False))
        n = par
    # a conjunction that holds is each of its operands holding (and dually)
    flat = []
    work = list(out)
    while work:
        test, pol = work.pop(0)
        if isinstance(test, ast.UnaryOp) and isinstance(test.op, ast.Not):
            work.insert(0, (test.operand, not pol))
        elif isinstance(test, ast.BoolOp) and isinstance(test.op, ast.And if pol else ast.Or):
            work = [(v, pol) for v in test.values] + work
        else:
            flat.append((test, pol))
    return flat


def _step_shape(ctx, rep, rule, stepf, attparam):
    from ..flow import _may_stop_early
    fn = stepf.qualname
    va = stepf.vararg
    fors = [n for n in walk_local(stepf.node) if isinstance(n, ast.For)]
    outer = [l for l in fors if isinstance(l.iter, ast.Name) and l.iter.id == va]
    comp = [n for n in walk_local(stepf.node) if isinstance(n, (ast.SetComp, ast.ListComp, ast.GeneratorExp))]
    if not outer and not comp:
        rep.error(rule, "%s: no loop over the start jobs recognised" % fn)
        return
    if outer:
        o = outer[0]
        rep.check(not _may_stop_early(o), rule, "%s union over all the starts" % fn, fn,
                  "the loop over the start jobs can stop early (`break`/`return` inside)",
                  "with several start jobs only the neighbours of the first are returned")
        def _unsnap(e):
            while isinstance(e, ast.Call) and isinstance(e.func, ast.Name) and e.func.id in ('list', 'tuple') \
                    and len(e.args) == 1 and not e.keywords:
                e = e.args[0]
            return e
        inner = [l for l in ast.walk(o) if isinstance(l, ast.For) and l is not o
                 and isinstance(_unsnap(l.iter), ast.Call) and dotted(_unsnap(l.iter).func) == 'getattr']
        member_names = {'self.jobs'} | {n.targets[0].id for n in walk_local(stepf.node)
                                        if isinstance(n, ast.Assign) and len(n.targets) == 1
                                        and isinstance(n.targets[0], ast.Name) and dotted(n.value) == 'self.jobs'
                                        and sum(1 for m in walk_local(stepf.node) if isinstance(m, ast.Name)
                                                and m.id == n.targets[0].id and isinstance(m.ctx, ast.Store)) == 1}
        if not inner:
            bulk = [c for c in ast.walk(o) if isinstance(c, ast.Call) and isinstance(c.func, ast.Attribute)
                    and c.func.attr in ('update', 'extend') and c.args and isinstance(c.args[0], ast.Call)
                    and dotted(c.args[0].func) == 'getattr']
            if bulk:
                rep.fail(rule, "%s members only" % fn, fn,
                         "`%s` adds every neighbour without testing membership in self.jobs" % src(bulk[0]),
                         "jobs that are not members of this scheduler are returned (e.g. after a raw remove())")
                return
            # no explicit inner loop: the step is judged on the set-builder terms it returns (below)
            outer = []
            comp = comp or [o]
            inner = None
        i = inner[0] if inner else None
        if i is None:
            pass
        else:
          if True:
            ga = _unsnap(i.iter)
            ok = isinstance(ga.args[0], ast.Name) and isinstance(o.target, ast.Name) \
                and ga.args[0].id == o.target.id and isinstance(ga.args[1], ast.Name) \
                and ga.args[1].id == attparam
            rep.check(ok, rule, "%s neighbours read from the start job along the requested relation" % fn, fn,
                      "`%s`" % src(i.iter), "the step follows another relation than the one requested")
            rep.check(not _may_stop_early(i), rule, "%s every neighbour considered" % fn, fn,
                      "the loop over the neighbours can stop early", "some neighbours are missed")
            tgt = i.target.id if isinstance(i.target, ast.Name) else None
            adds = [c for c in ast.walk(i) if isinstance(c, ast.Call) and isinstance(c.func, ast.Attribute)
                    and c.func.attr == 'add' and c.args and isinstance(c.args[0], ast.Name) and c.args[0].id == tgt]
            rep.check(bool(adds), rule, "%s neighbours collected" % fn, fn, "no `<result>.add(<neighbour>)`",
                      "the step returns nothing")
            member_filter = False
            for a in adds:
                res = a.func.value.id if isinstance(a.func.value, ast.Name) else None
                for test, pol in _guards_of(a, i):
                    t = ast.unparse(test)
                    if isinstance(test, ast.Compare) and len(test.ops) == 1 and isinstance(test.left, ast.Name) \
                            and test.left.id == tgt:
                        right = ast.unparse(test.comparators[0])
                        isin = isinstance(test.ops[0], ast.In) == pol if isinstance(test.ops[0], (ast.In, ast.NotIn)) else None
                        if right in member_names and isin is True:
                            member_filter = True
                            continue
                        if right == res and isin is False:
                            continue
                    rep.fail(rule, "%s:%d neighbour kept only under an extra condition" % (stepf.module.relpath, a.lineno),
                             fn, "`%s` guarded by `%s` is %s" % (src(a), t, pol),
                             "some direct neighbours that are members are not returned")
            rep.check(member_filter, rule, "%s members only" % fn, fn,
                      "neighbours are collected without testing membership in self.jobs",
                      "jobs that are not members of this scheduler are returned")
    # the value returned, read as set-builder terms (the comprehension form, and what the collecting
    # loops fold into): {n for s in starts for n in getattr(s, att) if n in self.jobs}
    an, ip, out = ctx.explore(stepf, model=GraphModel)
    MEMB = T.mk(('attr', T.SELF, 'jobs'))
    ncomp = 0
    for st, val, node in out.ret:
        for c in T.subterms(val):
            if not (c[0] == 'comp' and isinstance(c[1], str) and len(c) == 4):
                continue
            elt, gens = c[2], c[3]
            if not (elt[0] == 'elem' and elt[1][0] == 'call' and elt[1][1] == 'getattr'):
                if comp and not outer:
                    rep.fail(rule, "%s collects the neighbours read with getattr" % ip.where(node), fn,
                             "collects %s" % T.show(elt, 4), "the step does not return the neighbours")
                continue
            ncomp += 1
            ga = elt[1][2]
            okrel = len(ga) == 2 and ga[1] == T.mk(('var', attparam)) and ga[0][0] == 'elem' \
                and ga[0][1] == T.mk(('var', va))
            rep.check(okrel, rule, "%s neighbours read from every start job along the requested relation"
                      % ip.where(node), fn, "reads %s" % T.show(elt[1], 4),
                      "the step follows another relation than the one requested, or not from the start jobs")
            member, extra = False, []
            for (_key, it, conds) in gens:
                todo = [(cd, True) for cd in conds]
                while todo:
                    cd, pol = todo.pop(0)
                    while cd[0] == 'unop' and cd[1] == 'not':
                        cd, pol = cd[2], not pol
                    if cd[0] == 'boolop' and cd[1] == ('and' if pol else 'or'):
                        todo = [(x, pol) for x in cd[2]] + todo
                        continue
                    if cd == ('unk', 'operand'):
                        continue        # an operand widened away (the set collected so far, nested in itself)
                    if cd[0] == 'cmp' and cd[1] in ('in', 'not in') and cd[2] == elt:
                        isin = (cd[1] == 'in') == pol
                        if cd[3] == MEMB and isin:
                            member = True
                            continue
                        if cd[3] != MEMB and not isin and cd[3][0] in ('union', 'unk', 'comp', 'var') \
                                and not (cd[3][0] == 'var' and cd[3][1] in list(stepf.params) + [stepf.vararg]):
                            continue       # "not yet collected" (a parameter is not the set being collected)
                    extra.append(cd)
            rep.check(member, rule, "%s members only (set-builder form)" % ip.where(node), fn,
                      "neighbours are collected without testing membership in self.jobs: %s" % T.show(c, 3)[:160],
                      "jobs that are not members of this scheduler are returned")
            rep.check(not extra, rule, "%s no further filter (set-builder form)" % ip.where(node), fn,
                      "extra condition(s): %s" % [T.show(x, 3) for x in extra][:3],
                      "some direct neighbours that are members are not returned")
    if comp and not outer:
        rep.need(rule, ncomp, 1, "set-builder terms returned by %s" % fn)


class ClosureModel(GraphModel):
    """GraphModel + additions to local collections, and whether the current pass of a while
    loop has added anything when the loop is left"""

    def on_call(self, ip, node, fterm, args, kws, st, fr):
        f = node.func
        name = None
        if isinstance(f, ast.Attribute) and isinstance(f.value, ast.Name) and f.attr in ('add', 'append') \
                and st.var(fr.fid, f.value.id) is not None and f.value.id != 'self' and args:
            if fr.depth == 0:
                name = f.value.id
            else:
                # inside a helper: the collection it was handed is the caller's named result set
                cur = st.var(fr.fid, f.value.id)
                named = [x for x in ([cur] + list(T.union_items(cur)) if cur[0] == 'union' else [cur])
                         if x[0] == 'coll']
                if named:
                    name = named[0][1]
        if name is not None:
            # (what the path knows about the element being added - and about the element of the result it was
            # reached from: a pass that skips some elements of the result is not a closure)
            elems = [c.elem for c in ip.loopctx if c.kind == 'for' and c.elem is not None]
            conds = tuple(sorted(((k, v) for k, v in st.facts.items()
                                  if (T.contains(k, args[0]) or any(T.contains(k, el) for el in elems))
                                  and not any(k == c.iter for c in ip.loopctx)), key=repr))
            self.ev(ip, 'LADD', node, st, fr, name=name, arg=args[0], conds=conds,
                    coll=st.var(fr.fid, f.value.id))
            st = st.set(added=True)
            # a local that holds the size the set had before this addition now holds an older, smaller size
            # (`size_before = len(result)` ... `if len(result) == size_before`)
            cur_len = T.mk(('call', 'len', (('coll', name),), ()))
            stale = [k for k, v in st.vars.items() if v == cur_len]
            if stale:
                vs = dict(st.vars)
                for k in stale:
                    vs[k] = T.mk(('oldlen', name))
                st = st._new(vars=vs)
            # fall through to the generic handling of the mutation, in the new state
            return ip.call_generic(node, fterm, args, kws, st, fr)
        return GraphModel.on_call(self, ip, node, fterm, args, kws, st, fr)

    def on_branch(self, ip, node, term, val, st, fr):
        if term[0] == 'cmp' and term[1] in ('==', '!=', '>', '<', '>=', '<='):
            a, b = term[2], term[3]
            for x, y, flip in ((a, b, False), (b, a, True)):
                ylen = y[2][0] if y[0] == 'call' and y[1] == 'len' and len(y[2]) == 1 else None
                named = T.mk(('coll', x[1])) if x[0] == 'oldlen' else None
                # (the current size of the named set - the set itself, or the set with what this pass added to it)
                wide = T.mk(('unk', x[1])) if x[0] == 'oldlen' else None       # (the same set, widened round the loop)
                if x[0] == 'oldlen' and ylen is not None and (ylen in (named, wide) or (
                        ylen[0] == 'union' and (named in ylen[1] or wide in ylen[1]))):
                    # old size < current size
                    op = term[1]
                    if flip:
                        op = {'>': '<', '<': '>', '>=': '<=', '<=': '>='}.get(op, op)
                    holds = {'==': False, '!=': True, '<': True, '<=': True, '>': False, '>=': False}[op]
                    if holds != val:
                        return None
        return GraphModel.on_branch(self, ip, node, term, val, st, fr)

    def _adding_helpers(self, node, fr):
        """(local name) handed, in `node`, to a helper of the class that adds to it in place"""
        from ..flow import _mutates_param
        out = set()
        for n in ast.walk(node):
            if isinstance(n, ast.Call) and isinstance(n.func, ast.Attribute) and isinstance(n.func.value, ast.Name) \
                    and n.func.value.id == 'self' and fr.func.cls is not None:
                g = self.prog.supplier(fr.func.cls, n.func.attr)
                if g is None:
                    continue
                ps = list(g.params)[0 if g.is_static else 1:]
                for pn, a in zip(ps, n.args):
                    if isinstance(a, ast.Name) and _mutates_param(g, pn):
                        out.add(a.id)
        return out

    def on_while_head(self, ip, ctx, st, fr):
        if ip.in_summary or fr.depth != 0:
            return st
        # the sets the loop adds to (itself, or through a helper it hands them to) are named, not expanded:
        # their own term would otherwise contain itself (elements of the result are computed from elements
        # of the result)
        names = {n.func.value.id for n in ast.walk(ctx.node)
                 if isinstance(n, ast.Call) and isinstance(n.func, ast.Attribute)
                 and n.func.attr in ('add', 'append') and isinstance(n.func.value, ast.Name)}
        names |= self._adding_helpers(ctx.node, fr)
        for nm in sorted(names):
            cur = st.var(fr.fid, nm)
            if cur is None:
                continue
            opaque = T.mk(('coll', nm))
            if not st.a('seeded'):
                self.ev(ip, 'SEED', ctx.node, st, fr, name=nm, value=cur)
            st = st.with_var(fr.fid, nm, opaque)
        st = st.set(seeded=True)
        if self._adding_helpers(ctx.node.test, fr):
            # the pass is made by the loop test itself: it starts here
            st = st.set(added=False, pass_in_test=True)
        return st

    def on_iter(self, ip, ctx, st, fr):
        if ctx.kind == 'while' and not ip.in_summary and not st.a('pass_in_test'):
            st = st.set(added=False)
        if ctx.kind == 'for' and not ip.in_summary and fr.depth == 0:
            self.ev(ip, 'PASSLOOP', ctx.node, st, fr, iter=ctx.iter,
                    in_while=any(c.kind == 'while' for c in ip.loopctx),
                    nested=sum(1 for c in ip.loopctx if c.kind == 'for'),
                    vars={k[1]: v for k, v in st.vars.items() if k[0] == fr.fid})
        return GraphModel.on_iter(self, ip, ctx, st, fr)

    def on_loop_exit(self, ip, ctx, st, fr):
        if ctx.kind == 'while' and not ip.in_summary:
            self.ev(ip, 'WEXIT', ctx.node, st, fr, added=st.a('added', False))
        return GraphModel.on_loop_exit(self, ip, ctx, st, fr)


def _closure_shape(ctx, rep, rule, clos, stepf):
    """R17.4, decided on the paths of the closure helper (the step helper kept symbolic):
    seeded with one step from all the starts; every element added to the result is a step from
    an element of the result; additions only guarded by `not yet in the result`; the loop is
    left only after a pass that added nothing; the result is what is returned."""
    fn = clos.qualname
    an, ip, out = ctx.explore(clos, model=ClosureModel, no_inline=(stepf.name,))
    att = T.mk(('var', clos.params[1])) if len(clos.params) > 1 else None
    starts = T.mk(('var', clos.vararg)) if clos.vararg else None

    def is_step(t, of=None):
        t = strip_coll(t)
        if not (t[0] == 'mcall' and t[1] == T.SELF and t[2] == stepf.name and len(t[3]) == 2 and t[3][0] == att):
            return False
        return of is None or t[3][1] == of
    adds = an.events('LADD')
    rep.need(rule, len(adds), 1, "additions to the closure")
    rets = [(st, v, n) for st, v, n in out.ret]
    rep.check(bool(rets), rule, "%s returns the closure" % fn, fn, "no return", "nothing is returned")
    results = {e.data['name'] for e in adds}
    rep.check(len(results) == 1, rule, "%s one result set" % fn, fn, "additions go to %s" % sorted(results),
              "the closure is spread over several sets")
    res = sorted(results)[0] if results else None
    # the seed: what the result holds when the loop is first entered
    seeds = {e.data['value'] for e in an.events('SEED') if e.data['name'] == res}
    C = T.mk(('coll', res))
    for sd in seeds:
        ok = is_step(sd, T.mk(('star', starts)))
        rep.check(ok, rule, "%s seeded with one step from all the starts" % fn, fn,
                  "the result starts as %s" % T.show(sd, 4),
                  "the closure contains the start jobs themselves (zero links), or misses the first step")
    rep.check(bool(seeds), rule, "%s has a seed" % fn, fn, "the result set has no initial content",
              "the closure is always empty")
    for e in adds:
        a = e.data['arg']
        # the added element is one step away from an element of the result
        ok = a[0] == 'elem' and is_step(a[1]) and strip_coll(a[1])[3][1][0] == 'elem'
        src_ok = False
        if ok:
            src_coll = strip_coll(strip_coll(a[1])[3][1][1])
            cur = e.data['coll']
            # the element comes from the result set as it is now, or as it was at the start of the pass
            src_ok = src_coll == C or src_coll == cur or C in T.union_items(src_coll)
        rep.check(ok and src_ok, rule, "%s each addition is one step from an element of the closure" % e.where, fn,
                  "`%s` adds %s" % (src(stmt_of(e.node)), T.show(a, 4)),
                  "the result is not closed under the step (or follows another relation)", trace(e.st))
        for k, v in e.data['conds']:
            okg = k[0] == 'cmp' and k[1] in ('in', 'not in') and k[2] == a and (v == (k[1] == 'not in'))
            rep.check(okg, rule, "%s addition guarded only by `not yet in the closure`" % e.where, fn,
                      "`%s` is %s" % (T.show(k, 3), v), "some reachable jobs are left out of the closure", trace(e.st))
    wex = an.events('WEXIT')
    rep.need(rule + ":exit", len(wex), 1, "exits of the closure loop")
    # the fixed point may be detected by comparing the size of the result with a snapshot taken before the pass
    snap = any(isinstance(n, ast.Compare) and len(n.ops) == 1 and any(
        isinstance(x, ast.Call) and isinstance(x.func, ast.Name) and x.func.id == 'len' for x in [n.left] + n.comparators)
        and any(isinstance(x, ast.Name) for x in [n.left] + n.comparators) for n in walk_local(clos.node))
    for e in wex:
        if e.data['added'] and snap:
            rep.error(rule, "%s: the loop is left on a comparison of sizes (`len(<result>)` against a snapshot) that this "
                      "rule could not follow on every path" % e.where)
            continue
        rep.check(not e.data['added'], rule, "%s loop left only after a pass that added nothing" % e.where, fn,
                  "the loop can be left right after a pass that added new jobs",
                  "jobs further than a fixed number of links away are missed: the closure is incomplete", trace(e.st))
    for st, v, n in rets:
        cur = st.var(T.mk(()), res) if res else None
        rep.check(cur is not None and (v == cur or v == C or C in T.union_items(v)), rule,
                  "%s returns the closure" % ip.where(n), fn,
                  "returns %s" % T.show(v, 3), "what is returned is not the computed closure", trace(st))


def _traversal(ctx, rep, rule):
    r = ctx.roles
    p = ctx.prog
    pub = p.supplier(r.sched, 'iterate_jobs')
    if pub is None:
        rep.error(rule, "iterate_jobs not found")
        return
    # the per-job hook: the method of the job base class that the public entry delegates to
    def hooks_of(g):
        return {n.func.attr for n in walk_local(g.node) if isinstance(n, ast.Call)
                and isinstance(n.func, ast.Attribute) and p.supplier(r.jobbase, n.func.attr) is not None
                and isinstance(getattr(n, '_parent', None), ast.YieldFrom)}
    hooks = hooks_of(pub)
    if not hooks:
        # the public entry hands over to a private generator of the class (`yield from self._walk(flag)`)
        for n in walk_local(pub.node):
            if isinstance(n, ast.Call) and isinstance(n.func, ast.Attribute) and isinstance(n.func.value, ast.Name) \
                    and n.func.value.id == 'self' and isinstance(getattr(n, '_parent', None), ast.YieldFrom):
                g = p.supplier(r.sched, n.func.attr)
                if g is not None and g is not pub:
                    hooks |= hooks_of(g)
    rep.check(len(hooks) == 1, rule, "iterate_jobs delegates to the per-job traversal hook", pub.qualname,
              "delegations found: %s" % sorted(hooks), "jobs of nested schedulers are not visited")
    if len(hooks) != 1:
        return
    hook = hooks.pop()
    impls = []
    for c in p.classes.values():
        if hook in c.methods:
            # (an implementation that only hands over to another one is that other one)
            f_ = p.effective_supplier(c, hook)
            if f_ is not None and not any(f_ is g for _c, g in impls):
                impls.append((f_.cls, f_))
    def returned_generator(f):
        """a hook that is not a generator itself but returns the generator another method of the class makes, its own
        parameters handed over unchanged (`return PureScheduler.iterate_jobs(self, scan_schedulers=scan_schedulers)`)"""
        from ..effects import callees_by_name
        if f.is_generator:
            return None
        rets = [n for n in walk_local(f.node) if isinstance(n, ast.Return)]
        if len(rets) != 1 or not isinstance(rets[0].value, ast.Call):
            return None
        c = rets[0].value
        args = [a.id if isinstance(a, ast.Name) else None for a in c.args] + \
            [k.value.id if isinstance(k.value, ast.Name) else None for k in c.keywords]
        if None in args or sorted(a for a in args if a != 'self') != sorted(x for x in f.params if x != 'self'):
            return None
        cs = [g for g in callees_by_name(p, f, c) if g.is_generator]
        return cs[0] if len(cs) == 1 else None
    impls = [(cls, returned_generator(f) or f) for cls, f in impls]
    seen_f = []
    impls = [(c_, f_) for c_, f_ in impls if not (f_ in seen_f or seen_f.append(f_))]
    # one implementation in an ancestor the job side and the scheduler side share (a mixin, driven by what each side
    # says about itself): it is read once as the hook of a job, once as the hook of a scheduler
    shared = [(c_, f_) for c_, f_ in impls if r.sched not in c_.mro and r.jobbase not in c_.mro
              and c_ in r.sched.mro and c_ in r.jobbase.mro]
    impls = [(c_, f_, None) for c_, f_ in impls if (c_, f_) not in shared]
    for c_, f_ in shared:
        impls += [(r.jobbase, f_, r.jobbase), (r.sched, f_, r.sched)] + [(n_, f_, n_) for n_ in r.nestable]
    for cls, f, as_cls in impls:
        an, ip, out = ctx.explore(f, model=GraphModel, self_cls=as_cls)
        ys = an.events('YIELD')
        container = r.sched in cls.mro
        site = "%s.%s" % (cls.name, hook)
        selfy = [y for y in ys if y.data['val'] == T.SELF]
        dele = [y for y in ys if y.data['val'][0] == 'star']
        if not container:
            rep.check(len({id(y.node) for y in selfy}) == 1 and not dele and
                      all(not [k for k in y.st.facts] for y in selfy), rule,
                      "%s yields the job itself, once, unconditionally" % site, f.qualname,
                      "yields: %s" % [(T.show(y.data['val'], 3), [(T.show(k, 2), v) for k, v in y.st.facts.items()])
                                      for y in ys],
                      "iterate_jobs() misses an atomic job or reports it twice")
        else:
            flag = f.params[1] if len(f.params) > 1 else None
            okself = bool(selfy) and all(y.st.facts.get(T.mk(('var', flag))) is True for y in selfy)
            rep.check(okself, rule, "%s yields the scheduler itself iff schedulers are requested" % site, f.qualname,
                      "self yielded under %s" % [[(T.show(k, 2), v) for k, v in y.st.facts.items()] for y in selfy],
                      "nested schedulers are (not) reported regardless of scan_schedulers")
            okd = False
            for y in dele:
                g = y.data['val'][1]
                if g[0] in ('gen', 'mcall') and (g[2] == hook if g[0] == 'mcall' else g[1].endswith('.' + hook)):
                    recv = g[1] if g[0] == 'mcall' else dict(g[2]).get('self')
                    if recv is not None and recv[0] == 'elem' and recv[1] == MEMBERS:
                        conds = [k for k in y.st.facts if T.contains(k, recv) and k != MEMBERS]
                        lp = [c for c in y.loops if c.elem == recv]
                        if g[0] == 'mcall':
                            passed = list(g[3]) + [v for _k, v in g[4]]
                        else:
                            passed = [v for k, v in g[2] if k != 'self']
                        fwd = flag is not None and T.mk(('var', flag)) in passed
                        if not conds and lp and not lp[0].conds and fwd:
                            okd = True
            rep.check(okd, rule, "%s delegates to every member's hook, forwarding the flag" % site, f.qualname,
                      "delegations: %s" % [T.show(y.data['val'], 4) for y in dele],
                      "jobs inside a nested scheduler are not all visited")
    nest_impl = [c for c, f, _a in impls if c in r.nestable or any(c in n.mro for n in r.nestable)]
    rep.check(bool(nest_impl), rule, "the nestable class overrides the traversal hook", "class " +
              ", ".join(c.name for c in r.nestable), "no override of %s in a nestable class" % hook,
              "a nested scheduler is visited as if it were an atomic job: its jobs are never reached")
    # the public entry: self iff requested, then every member's hook
    an, ip, out = ctx.explore(pub, model=GraphModel)
    ys = an.events('YIELD')
    dele = [y for y in ys if y.data['val'][0] == 'star']
    okd = any(y.data['val'][1][0] in ('mcall', 'gen') and not [k for k in y.st.facts
                                                                if k[0] != 'var' and k != MEMBERS and not k == T.mk(('var', pub.params[1] if len(pub.params) > 1 else ''))]
              for y in dele)
    pflag = T.mk(('var', pub.params[1])) if len(pub.params) > 1 else None
    def forwards(g):
        if g[0] == 'mcall':
            return pflag in list(g[3]) + [v for _k, v in g[4]]
        if g[0] == 'gen':
            return pflag in [v for _k, v in g[2]]
        return False
    okd = okd and any(forwards(y.data['val'][1]) for y in dele)
    rep.check(okd, rule, "iterate_jobs visits every member, forwarding the flag", pub.qualname,
              "delegations: %s" % [(T.show(y.data['val'], 3), [(T.show(k, 2), v) for k, v in y.st.facts.items()]) for y in dele],
              "some members are not visited")


# ==================================================================== C18
def _setalg(t):
    """method spellings of set algebra rewritten as operators: a.intersection(b) -> a & b"""
    if not isinstance(t, tuple) or not t:
        return t
    if t[0] == 'mcall' and t[2] == 'intersection' and len(t[3]) == 1 and not t[4]:
        return T.mk(('binop', 'BitAnd', _setalg(t[1]), _setalg(t[3][0])))
    if t[0] == 'union':
        return T.union(*[_setalg(x) for x in t[1]]) if t[1] else t
    if t[0] == 'binop':
        return T.mk(('binop', t[1], _setalg(t[2]), _setalg(t[3])))
    return t


def surgery(ctx, rep, r1, r2, r3):
    r = ctx.roles
    p = ctx.prog
    JOB = T.mk(('var', 'job'))
    # ---------------- keep_only / keep_only_between: closedness restored, documented set terms
    for name in ('keep_only', 'keep_only_between'):
        f = p.supplier(r.sched, name)
        if f is None:
            rep.error(r1, "%s not found" % name)
            continue
        an, ip, out = ctx.explore(f, model=GraphModel)
        fn = f.qualname
        stores = [e for e in an.events('STORE') if e.data['attr'] == 'jobs' and e.data['obj'] == T.SELF]
        for e in stores:
            e.data['val'] = _setalg(e.data['val'])
        # `self.jobs.intersection_update(X)` is `self.jobs &= X`
        for e in an.events('MUT'):
            if e.data['attr'] == 'jobs' and e.data['obj'] == T.SELF and e.data['how'] == 'intersection_update' \
                    and len(e.data['args']) == 1:
                e.data['val'] = T.mk(('binop', 'BitAnd', MEMBERS, _setalg(e.data['args'][0])))
                stores.append(e)
        if name == 'keep_only_between':
            # delegation: `self.keep_only(X)` narrows the member set to X - and sanitizes on the spot
            for e in an.events('CALL'):
                if e.data['meth'] == 'keep_only' and e.data['recv'] == T.SELF and len(e.data['args']) == 1:
                    e.data['val'] = _setalg(e.data['args'][0])
                    stores.append(e)
                    later = [m for m in an.events('MUT') if m.data['attr'] == 'jobs' and m.data['obj'] == T.SELF
                             and m.node.lineno > e.node.lineno] + \
                            [c for c in an.events('CALL') if c.data['recv'] == T.SELF and c.data['meth'] in ('update', 'add')
                             and c.node.lineno > e.node.lineno]
                    rep.check(not later, r1, "%s sanitizes only once the member set is final" % fn, fn,
                              "`%s` sanitizes the scheduler, and members are added back afterwards (%s)"
                              % (src(e.node)[:80], ", ".join(sorted({"`%s`" % src(x.node)[:50] for x in later}))),
                              "while the milestones are out, sanitize() strips the kept jobs of their requirements on "
                              "them: orderings between kept jobs are lost")
        rep.need(r3 + ":" + name, len(stores), 1, "stores to the member set")
        if not stores:
            continue
        sani = [e for e in an.events('CALL') if e.data['meth'] == 'sanitize' and e.data['recv'] == T.SELF]
        # sanitize post-dominates the narrowing: every normal end was preceded by it
        narrowed_lines = {e.node.lineno for e in stores}
        for st in out.nxt + [x[0] for x in out.ret]:
            tr = [t for t in st.trace]
            rep.check(bool(sani) and all(s.node.lineno > max(narrowed_lines) for s in sani[-1:]), r1,
                      "%s sanitizes after narrowing the member set" % fn, fn,
                      "no call of self.sanitize() after the last store to self.jobs",
                      "kept jobs still require dropped jobs: the scheduler is no longer closed and cannot run")
        if name == 'keep_only':
            prm = f.params[1] if len(f.params) > 1 else None
            P = T.mk(('var', prm))
            for e in stores:
                v = e.data['val']
                ok = v[0] == 'binop' and v[1] == 'BitAnd' and MEMBERS in (v[2], v[3]) and \
                    strip_coll([x for x in (v[2], v[3]) if x != MEMBERS][0] if MEMBERS in (v[2], v[3]) else v) == P
                rep.check(ok, r3, "%s keeps exactly the members mentioned" % e.where, fn,
                          "self.jobs becomes %s" % T.show(v, 4),
                          "keep_only(R) does not keep exactly the members of R")
        else:
            # the milestone sets, found by what is done with them (not by the names of locals):
            # S is what gets added back under keep_starts, E under keep_ends
            ups0 = [e for e in an.events('CALL') if e.data['meth'] == 'update' and e.data['recv'] != T.SELF
                    and e.data['args']]
            # (milestones may also be added back to the member set itself, once it has been narrowed)
            ups0 += [e for e in an.events('MUT') if e.data['attr'] == 'jobs' and e.data['obj'] == T.SELF
                     and e.data['how'] == 'update' and e.data['args']]
            ups0 += [e for e in an.events('CALL') if e.data['meth'] == 'update' and e.data['recv'] == T.SELF
                     and e.data['args']]
            S_all = {e.data['args'][0] for e in ups0 if e.st.facts.get(T.mk(('var', 'keep_starts'))) is True}
            E_all = {e.data['args'][0] for e in ups0 if e.st.facts.get(T.mk(('var', 'keep_ends'))) is True}

            def side(term, meth, arg):
                if term == MEMBERS:
                    return 'all'
                if term[0] == 'mcall' and term[1] == T.SELF and term[2] == meth and len(term[3]) == 1 \
                        and term[3][0][0] == 'star' and (term[3][0][1] == arg or term[3][0][1] in
                                                         (S_all if meth == 'successors_downstream' else E_all)):
                    ms = term[3][0][1]
                    # the milestones are the caller's: a set filled in from the graph itself when the caller gave none
                    # (`starts or set(self.entry_jobs())`) is another constraint than "no constraint"
                    if T.mentions(ms, lambda x: x[0] == 'gen' or (x[0] == 'mcall' and x[1] == T.SELF)):
                        foreign.append(ms)
                    return 'closure'
                return None
            foreign = []
            dn = {x[3][0][1] for ev_ in an.log for val_ in ev_.data.values() if isinstance(val_, tuple)
                  for x in T.subterms(val_)
                  if len(x) == 5 and x[0] == 'mcall' and x[2] == 'successors_downstream' and x[3] and x[3][0][0] == 'star'}
            un = {x[3][0][1] for ev_ in an.log for val_ in ev_.data.values() if isinstance(val_, tuple)
                  for x in T.subterms(val_)
                  if len(x) == 5 and x[0] == 'mcall' and x[2] == 'predecessors_upstream' and x[3] and x[3][0][0] == 'star'}
            for e in stores:
                v = e.data['val']
                items = T.union_items(v)
                core = [i for i in items if i[0] == 'binop' and i[1] == 'BitAnd']
                ok = len(core) == 1
                why = "self.jobs becomes %s" % T.show(v, 5)
                if ok:
                    c = core[0]

                    def kind(term):
                        if term == MEMBERS:
                            return 'all', None
                        if term[0] == 'mcall' and term[1] == T.SELF and len(term[3]) == 1 and term[3][0][0] == 'star':
                            if term[2] == 'successors_downstream':
                                return 'down', term[3][0][1]
                            if term[2] == 'predecessors_upstream':
                                return 'up', term[3][0][1]
                        return None, None
                    (k1, a1), (k2, a2) = kind(c[2]), kind(c[3])
                    ok = k1 is not None and k2 is not None and not (k1 == k2 and k1 != 'all')
                    if ok:
                        down = a1 if k1 == 'down' else a2 if k2 == 'down' else None
                        up = a1 if k1 == 'up' else a2 if k2 == 'up' else None
                        # a closure is taken only from a non-empty milestone set, the full member set
                        # only when the milestone set is empty
                        if down is not None and e.st.known(down) is False:
                            ok = False
                        if up is not None and e.st.known(up) is False:
                            ok = False
                        if down is None and any(e.st.known(x) is True for x in S_all):
                            ok, why = False, why + " although starts are given"
                        if up is None and any(e.st.known(x) is True for x in E_all):
                            ok, why = False, why + " although ends are given"
                        # downstream is computed from the starts, upstream from the ends
                        if down is not None and S_all and down not in S_all:
                            ok, why = False, why + " (downstream of something that is not the starts)"
                        if up is not None and E_all and up not in E_all:
                            ok, why = False, why + " (upstream of something that is not the ends)"
                    rest = set(items) - set(core)
                    ok = ok and rest <= (S_all | E_all)
                rep.check(ok, r3, "%s member set = downstream(starts) & upstream(ends) (+starts, +ends)" % e.where, fn, why,
                          "keep_only_between keeps another subset than the documented one", trace(e.st))
            foreign += [ms for ms in sorted(dn | un, key=repr)
                        if any(x[0] == 'gen' or (x[0] == 'mcall' and x[1] == T.SELF) for x in T.subterms(ms))]
            for ms in foreign[:1]:
                rep.fail(r3, "%s milestones are what the caller gave" % fn, fn,
                         "the closure is taken from %s" % T.show(ms, 4)[:140],
                         "an omitted (or empty) `starts` / `ends` means no constraint on that side: replacing it by "
                         "the entry / exit jobs keeps another subset (an unrelated entry job kept, forever jobs "
                         "dropped, the keep flags applied to jobs the caller never named)")
            seen = set()
            for e in ups0:
                a = e.data['args'][0]
                ks = e.st.facts.get(T.mk(('var', 'keep_starts')))
                ke = e.st.facts.get(T.mk(('var', 'keep_ends')))
                empty = e.st.known(a) is False or a == T.mk(('call', 'set', (('union', frozenset()),), ()))
                ok = True
                if ks is True:
                    seen.add('starts')
                    ok = a in dn or (empty and a not in un) or (not dn and a not in un)
                elif ke is True:
                    seen.add('ends')
                    ok = a in un or (empty and a not in dn) or (not un and a not in dn)
                else:
                    ok = False
                rep.check(ok, r3, "%s milestones added back under their own flag" % e.where, fn,
                          "`%s` with keep_starts=%s keep_ends=%s" % (src(stmt_of(e.node)), ks, ke),
                          "keep_starts / keep_ends add back the wrong milestones", trace(e.st))
            rep.check(seen == {'starts', 'ends'}, r3, "%s both keep flags honoured" % fn, fn,
                      "milestones added back: %s" % sorted(seen), "a keep flag has no effect")
    # ---------------- bypass_and_remove
    f = p.supplier(r.sched, 'bypass_and_remove')
    if f is None:
        rep.error(r2, "bypass_and_remove not found")
        return
    an, ip, out = ctx.explore(f, model=GraphModel)
    fn = f.qualname
    prm = f.params[1]
    J = T.mk(('var', prm))
    notin = T.mk(('cmp', 'not in', J, MEMBERS))
    isin = T.mk(('cmp', 'in', J, MEMBERS))
    raises = an.events('RAISE')
    okr = any(e.data['exc'][1] == 'ValueError' and (e.st.facts.get(notin) is True or e.st.facts.get(isin) is False)
              for e in raises)
    rep.check(okr, r2, "%s refuses a job that is not a member" % fn, fn,
              "no `raise ValueError` under `job not in self.jobs`",
              "bypassing a non-member silently rewires requirements")
    muts = an.events('MUT') + [e for e in an.events('STORE') if e.data['attr'] in ('jobs', 'required')]
    calls = [e for e in an.events('CALL') if e.data['meth'] in ('requires', '_add_one_requirement')]
    for e in muts + calls:
        guarded = e.st.facts.get(notin) is False or e.st.facts.get(isin) is True
        rep.check(guarded, r2, "%s no mutation before the membership test" % e.where, fn,
                  "`%s` reachable without the membership test" % src(stmt_of(e.node)),
                  "a refused bypass has already modified the graph", trace(e.st))
    DOWN = None
    for e in calls:
        recv = e.data['recv']
        if recv[0] == 'elem':
            DOWN = recv[1]
    if calls and (DOWN is None or any(e.data['recv'][0] != 'elem' or (e.data['args'] and e.data['args'][0][0] != 'elem')
                                     for e in calls)):
        # the re-linking does not range over two recognisable collections (pairs taken from a product, a table
        # ...): this rule cannot read it - neither accepted nor refuted
        rep.error(r2, "%s: re-linking `%s` is not a loop nest over (upstreams x downstreams) that this rule can read"
                  % (fn, src(stmt_of(calls[0].node))[:80]))
        return
    okdown = False
    if DOWN is not None:
        c = strip_coll(DOWN)
        if c[0] == 'comp' and len(c[3]) == 1 and strip_coll(c[3][0][1]) == MEMBERS:
            el = T.mk(('elem', c[3][0][1], c[3][0][0]))
            okdown = c[2] == el and list(c[3][0][2]) == [T.mk(('cmp', 'in', J, ('attr', el, 'required')))]
    rep.check(okdown, r2, "%s downstreams = members that require the job" % fn, fn,
              "relinking ranges over %s" % (T.show(DOWN, 4) if DOWN is not None else None),
              "some jobs that required the bypassed job are not re-linked")
    UP = T.mk(('attr', J, 'required'))
    rep.need(r2, len(calls), 1, "relinking calls")
    for e in calls:
        recv = e.data['recv']
        arg = e.data['args'][0] if e.data['args'] else None
        ok = recv[0] == 'elem' and recv[1] == DOWN and arg is not None and arg[0] == 'elem' and strip_coll(arg[1]) == UP \
            and not any(c.conds for c in e.loops)
        conds = [k for k, v in e.st.facts.items() if (T.contains(k, recv) or (arg is not None and T.contains(k, arg)))
                 and k not in (DOWN, UP, arg[1] if arg is not None and arg[0] == 'elem' else None)]
        rep.check(ok and not conds, r2, "%s every downstream requires every upstream" % e.where, fn,
                  "`%s`: %s.requires(%s)%s" % (src(stmt_of(e.node)), T.show(recv, 3), T.show(arg, 3) if arg is not None else None,
                                               " under %s" % [T.show(c, 3) for c in conds] if conds else ""),
                  "a path through the bypassed job is not re-linked (or is re-linked backwards)", trace(e.st))
        from ..flow import _may_stop_early
        for c in e.loops:
            if c.kind == 'for':
                rep.check(not _may_stop_early(c.node), r2, "%s:%d relinking loop runs to its end"
                          % (f.module.relpath, c.node.lineno), fn, "loop `for %s in %s` can stop early"
                          % (src(c.node.target), src(c.node.iter)), "some paths through the job are not re-linked")
    rem_req = [e for e in an.events('MUT') if e.data['attr'] == 'required' and e.data['how'] in ('remove', 'discard')]
    okrem = any(e.data['obj'][0] == 'elem' and e.data['obj'][1] == DOWN and e.data['args'] == (J,)
                and not e.data['conds'] for e in rem_req)
    rep.check(okrem, r1, "%s the job is dropped from the requirements of its downstreams" % fn, fn,
              "removals from `required`: %s" % [(T.show(e.data['obj'], 3), [T.show(a, 2) for a in e.data['args']]) for e in rem_req],
              "remaining jobs still require the removed job: the scheduler is no longer closed")
    rem_job = [e for e in an.events('MUT') if e.data['attr'] == 'jobs' and e.data['obj'] == T.SELF]
    okj = any(e.data['how'] in ('remove', 'discard') and e.data['args'] == (J,) for e in rem_job)
    if not okj:
        # ... or through the public `remove()` of the class, when that is what it does
        rm = p.supplier(r.sched, 'remove')
        does = rm is not None and len(rm.params) > 1 and any(
            isinstance(n, ast.Call) and dotted(n.func) in ('self.jobs.remove', 'self.jobs.discard') and len(n.args) == 1
            and isinstance(n.args[0], ast.Name) and n.args[0].id == rm.params[1] for n in walk_local(rm.node))
        okj = does and any(e.data['meth'] == 'remove' and e.data['recv'] == T.SELF and e.data['args'] == (J,)
                           for e in an.events('CALL'))
    rep.check(okj, r2, "%s the job leaves the member set" % fn, fn,
              "mutations of self.jobs: %s" % [(e.data['how'], [T.show(a, 2) for a in e.data['args']]) for e in rem_job],
              "the bypassed job is still a member")
    for e in an.events('MUT'):
        if e.data['how'] in ('remove', 'discard', 'clear', 'difference_update', 'intersection_update'):
            legit = (e.data['attr'] == 'jobs' and e.data['obj'] == T.SELF and e.data['args'] == (J,)) or \
                    (e.data['attr'] == 'required' and e.data['args'] == (J,))
            rep.check(legit, r2, "%s nothing else is removed" % e.where, fn,
                      "`%s`" % src(stmt_of(e.node)), "bypass_and_remove removes more than the job and its edges",
                      trace(e.st))
    # the raw remove() is the documented low-level operation: exempt, with that reason
    rep.note("PureScheduler.remove is the documented raw set operation (no sanitize): exempt from R18.1")
