"""C01 -- a job never starts before every one of its requirements has finished."""

from . import buildrules, common, runrules, predicates, shutrules

from . import graphrules


def check(ctx, rep):
    rep.explanation = (
        "R01.1 who-may-start: every co_run call site of the package is one of the guarded/windowed forms. "
        "R01.2 guarded start: on every path of the run (path-sensitive abstract interpretation, helpers "
        "inlined) each task creation either ranges over the members filtered by `not required` before any "
        "wait, or its path condition contains the fold-classified fact `for all r in job.required: "
        "r.is_done()` for the very job being started. R01.3 truth table of is_done over the task "
        "life-cycle domain: true exactly on finished tasks (returned or raised). R01.4 the body is awaited "
        "inside its own task; the nested form returns only after the awaited inherited run. R01.5 `done` speaks "
        "about this run: the task registry of every member (nested schedulers included) is reset before the "
        "first start and written only by the start path. R01.6 of the job's mutable state is_done() reads only "
        "that registry (any other attribute it reads is constructor-only, or reset with the registry). R01.7 a subclass constructor hands on every parameter it shares with its parent constructor (e.g. `required=` of a nested scheduler). R01.8 (= R19.1-R19.5) the requirement edges a run obeys are those the construction API documents (sequence chains included). R01.9 (= R05.4) a tidy cancels and then awaits without bound: the run of a nested scheduler is over only when its jobs are. R01.10 (= R11.2) the same when that run is cancelled: no exit of a nested run, CancelledError edges included, leaves one of its job tasks alive - a job requiring the nested scheduler would start while jobs of it still run. R01.11 (= R19.9) a sequence never drops a requirement it was given, and keeps it as given while it is empty. R01.12 (= R18.1-3) the graph surgery (keep_only, keep_only_between, bypass_and_remove) sanitizes only once the member set is final and re-links what it removes: a requirement between two kept jobs is never dropped on the way.")
    rep.declined = ["asyncio's own semantics (T1-T3)"]
    rep.trusted = ["T1 asyncio.wait partitions its argument", "T2 create_task does not run the coroutine synchronously",
                   "T5 Task._state/_exception/_result meaning", "T8 Python MRO and short-circuit semantics"]
    common.who_may_start(ctx, rep, "R01.1")
    runrules.guarded_start(ctx, rep, "R01.2")
    predicates.is_done_table(ctx, rep, "R01.3")
    common.nested_awaits_run(ctx, rep, "R01.4")
    predicates.writers_monotone(ctx, rep, "R01.5")
    predicates.done_depends_on_registry_only(ctx, rep, "R01.6")
    predicates.constructor_forwarding(ctx, rep, "R01.7")
    buildrules.construction(ctx, rep, "R01.8a", "R01.8b", "R01.8c", "R01.8", "R01.8e")
    runrules.tidy_shape(ctx, rep, "R01.9")
    shutrules.cancellation_edges(ctx, rep, "R01.10")
    buildrules.sequence_keeps_requirements(ctx, rep, "R01.11")
    graphrules.surgery(ctx, rep, "R01.12", "R01.12", "R01.12")
