"""C07 -- a window of N is never exceeded, and is scoped to its own scheduler."""

from . import predicates, common


def check(ctx, rep):
    rep.explanation = (
        "Typestate analysis of the window wrapper (Free/Held over every path, including "
        "CancelledError and job-exception edges): the job body and the running flag only while a "
        "slot is held, release only if held, no double acquire (R07.1); the acquire is an awaited "
        "put on a queue whose maxsize is the window size, None mapped to unbounded (R07.2); the run "
        "builds exactly one window per activation from its own jobs_window and every start goes "
        "through it (R07.3); no job body is started anywhere else in the package (R07.4). "
        "Decides the safety clause; asyncio.Queue's own bound is trusted (T4). R07.5 `jobs_window` is what the caller gave.")
    rep.declined = ["asyncio.Queue(maxsize=n) really blocks the n+1-th put (T4, trusted)"]
    rep.trusted = ["T3 cancellation is delivered at suspension points only", "T4 asyncio.Queue semantics",
                   "T9 user job code does not touch scheduler-private state"]
    common.wrap_typestate(ctx, rep, "R07.1")
    common.wrap_acquire_real(ctx, rep, "R07.2")
    common.window_scope(ctx, rep, "R07.3")
    common.who_may_start(ctx, rep, "R07.4")
    predicates.config_verbatim(ctx, rep, "R07.5", ('jobs_window',))
