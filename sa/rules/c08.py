"""C08 -- timeout bounds the run."""

from . import common, predicates, runrules, shutrules


def check(ctx, rep):
    rep.explanation = (
        "R08.1 the deadline is stored once per activation, before the loop, as clock() + this scheduler's own "
        "timeout, and never between two main waits; every main wait's timeout is deadline - clock() with the "
        "same clock. R08.2 every main wait is armed. R08.3 expiry branch = EXIT automaton Live -> Tidied -> "
        "Shut -> return False with the timeout cause recorded; nothing starts afterwards. R08.6 `timeout` is what the caller gave. R08.7 (= R07.1) the wrapper releases a slot only if it holds one, on the cancellation path too: a job cancelled while queued must not take a slot away, or the tidy at expiry never ends. R08.8 the helper that records the deadline of a phase stores it on every path (None included): the shutdown phase never inherits the deadline of the run.")
    rep.declined = ["behaviour exactly at T and one loop iteration around it; clock quality"]
    rep.trusted = ["T1 empty done set iff the timeout fired"]
    runrules.deadline(ctx, rep, "R08.1", "R08.2")
    runrules.exit_discipline(ctx, rep, "R08.3", "R08.3", "R08.3", causes=('expired',))
    runrules.tidy_shape(ctx, rep, "R08.3t")
    shutrules.cancellation_edges(ctx, rep, "R08.5", prompt=True)
    predicates.config_verbatim(ctx, rep, "R08.6", ('timeout',))
    common.wrap_typestate(ctx, rep, "R08.7")
    runrules.deadline_always_stored(ctx, rep, "R08.8")
