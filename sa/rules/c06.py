"""C06 -- non-critical failures are contained: the rest of the run is unaffected."""

from . import common, runrules, predicates, taint, nested


def check(ctx, rep):
    rep.explanation = (
        "The relational clause (same jobs, same times, same results) is declined. Decided: non-interference. "
        "R06.1 every read of a done task's outcome (_exception, raised_exception(), exception(), result()) "
        "that can reach a scheduling decision (start, wait argument, completion counter, candidate set, "
        "tidy/shutdown/return) does so only inside the exact masked form `raised and critical` of the abort "
        "test; reads that flow into finished-only tidying or feedback are effect-free. R06.2 the window "
        "wrapper reaches the same slot state on its normal and exceptional exits. R06.3 failed jobs are "
        "counted and release their successors (counter and candidate set range over all done tasks). R06.4 "
        "the exception stays retrievable: the registry is never overwritten or cleared after a start. R06.5 what a "
        "critical nested scheduler re-raises is the exception of a *critical* member only (a contained failure never "
        "changes which exception bubbles up). R06.6 the feedback/diagnostic code reached from the run cannot raise "
        "on a job's outcome (no first/last subscript of a possibly empty sequence, no raise). R06.7 (= R02.6) raised_exception(), which the run reads to tell a failure, is the exception of the job's own task for atomic jobs and nested schedulers alike. R06.8 = R05.9. R06.9 (= R14.3) the wrapper neither swallows nor replaces a job's exception: it stays retrievable. R06.10 (= R05.1) the run aborts exactly when some job of the batch raised and is critical (exists-fold over the done set): a tolerated failure completing in the same instant does not mask a critical one, nor the reverse. R06.11 (= R09.8) the window closes exactly when the last member that does not run forever has completed - returned or raised, counted at its completion and only then: no job starts after the end of the run, none is held back before it. R06.12 failed_time_out(), failed_critical() and why() read what the run recorded about itself, never what a job returned or raised.")
    rep.declined = ["equality of the timed traces of two runs (relational over executions)"]
    rep.trusted = ["T1", "T5", "cancelling or gathering an already finished task changes nothing"]
    taint.outcome_reads_masked(ctx, rep, "R06.1")
    common.wrap_exits(ctx, rep, "R06.2", "a raising job does not give its slot back, a returning one does")
    runrules.success_accounting(ctx, rep, "R06.3")
    runrules.eager(ctx, rep, "R06.3e", "R06.3", "R06.3b", "R06.3g")
    predicates.is_done_table(ctx, rep, "R06.3d")
    predicates.writers_monotone(ctx, rep, "R06.4")
    nested.critical_mapping(ctx, rep, "R06.5")
    taint.feedback_cannot_raise(ctx, rep, "R06.6")
    predicates.outcome_tables(ctx, rep, "R06.7", names=("raised_exception",))
    predicates.config_verbatim(ctx, rep, "R06.8", ('critical',))
    predicates.identity_flow(ctx, rep, "R06.9")
    runrules.detection_exact(ctx, rep, "R06.10")
    common.window_gate(ctx, rep, "R06.11", "endofrun")
    taint.diagnosis_reads_flags_only(ctx, rep, "R06.12")
