"""C14 -- job results and life-cycle predicates tell the truth."""

from . import shutrules, common, predicates


def check(ctx, rep):
    rep.explanation = (
        "R14.1 truth tables: is_idle / is_scheduled / is_running / is_done / raised_exception / result are "
        "evaluated abstractly on the 7 reachable points of the life-cycle domain (task in {None, pending, "
        "finished-ok, finished-exc, cancelled} x running flag) for the job base class and the nestable class, "
        "and compared row by row with the table the property states. R14.2 writers: the task registry is "
        "stored only by the start path (and reset only before the first start), the running flag is stored "
        "True only in the window wrapper while the slot is held and never reset, hence is_done => is_running "
        "=> is_scheduled and nothing reverts. R14.3 identity: the wrapper returns the awaited body's value "
        "unchanged and never replaces its exception; the coroutine-based job returns the awaited value. R14.4 a cancelled nested scheduler ends cancelled (never by a return): a cancelled job is never reported done. R14.5 (= R01.1) every job body, nested schedulers included, is started through the window wrapper, the only place that sets the running flag: a job cannot be done without having been running. R14.6 once the body has finished nothing in the wrapper suspends before it ends (giving the slot back does not: T4): the job is reported done at the first quiescent point after its body ended, and no cancellation can turn a completed job into a cancelled one.")
    rep.trusted = ["T5 Task._state/_exception/_result (constant read from the stdlib source)", "T8"]
    predicates.lifecycle_tables(ctx, rep, "R14.1")
    predicates.writers_monotone(ctx, rep, "R14.2")
    common.wrap_typestate(ctx, rep, "R14.2w")
    predicates.identity_flow(ctx, rep, "R14.3")
    shutrules.cancellation_propagates(ctx, rep, "R14.4")
    common.who_may_start(ctx, rep, "R14.5")
    common.no_suspension_after_body(ctx, rep, "R14.6")
