"""C19 -- the construction API builds exactly the documented requirement edges."""

from . import buildrules


def check(ctx, rep):
    rep.explanation = (
        "R19.1 chain invariant agreed by all writers of Sequence.jobs (sibling rule): every function that assigns "
        "or extends the list links all consecutive new jobs, later requires earlier, and when extending links the "
        "first new job to the previous last one. R19.2 (deviance rule) every x[0] / x[-1] of a flattened list is "
        "dominated by a non-emptiness test of that very list. R19.3 in requires(), on every path to a store into "
        "self.required an add has path condition `not remove`, a removal `remove` and uses set.remove (KeyError); "
        "every dispatch branch does both; recursive calls forward remove. R19.4 a sequence contributes its last "
        "job, required= goes to the first, the add is guarded by `is not self`, None is skipped before dispatch. "
        "R19.5 scheduler=, add(), update(), Sequence registration all reach the member-set update with the "
        "flattened list. R19.8 who may write the relation: every construct that can change a `required` set "
        "(mutator call, augmented or plain assignment, del, setattr, through a local alias too) sits in "
        "requires(), the job constructor, sanitize() or bypass_and_remove(), or in a private helper only they call. R19.9 a sequence never drops a requirement: "
        "on every path of its constructor and of its requires(), what was given is handed to a job's requires() or "
        "kept in the object, and append() hands what was kept to the first job of a sequence that was empty. R19.10 (= R20.6) no class-level mutable object is mutated through an instance (state shared by every sequence / job). "
        "R19.11 no live iteration while removing: a loop of requires() (or of a helper or generator it runs) whose body can remove from "
        "self.required iterates the varargs tuple, a snapshot (list(x), tuple(x), x.copy()), another attribute or a name an isinstance guard "
        "shows not to be a set - never an argument that may be self.required itself. R19.12 sanitize() and bypass_and_remove(), which delete requirement edges wholesale, are called only by the documented graph surgery (keep_only, keep_only_between, themselves): never by add / update / remove, by a sequence, by requires() or by the run.")
    rep.trusted = ["T8 set/list semantics"]
    buildrules.construction(ctx, rep, "R19.1", "R19.2", "R19.3", "R19.4", "R19.5")
    from . import common
    p, r = ctx.prog, ctx.roles
    funcs = [p.supplier(r.jobbase, 'requires'), p.supplier(r.jobbase, '_add_one_requirement'),
             p.supplier(r.sched, 'update'), p.supplier(r.sched, 'add')] + \
        (list(r.sequence.methods.values()) if r.sequence else [])
    common.job_truthiness(ctx, rep, "R19.6", funcs)
    common.no_state_across_calls(ctx, rep, "R19.7", funcs)
    buildrules.relation_writers(ctx, rep, "R19.8")
    buildrules.sequence_keeps_requirements(ctx, rep, "R19.9")
    common.no_shared_class_state(ctx, rep, "R19.10")
    buildrules.no_live_iteration_while_removing(ctx, rep, "R19.11")
    buildrules.pruners_called_only_by(ctx, rep, "R19.12")
