"""R04.1 (exit <-> verdict <-> cause flags) and R04.2/R04.5 (diagnosis accessors)."""

import ast

from .. import terms as T
from .. import tt
from ..index import walk_local
from .common import src, stmt_of, trace
from .runrules import run_starts


def exit_verdict_flags(ctx, rep, rule):
    r = ctx.roles
    an, ip, out = ctx.run()
    fn = r.RUN.qualname
    tfn, cfn = r.timeout_flag, r.critical_flag
    if tfn == cfn:
        rep.error(rule, "the two causes of failure are kept in one attribute (`%s`, a record replaced as a whole): this "
                  "rule follows two flags, one per cause, and cannot decide this form" % tfn)
        return
    starts = [e for e in run_starts(an) if e.data['nwait'] == 0]
    rep.need(rule + ":reset", len(starts), 1, "entry starts")
    for e in starts:
        rep.check(e.data['tf'] == 'unset' and e.data['cf'] == 'unset', rule,
                  "%s both cause flags reset before the first start" % e.where, fn,
                  "jobs started on a path where %s is %s and %s is %s"
                  % (tfn, e.data['tf'] or 'not reset', cfn, e.data['cf'] or 'not reset'),
                  "the diagnosis of a previous run survives: a successful run still reports a timeout or a "
                  "critical failure", trace(e.st))
    rets = an.events('RET')
    rep.need(rule, len(rets), 4, "returns of the run")
    want = {
        'expired': (T.FALSE, 'set', 'unset'),
        'critical': (T.FALSE, 'unset', 'set'),
        'success': (T.TRUE, 'unset', 'unset'),
    }
    for e in rets:
        c = e.data['cause']
        cname = c[0] if c else None
        site = "%s return on the %s path" % (e.where, cname or 'empty-scheduler')
        if e.data['phase'] == 'NoTasks' and not e.st.a('nstart', 0):
            ok = e.data['val'] == T.TRUE and e.data['tf'] == 'unset' and e.data['cf'] == 'unset'
            rep.check(ok, rule, site, fn, "`%s` before any start, with %s %s and %s %s"
                      % (src(stmt_of(e.node)), tfn, e.data['tf'] or 'not reset on this path', cfn,
                         e.data['cf'] or 'not reset on this path'),
                      "an empty scheduler must report success and no cause: the diagnosis of a previous run of the "
                      "same object (it failed, was emptied, and is run again) must not survive", trace(e.st))
            continue
        if cname not in want:
            rep.fail(rule, site, fn, "`%s` on a path whose cause cannot be told" % src(stmt_of(e.node)),
                     "the run returns a verdict that is not tied to expiry, critical failure or completion",
                     trace(e.st))
            continue
        v, tf, cf = want[cname]
        rep.check(e.data['val'] == v, rule, site + ": verdict", fn,
                  "`%s` on the %s path" % (src(stmt_of(e.node)), cname),
                  "the run must report %s when it ends because of: %s" % (T.show(v), cname), trace(e.st))
        rep.check(e.data['tf'] == tf, rule, site + ": timeout cause", fn,
                  "%s is %s when the run returns on the %s path" % (tfn, e.data['tf'], cname),
                  "failed_time_out()/why() do not name the actual cause", trace(e.st))
        rep.check(e.data['cf'] == cf, rule, site + ": critical cause", fn,
                  "%s is %s when the run returns on the %s path" % (cfn, e.data['cf'], cname),
                  "failed_critical()/why() do not name the actual cause", trace(e.st))


def flag_tables(ctx, rep, rule_truthy, rule_why):
    """the values stored in the cause flags, read back through the public accessors"""
    r = ctx.roles
    an, ip, out = ctx.run()
    tfn, cfn = r.timeout_flag, r.critical_flag
    if tfn == cfn:
        rep.error(rule_truthy, "the two causes of failure are kept in one attribute (`%s`): the accessors cannot be "
                  "tabulated flag by flag" % tfn)
        return
    # what is stored when the timeout flag is set: a constant, or the configured timeout
    stored = set()
    for e in an.events('STORE'):
        if e.data['attr'] == tfn and e.data['obj'] == T.SELF and e.data['val'] != T.FALSE:
            stored.add(e.data['val'])
    rep.need(rule_truthy, len(stored), 1, "stores that set the timeout flag")
    TIMEOUT = T.mk(('attr', T.SELF, 'timeout'))
    values = []
    for v in stored:
        if v == TIMEOUT:
            values += [('the configured timeout, 0', 0), ('the configured timeout, 5', 5),
                       ('the configured timeout, 0.5', 0.5)]
        elif v[0] == 'const':
            values.append(('constant %r' % (v[1],), v[1]))
        else:
            rep.error(rule_truthy, "value stored in %s not understood: %s" % (tfn, T.show(v, 4)))
    cstored = set()
    for e in an.events('STORE'):
        if e.data['attr'] == cfn and e.data['obj'] == T.SELF and e.data['val'] != T.FALSE:
            cstored.add(e.data['val'])
    cvals = [v[1] for v in cstored if v[0] == 'const'] or [True]

    def sched(tv, cv):
        return tt.Obj('sched', **{tfn: tv, cfn: cv, '__class__': r.sched})
    ev = tt.Evaluator(ctx.prog, r.sched, {})
    rows = [('unset', False)] + values
    sites = {}
    for tl, tv in rows:
        for cl, cv in [('unset', False)] + [('set', c) for c in cvals]:
            obj = sched(tv, cv)
            label = "timeout flag %s, critical flag %s" % (tl, cl)
            try:
                ft = ev.call_method('failed_time_out', obj)
                fc = ev.call_method('failed_critical', obj)
            except (tt.Inconclusive, tt.Raised) as e:
                rep.error(rule_truthy, "accessor not evaluable: %s" % e)
                return
            f1 = ctx.prog.supplier(r.sched, 'failed_time_out')
            rep.check(bool(ft) == (tl != 'unset'), rule_truthy, "failed_time_out() with %s" % label, f1.qualname,
                      "failed_time_out() is %r when the %s" % (ft, label),
                      "failed_time_out() must be true iff the run timed out -- including a timeout of 0")
            f2 = ctx.prog.supplier(r.sched, 'failed_critical')
            rep.check(bool(fc) == (cl != 'unset'), rule_truthy, "failed_critical() with %s" % label, f2.qualname,
                      "failed_critical() is %r when the %s" % (fc, label),
                      "failed_critical() must be true iff a critical job failed")
            # why(): what it answers (the literal, or the text of the formatting expression)
            try:
                wv = ev.call_method('why', obj)
            except (tt.Inconclusive, tt.Raised) as e:
                rep.error(rule_why, "why() not evaluable: %s" % e)
                return
            txt = wv.name if isinstance(wv, tt.Sentinel) else repr(wv)
            sites[(tl != 'unset', cl != 'unset', tl)] = (txt, txt)
    fw = ctx.prog.supplier(r.sched, 'why')
    base = sites.get((False, False, 'unset'))
    for (tset, cset, tl), w in sorted(sites.items(), key=repr):
        if w is None:
            rep.error(rule_why, "why() not evaluable")
            return
        label = "timeout %s, critical %s" % (tl if tset else 'unset', 'set' if cset else 'unset')
        if not tset and not cset:
            continue
        rep.check(w != base, rule_why, "why() with %s differs from the no-failure answer" % label, fw.qualname,
                  "why() answers `%s` when %s" % (w[1], label),
                  "why() says FINE (or the same as after a success) although the run failed")
    # an answer that formats a cause flag may only be given when that flag is set
    for (tset, cset, tl), w in sorted(sites.items(), key=repr):
        used = {a for a in (tfn, cfn) if w[0].startswith('fmt:') and a in w[0]}
        label = "timeout %s, critical %s" % (tl if tset else 'unset', 'set' if cset else 'unset')
        rep.check(not ((tfn in used and not tset) or (cfn in used and not cset)), rule_why,
                  "why() with %s does not quote an unset cause" % label, fw.qualname,
                  "why() answers `%s` when %s" % (w[1], label),
                  "the diagnosis quotes a cause that did not occur")
    # timeout answers agree whatever the timeout value; critical-only answer is a third one
    tans = {w for (tset, cset, tl), w in sites.items() if tset and not cset}
    cans = {w for (tset, cset, tl), w in sites.items() if cset and not tset}
    rep.check(len(tans) <= 1, rule_why, "why() names the timeout for every timeout value", fw.qualname,
              "why() gives different answers for different timeout values: %s" % sorted(x[1] for x in tans if x),
              "the diagnosis depends on the value of the timeout, not on the cause")
    rep.check(not (tans & cans) and base not in cans, rule_why, "why() tells timeout from critical failure",
              fw.qualname, "why() gives the same answer for a timeout and for a critical failure",
              "the diagnosis does not name the actual cause")


def _which_return(ctx, ev, name, obj):
    """(lineno, text) of the return statement that answers, found by evaluating with a tracer"""
    f = ctx.prog.supplier(ev.cls, name)
    rets = [n for n in walk_local(f.node) if isinstance(n, ast.Return)]
    hit = []
    orig = ev.stmt

    def stmt(s, env, depth):
        if isinstance(s, ast.Return) and s in rets:
            hit.append(s)
        return orig(s, env, depth)
    ev.stmt = stmt
    try:
        ev.call_method(name, obj)
    except (tt.Inconclusive, tt.Raised):
        return None
    finally:
        ev.stmt = orig
    if not hit:
        return None
    n = hit[-1]
    return (rets.index(n), " ".join(ast.unparse(n).split())[:70])
