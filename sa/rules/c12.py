"""C12 -- eager start; a free slot is never wasted (necessary conditions)."""

from . import predicates, common, runrules


def check(ctx, rep):
    rep.explanation = (
        "Necessary conditions. R12.1 all entry jobs (members filtered by exactly `not required`) are started "
        "before the first wait. R12.2 per iteration the candidates are the union over *all* done tasks of "
        "their job's successors, and the start loop visits all of them. R12.3 reverse links rebuilt by the run "
        "before the first start, by a builder that resets every member and links with the right orientation. "
        "R12.4 the successor guard contains nothing but the once-guard and all-requirements-done. R12.5 no "
        "suspension while a slot is held other than the body itself. R12.8 (= R01.3) is_done() is true on every finished task, for atomic jobs and nested schedulers alike: a requirement that has finished is seen as finished. R12.9 (= R07.3) every run builds its own window: a slot kept by a previous run (a critical failure keeps it on purpose) is not carried over. R12.10 (= R07.5) `jobs_window` is what the caller gave: stored unchanged by the constructor, written nowhere else (an unwindowed nested scheduler stays unwindowed inside a windowed one). R12.11 (= R09.8) the window closes exactly when the last member that does not run forever has completed - returned or raised, counted at its completion and only then: no job starts after the end of the run, none is held back before it.")
    rep.declined = ["FIFO hand-over of freed slots (asyncio.Queue, T4)", "timing"]
    rep.trusted = ["T2", "T4"]
    runrules.eager(ctx, rep, "R12.1", "R12.2", "R12.3", "R12.4")
    common.relation_builder(ctx, rep, "R12.3")
    common.slot_adjacency(ctx, rep, "R12.5")
    common.wrap_exits(ctx, rep, "R12.6", "a window slot stays taken although no job is running in it")
    common.wrap_acquire_real(ctx, rep, "R12.7")
    predicates.is_done_table(ctx, rep, "R12.8")
    common.window_scope(ctx, rep, "R12.9")
    predicates.config_verbatim(ctx, rep, "R12.10", ('jobs_window',))
    common.window_gate(ctx, rep, "R12.11", "endofrun")
