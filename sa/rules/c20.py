"""C20 -- DOT export and listing describe the scheduler tree faithfully."""

from . import dotrules, graphrules, common


def check(ctx, rep):
    rep.explanation = (
        "R20.1 every attribute value of the style mapping goes through the quoter, which wraps in double quotes "
        "after escaping embedded double quotes (complete under the no-backslash precondition); every hole of the "
        "emitter is an id, a cluster name, a quoted style or the nested body. R20.2 edge table: the (job kind x "
        "requirement kind) cases are exhaustive and disjoint, one edge statement per requirement per job "
        "(path-sensitive count), oriented requirement -> job, lhead/ltail exactly for cluster ends and naming "
        "that cluster, atomic end points inside clusters; node statements only for atomic jobs, subgraphs "
        "named cluster*. R20.3 ids assigned before use in dot_format and list(); the nested numbering hook "
        "takes one id and continues into its members. R20.4 raises reachable from dot_format. R20.5 the "
        "emitted fragments are statements of the DOT subset and braces balance on every path. R20.6 styles are "
        "per job: no mutable object bound at class level is mutated through an instance or an alias of it. R20.7 "
        "the id templates yield DOT identifiers (zero padding only, no white space). R20.9 the label getters return the user's text unmodified. R20.8 (= R19.6) what is drawn is what was registered: a job object (an empty nested scheduler is falsy) is never used as a boolean by the construction API. R20.10 the functions that render (dot, labels, styles, listings) keep no state from one call to the next: no mutable default argument (a style object built once would carry the colour of the previous job), no global.")
    rep.declined = ["validity for every label string beyond the quoter's contract; the flag->style constants; "
                    "what `dot` renders"]
    rep.trusted = ["DOT grammar subset (graph, subgraph, node, edge, attribute list)"]
    dotrules.dot(ctx, rep, "R20.1", "R20.2", "R20.3", "R20.4", "R20.5")
    common.no_shared_class_state(ctx, rep, "R20.6")
    dotrules.id_alphabet(ctx, rep, "R20.7")
    dotrules.labels_verbatim(ctx, rep, "R20.9")
    common.job_truthiness(ctx, rep, "R20.8", [ctx.prog.supplier(ctx.roles.jobbase, "requires")] + (list(ctx.roles.sequence.methods.values()) if ctx.roles.sequence else []) + [ctx.prog.supplier(ctx.roles.sched, "update"), ctx.prog.supplier(ctx.roles.sched, "add")])
    import re as _re
    common.no_state_across_calls(ctx, rep, "R20.10", [f for f in ctx.prog.all_functions() if _re.search(r"dot|label|list|repr|style|graph|short", f.name)])
