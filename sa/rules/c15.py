"""C15 -- cycle detection is exact; topological order is a valid linear extension."""

from . import graphrules, common, dotrules


def check(ctx, rep):
    rep.explanation = (
        "The five proof obligations of the marking algorithm, decided on topological_order by path-sensitive "
        "abstract interpretation with fold summaries. R15.1 every yield is guarded by `for all r in "
        "job.required: marked(r)` (mark value-set {None, True}); R15.2 by `not marked(job)`, and the job is "
        "marked in the same step; R15.3 the guard contains nothing else; R15.4 a new pass only follows a pass "
        "that marked something (tracked flag), normal end only when the count of yielded jobs reached the "
        "number of members, a raise otherwise, marks reset for every member before the scan; R15.5 "
        "check_cycles returns True only after exhausting the scan, False on any exception, and the nested "
        "form consults every nested member; list/_set_sched_ids/_dot_body iterate in that order.")
    rep.trusted = ["T8 generator and set semantics"]
    graphrules.order_sound(ctx, rep, "R15.1", "R15.2", "R15.3")
    graphrules.progress_or_raise(ctx, rep, "R15.4")
    graphrules.check_cycles_rules(ctx, rep, "R15.5")
    dotrules.numbering(ctx, rep, "R15.5n")
    p, r = ctx.prog, ctx.roles
    funcs = [p.supplier(r.sched, n) for n in ('topological_order', 'check_cycles', 'list', 'entry_jobs', '_set_sched_ids')] + \
            [p.supplier(c, 'check_cycles') for c in r.nestable]
    common.job_truthiness(ctx, rep, "R15.6", funcs)
    common.no_state_across_calls(ctx, rep, "R15.7", funcs + [p.supplier(r.sched, '__init__')])
