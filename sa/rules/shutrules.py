"""
Rules about the shutdown broadcast (C13) and about task-group discipline under
cancellation (C11).
"""

import ast

from .. import terms as T
from ..index import walk_local
from ..runmodel import covers, is_wdone, is_wpend
from .common import src, stmt_of, trace, kind_name
from .runrules import MEMBERS, conj_items

SHUTTO = T.mk(('attr', T.SELF, 'shutdown_timeout'))


# ================================================================== C13
def guard_atomic(ctx, rep, rule):
    """R13.2: test of the once-guard, then its store, before the broadcast and
    with no suspension in between; no other writer"""
    r = ctx.roles
    an, ip, out = ctx.broadcast()
    fn = r.BROADCAST.qualname
    g = r.guard_attr
    if g is None:
        rep.fail(rule, "%s once-guard" % fn, fn, "no `if self.<flag>: return` at the top of the broadcast",
                 "a second shutdown() (or the relay from the parent) sends co_shutdown to every job again")
        return
    G = T.mk(('attr', T.SELF, g))
    spawns = [e for e in an.events('SPAWN') if e.data['tkind'] == 'shut']
    rep.need(rule, len(spawns), 1, "shutdown task creations")
    for e in spawns:
        rep.check(e.data['gset'] is True, rule, "%s guard set before the broadcast" % e.where, fn,
                  "shutdown handlers launched on a path where self.%s is not yet True" % g,
                  "a concurrent or later co_shutdown() finds the flag unset and sends co_shutdown a second time",
                  trace(e.st))
        rep.check(e.st.facts.get(G) is False or e.st.a('gtested'), rule,
                  "%s guard tested before the broadcast" % e.where, fn,
                  "shutdown handlers launched without testing self.%s" % g,
                  "co_shutdown is sent again on every call", trace(e.st))
    stores = [e for e in an.events('STORE') if e.data['attr'] == g]
    rep.need(rule + ":store", len(stores), 1, "stores of the once-guard")
    for e in stores:
        rep.check(not e.st.a('susp', False) and not e.st.a('nshut', 0), rule,
                  "%s guard stored before any suspension" % e.where, fn,
                  "`%s` after a may-suspend await or after the handlers were launched" % src(stmt_of(e.node)),
                  "between the test and the store another co_shutdown() call passes the test too", trace(e.st))
        rep.check(e.data['val'] == T.TRUE, rule, "%s guard stored True" % e.where, fn,
                  "`%s`" % src(stmt_of(e.node)), "the once-guard is not set", trace(e.st))
    # writers table
    for f in ctx.prog.all_functions():
        for n in walk_local(f.node):
            if isinstance(n, (ast.Assign, ast.AugAssign)):
                tg = n.targets if isinstance(n, ast.Assign) else [n.target]
                for t in tg:
                    if isinstance(t, ast.Attribute) and t.attr == g:
                        ok = f is r.BROADCAST or f.name == '__init__' or _only_called_by(ctx, f, r.BROADCAST)
                        rep.check(ok, rule, "%s:%d writer of the once-guard" % (f.module.relpath, n.lineno),
                                  f.qualname, "`%s`" % src(n),
                                  "the once-guard is reset outside the constructor: shutdown can be sent twice")


def _only_called_by(ctx, f, owner):
    """`f` is a private method whose every mention in the package is a call on self inside `owner`"""
    if f.cls is None or not f.name.startswith('_') or f.name.startswith('__'):
        return False
    n_in = 0
    for g in ctx.prog.all_functions():
        for n in walk_local(g.node):
            if isinstance(n, ast.Attribute) and n.attr == f.name:
                if g is owner and isinstance(n.value, ast.Name) and n.value.id == 'self':
                    n_in += 1
                else:
                    return False
    return n_in > 0


def broadcast_total(ctx, rep, rule):
    """R13.3: one shutdown task for every member, unfiltered, through member dispatch"""
    r = ctx.roles
    an, ip, out = ctx.broadcast()
    fn = r.BROADCAST.qualname
    spawns = [e for e in an.events('SPAWN') if e.data['tkind'] == 'shut']
    rep.need(rule, len(spawns), 1, "shutdown task creations")
    for e in spawns:
        j = e.data['job']
        ok = j is not None and j[0] == 'elem' and j[1] == MEMBERS
        lp = [c for c in e.loops if c.elem == j]
        why = ""
        if ok and lp:
            conds = list(lp[0].conds) + [k for k, v in e.st.facts.items() if T.contains(k, j) and k != MEMBERS]
            if conds:
                ok = False
                why = "filtered by %s" % [T.show(c, 3) for c in conds]
            from ..flow import _may_stop_early
            if lp[0].kind == 'for' and _may_stop_early(lp[0].node):
                ok = False
                why = "the broadcast loop can stop early"
        coro = e.data['coro']
        disp = coro[0] == 'mcall' and coro[2] == 'co_shutdown'
        rep.check(ok, rule, "%s every member receives co_shutdown" % e.where, fn,
                  "shutdown sent to %s %s" % (T.show(j, 3), why),
                  "some jobs (e.g. never started, or already done ones) do not receive co_shutdown",
                  trace(e.st))
        rep.check(disp, rule, "%s member dispatch" % e.where, fn,
                  "shutdown task built from %s" % T.show(coro, 3),
                  "the member's own co_shutdown (the relay, for a nested scheduler) is not what gets called",
                  trace(e.st))
    # the relay: for every nestable class co_shutdown resolves to the broadcast itself
    for cls in r.nestable:
        sup = ctx.prog.effective_supplier(cls, 'co_shutdown')
        rep.check(sup is r.BROADCAST, rule, "%s.co_shutdown is the broadcast (relay)" % cls.name,
                  "class " + cls.name, "%s.co_shutdown resolves to %s (bases: %s)"
                  % (cls.name, sup.qualname if sup else None, ", ".join(cls.base_names)),
                  "a nested scheduler does not relay co_shutdown to its own jobs")


def bounded_then_cancel(ctx, rep, rule, rule_truth):
    """R13.4 bounded wait with shutdown_timeout, stragglers tidied; R13.5 truthful result"""
    r = ctx.roles
    an, ip, out = ctx.broadcast()
    fn = r.BROADCAST.qualname
    D = r.deadline_attr
    waits = [e for e in an.events('AWAIT_ALL') if e.data['covers_shut'] and not e.data['cancelled']]
    rep.need(rule, len(waits), 1, "waits on the shutdown tasks")
    from .runrules import deadline_in_helper_object
    helper = deadline_in_helper_object(ctx, [e.data['timeout'] for e in waits])
    if helper:
        rep.error(rule, "the bound of the shutdown phase is kept in a helper object, %s: this rule cannot decide this form"
                  % helper)
        waits = []
    dstores = [e for e in an.events('STORE') if e.data['attr'] == D]
    for e in waits:
        t = e.data['timeout']
        site = "%s wait bounded by shutdown_timeout" % e.where
        ok = False
        why = "timeout=%s" % T.show(t, 4)
        if t == SHUTTO:
            ok = True
        elif t is None or t == T.NONE:
            ok = any(v and k[0] == 'cmp' and k[1] == 'is' and k[3] == T.NONE and
                     k[2] in (SHUTTO, T.mk(('attr', T.SELF, D))) for k, v in e.st.facts.items())
            why = "no timeout on a path where shutdown_timeout may be set"
            if ok:
                ok = _deadline_from(dstores, SHUTTO, allow_none=True)
        elif t[0] == 'binop' and t[1] == 'Sub' and t[2] == T.mk(('attr', T.SELF, D)) and t[3][0] == 'call':
            ok = _deadline_from(dstores, SHUTTO, clock=t[3][1])
            why = "deadline - clock(), deadline stored as %s" % sorted({T.show(x.data['val'], 4) for x in dstores})
        rep.check(ok, rule, site, fn, "`%s` (%s)" % (src(e.node), why),
                  "the shutdown phase is not bounded by shutdown_timeout (unbounded if None)", trace(e.st))
    rets = an.events('RET')
    rep.need(rule_truth, len(rets), 2, "returns of the broadcast")
    for e in rets:
        rep.check(not e.data['shut_live'], rule, "%s no handler left pending" % e.where, fn,
                  "`%s` with shutdown handlers possibly still pending: %s"
                  % (src(stmt_of(e.node)), [T.show(x, 3) for x in e.data['shut_live']]),
                  "shutdown handlers still running after shutdown_timeout are not cancelled: they outlive the run",
                  trace(e.st))
        want = not e.data['shut_tidied']
        v = e.data['val']
        ok = v == T.mk(('const', want))
        if not ok:
            # not a literal: the value the path conditions give to the returned expression
            # (`success = len(pending) == 0; ...; return success`)
            from ..flow import truth
            ok = truth(v, e.st) is want
        rep.check(ok, rule_truth, "%s result tells whether handlers were cancelled" % e.where, fn,
                  "`%s` on a path where %s" % (src(stmt_of(e.node)),
                                               "stragglers were cancelled" if e.data['shut_tidied']
                                               else "nothing had to be cancelled"),
                  "co_shutdown() must report True iff no handler had to be cancelled (got %s)" % T.show(v, 3),
                  trace(e.st))
    for st in out.nxt:
        rep.fail(rule_truth, "%s falls off its end" % fn, fn, "end of function reached without a boolean",
                 "co_shutdown() returns None", trace(st))


def _deadline_from(dstores, src_term, clock=None, allow_none=False):
    ok = False
    for e in dstores:
        v = e.data['val']
        if v == T.NONE:
            continue
        if v[0] == 'binop' and v[1] == 'Add':
            a, b = v[2], v[3]
            if b[0] == 'call':
                a, b = b, a
            if a[0] == 'call' and b == src_term and (clock is None or a[1] == clock):
                ok = True
                continue
        return False
    return ok or allow_none and bool(dstores)


# ================================================================== C11
def cancellation_edges(ctx, rep, rule, prompt=False):
    """R11.2: every task-owning activation cancels-and-awaits its tasks on the
    CancelledError edge of every suspension point, before leaving its ownership scope"""
    r = ctx.roles
    n = 0
    for cls in r.nestable:
        f = ctx.prog.supplier(cls, 'co_run')
        if f is r.RUN:
            # no job-side wrapper: the run itself is the task root
            an, ip, out = ctx.run(gen_cancel=True)
        else:
            an, ip, out = ctx.explore(f, gen_cancel=True, inline_delegate=True)
        for st, kind, node in out.exc:
            if kind[0] != 'Cancelled':
                continue
            live = st.a('live', frozenset())
            n += 1
            fnode = node
            where = _where_of(ctx, ip, node)
            rep.check(not live, rule, "%s CancelledError edge (run of %s)" % (where, cls.name),
                      _func_of(ctx, node) or f.qualname,
                      "CancelledError delivered at `%s` leaves the nested run with its job tasks alive"
                      % src(_await_of(node)),
                      "when the enclosing scheduler times out or aborts, the jobs of this nested scheduler keep "
                      "running after run() has returned, and receive co_shutdown while still running",
                      trace(st))
        for e in an.events('SHUT'):
            if e.data['phase'] == 'Live':
                rep.fail(rule, "%s shutdown while jobs are alive (%s path)" % (
                    e.where, "cancellation" if e.st.a('cdelivered') else "normal"), _func_of(ctx, e.node) or f.qualname,
                         "`%s` awaited while the job tasks of this run have not been cancelled and awaited"
                         % src(e.node),
                         "jobs receive co_shutdown() while jobs of the same scheduler are still running "
                         "(e.g. when the enclosing scheduler cancels this nested run)", trace(e.st))
        if prompt:
            # ... and the cancellation goes through as soon as those tasks are over: the handler does not start a
            # shutdown phase of its own (that phase belongs to the enclosing scheduler, under its own bound)
            for e in an.events('SHUT'):
                if e.st.a('cdelivered'):
                    rep.fail(rule, "%s no shutdown phase inside a cancellation" % e.where,
                             _func_of(ctx, e.node) or f.qualname,
                             "`%s` awaited after CancelledError was delivered to this nested run" % src(e.node),
                             "the enclosing scheduler, which has timed out or is aborting, waits without bound for "
                             "the shutdown phase of the nested scheduler (its shutdown_timeout, not the enclosing "
                             "one's; for ever when that is None)", trace(e.st))
        rep.need(rule + ":" + cls.name, n, 3, "cancellation edges of the nested run")
    # the broadcast owns the shutdown tasks
    an, ip, out = ctx.broadcast(gen_cancel=True)
    m = 0
    for st, kind, node in out.exc:
        if kind[0] != 'Cancelled':
            continue
        m += 1
        sl = st.a('shut_live', frozenset())
        rep.check(not sl, rule, "%s CancelledError edge (broadcast)" % _where_of(ctx, ip, node),
                  _func_of(ctx, node) or r.BROADCAST.qualname,
                  "CancelledError delivered at `%s` leaves the broadcast with shutdown handlers alive"
                  % src(_await_of(node)),
                  "a scheduler cancelled during its shutdown phase leaves co_shutdown handlers pending in the "
                  "event loop", trace(st))
    rep.need(rule + ":broadcast", m, 1, "cancellation edges of the broadcast")


def _await_of(node):
    return node


def _func_of(ctx, node):
    from ..index import enclosing_func
    f = enclosing_func(ctx.prog, node)
    return f.qualname if f else None


def _where_of(ctx, ip, node):
    from ..index import enclosing_func
    f = enclosing_func(ctx.prog, node)
    if f is None:
        return ip.where(node)
    return "%s:%d" % (f.module.relpath, node.lineno)


def single_cancel_model(ctx, rep, rule):
    """R11.3: every .cancel() of the package is part of a cancel-all-then-await-unbounded"""
    r = ctx.roles
    sites = []
    for f in ctx.prog.all_functions():
        for n in walk_local(f.node):
            if isinstance(n, ast.Call) and isinstance(n.func, ast.Attribute) and n.func.attr == 'cancel' \
                    and not n.args:
                sites.append((f, n))
    rep.need(rule, len(sites), 1, "cancel() call sites")
    seen = {}
    explorations = [ctx.run(), ctx.broadcast()]
    for cls in r.nestable:
        f = ctx.prog.supplier(cls, 'co_run')
        if f is not r.RUN:
            explorations.append(ctx.explore(f, gen_cancel=True, inline_delegate=True))
    for an, ip, out in explorations:
        tidied = {e.data['coll'] for e in an.events('TIDY', 'TIDY_PARTIAL')}
        for e in an.events('CANCEL_ALL'):
            seen.setdefault(id(e.node), []).append(e.data['coll'] in tidied)
        for e in an.events('CANCEL1', summary=True):
            # (also when the loop around it was read as a fold: `if task.cancel(): nb += 1`)
            seen.setdefault(id(e.node), [])
    for f, n in sites:
        # the loop node or the call itself was seen by an exploration
        hit = id(n) in seen
        par = n
        loop_ok = None
        while par is not None:
            if id(par) in seen and seen[id(par)]:
                loop_ok = all(seen[id(par)])
            par = getattr(par, '_parent', None)
        rep.check(hit and loop_ok is not False, rule, "%s:%d cancel is part of a tidy" % (f.module.relpath, n.lineno),
                  f.qualname, "`%s`" % src(stmt_of(n)),
                  "a task is cancelled without being awaited (or outside the analysed owners): the canceller "
                  "may leave before the task has ended")


def user_shutdown_unconditional(ctx, rep, rule):
    """a coroutine-based job hands the shutdown event to the user's shutdown coroutine whenever one was given:
    the await of the stored coroutine in co_shutdown() is guarded by nothing but the presence of that coroutine
    (not by what the job did during the run)"""
    r = ctx.roles
    n = 0
    for cls in ctx.prog.subclasses(r.jobbase, strict=True):
        if cls in r.nestable or any(cls in x.mro for x in r.nestable):
            continue
        f = cls.methods.get('co_shutdown')
        if f is None:
            continue
        stored = {a.targets[0].attr for g in [cls.methods.get('__init__')] if g is not None
                  for a in walk_local(g.node) if isinstance(a, ast.Assign) and len(a.targets) == 1
                  and isinstance(a.targets[0], ast.Attribute)}
        # locals that only name the stored coroutine: `coshutdown = self.coshutdown`
        alias = {}
        for x in walk_local(f.node):
            if isinstance(x, ast.Assign) and len(x.targets) == 1 and isinstance(x.targets[0], ast.Name) \
                    and isinstance(x.value, ast.Attribute) and isinstance(x.value.value, ast.Name) \
                    and x.value.value.id == 'self' and x.value.attr in stored:
                alias[x.targets[0].id] = x.value.attr

        def attr_of(e):
            if isinstance(e, ast.Attribute) and isinstance(e.value, ast.Name) and e.value.id == 'self' \
                    and e.attr in stored:
                return e.attr
            if isinstance(e, ast.Name) and e.id in alias:
                return alias[e.id]
            return None
        aws = [a for a in walk_local(f.node) if isinstance(a, ast.Await) and attr_of(a.value)]
        # the stored coroutine put in a task of its own (shielded, or scheduled): cancelling the handler does not stop it
        from ..index import dotted as _dotted
        for c in walk_local(f.node):
            if isinstance(c, ast.Call) and (_dotted(c.func) or '').split('.')[-1] in ('shield', 'ensure_future', 'create_task') \
                    and any(attr_of(a) for a in c.args):
                n += 1
                rep.fail(rule, "%s:%d user shutdown coroutine awaited as it is" % (f.module.relpath, c.lineno), f.qualname,
                         "`%s` runs the user's shutdown coroutine in a task of its own" % src(c)[:80],
                         "when shutdown_timeout expires the handler is cancelled but that task is not: the user's "
                         "clean-up goes on after the run is over, nobody awaits it")
        if not aws:
            continue
        for a in aws:
            n += 1
            attr = attr_of(a.value)
            guards = []
            node = a
            while node is not None and node is not f.node:
                par = getattr(node, '_parent', None)
                if isinstance(par, (ast.If, ast.While)) and node is not par.test:
                    guards.append(par.test)
                elif isinstance(par, ast.IfExp) and node is not par.test:
                    guards.append(par.test)
                elif isinstance(par, (ast.For, ast.AsyncFor, ast.Try, ast.With)):
                    pass
                node = par
            # early returns before the await
            for s in f.node.body:
                if s.lineno >= a.lineno:
                    break
                if isinstance(s, ast.If) and any(isinstance(x, (ast.Return, ast.Raise)) for x in ast.walk(s)):
                    guards.append(s.test)
            bad = []
            for g in guards:
                reads = {x.attr for x in ast.walk(g) if isinstance(x, ast.Attribute)} | \
                        {x.func.attr for x in ast.walk(g) if isinstance(x, ast.Call) and isinstance(x.func, ast.Attribute)} | \
                        {alias.get(x.id, '<local %s>' % x.id) for x in ast.walk(g) if isinstance(x, ast.Name)
                         and x.id not in ('self', 'None', 'True', 'False')}
                if reads - {attr}:
                    bad.append(src(g))
            rep.check(not bad, rule, "%s:%d user shutdown coroutine awaited whenever it was given"
                      % (f.module.relpath, a.lineno), f.qualname,
                      "`await self.%s` is guarded by %s" % (attr, bad),
                      "a job whose shutdown coroutine was given does not receive the shutdown event in some runs "
                      "(e.g. when it never started, or had failed)")
    rep.need(rule, n, 1, "awaits of a user shutdown coroutine")


def cancellation_propagates(ctx, rep, rule):
    """a nested scheduler that its enclosing scheduler cancels ends *cancelled*: on every path on which a
    CancelledError was delivered to the nested run or to the broadcast, the coroutine is left by that
    CancelledError (after tidying), never by a return or by another exception"""
    r = ctx.roles
    n = 0
    explorations = []
    for cls in r.nestable:
        f = ctx.prog.supplier(cls, 'co_run')
        if f is r.RUN:
            explorations.append((f, ctx.run(gen_cancel=True), "run of %s" % cls.name))
        else:
            explorations.append((f, ctx.explore(f, gen_cancel=True, inline_delegate=True), "run of %s" % cls.name))
    explorations.append((r.BROADCAST, ctx.broadcast(gen_cancel=True), "broadcast"))
    for f, (an, ip, out), what in explorations:
        for st, val, node in out.ret:
            if st.a('cdelivered'):
                n += 1
                rep.fail(rule, "%s return after a cancellation (%s)" % (_where_of(ctx, ip, node), what),
                         _func_of(ctx, node) or f.qualname,
                         "`%s` is reached on a path on which a CancelledError was delivered and caught"
                         % src(node)[:80],
                         "a nested scheduler cancelled by its enclosing scheduler ends as if it had finished: it is "
                         "reported done (with a result) although it was cancelled, and its successors may start",
                         trace(st))
        for st in out.nxt:
            if st.a('cdelivered'):
                n += 1
                rep.fail(rule, "%s falls off its end after a cancellation (%s)" % (f.qualname, what), f.qualname,
                         "end of function reached on a path on which a CancelledError was delivered and caught",
                         "the cancellation is swallowed", trace(st))
        for st, kind, node in out.exc:
            if st.a('cdelivered'):
                n += 1
                rep.check(kind[0] == 'Cancelled' or (kind[0] == 'Raise' and (kind[1] or '').endswith('CancelledError')),
                          rule,
                          "%s leaves by the CancelledError it received (%s)" % (_where_of(ctx, ip, node), what),
                          _func_of(ctx, node) or f.qualname,
                          "a cancelled activation is left by %s" % (kind,),
                          "the cancellation is replaced by another exception", trace(st))
    rep.need(rule, n, 3, "exits reached after a cancellation")


# ------------------------------------------------------------------ handler tasks carry no job
def _demanding_params(ctx, attr):
    """{(qualname, param)}: parameters whose value - or whose elements - the function reads `.<attr>` from
    (the back-pointer that only the task creator of the run stores), directly or through another such function"""
    prog = ctx.prog
    funcs = list(prog.all_functions())
    derived = {}          # qualname -> {name: param it stands for}

    def names_of(f):
        d = {p: p for p in f.params}
        changed = True
        while changed:
            changed = False
            for n in walk_local(f.node):
                tgt = it = None
                if isinstance(n, (ast.For, ast.AsyncFor)):
                    tgt, it = n.target, n.iter
                elif isinstance(n, ast.comprehension):
                    tgt, it = n.target, n.iter
                elif isinstance(n, ast.Assign) and len(n.targets) == 1:
                    tgt, it = n.targets[0], n.value
                if tgt is not None and it is not None:
                    srcs = {m.id for m in ast.walk(it) if isinstance(m, ast.Name) and m.id in d}
                    # (`job = job._job` makes `job` the job: not the task any more - but it was one before;
                    #  `done, pending = await asyncio.wait(tasks)`: both are made of what `tasks` holds)
                    for tn in ([tgt] if isinstance(tgt, ast.Name) else
                               [x for x in ast.walk(tgt) if isinstance(x, ast.Name)] if isinstance(tgt, (ast.Tuple, ast.List))
                               else []):
                        if srcs and tn.id not in d:
                            d[tn.id] = d[sorted(srcs)[0]]
                            changed = True
        return d

    def guarded(f, node, name):
        # a read under `hasattr(x, '<attr>')` is no demand
        for n in walk_local(f.node):
            if isinstance(n, (ast.If, ast.IfExp)) and any(m is node for b in ([n.body] if isinstance(n, ast.IfExp)
                                                                              else n.body) for m in ast.walk(b)):
                for c in ast.walk(n.test):
                    if isinstance(c, ast.Call) and isinstance(c.func, ast.Name) and c.func.id == 'hasattr' \
                            and len(c.args) == 2 and isinstance(c.args[1], ast.Constant) and c.args[1].value == attr:
                        return True
        return False

    dem = {}
    for f in funcs:
        derived[f.qualname] = names_of(f)
        for n in walk_local(f.node):
            if isinstance(n, ast.Attribute) and n.attr == attr and isinstance(n.ctx, ast.Load) \
                    and isinstance(n.value, ast.Name) and n.value.id in derived[f.qualname] \
                    and not guarded(f, n, n.value.id):
                dem.setdefault((f.qualname, derived[f.qualname][n.value.id]), n)
    changed = True
    while changed:
        changed = False
        for f in funcs:
            d = derived[f.qualname]
            for n in walk_local(f.node):
                if not isinstance(n, ast.Call):
                    continue
                g = _callee(ctx, f, n)
                if g is None:
                    continue
                for prm, a in _bound_args(g, n):
                    if isinstance(a, ast.Name) and a.id in d and (g.qualname, prm) in dem \
                            and (f.qualname, d[a.id]) not in dem:
                        dem[(f.qualname, d[a.id])] = n
                        changed = True
    return dem


def _callee(ctx, f, call):
    fn = call.func
    if isinstance(fn, ast.Attribute) and isinstance(fn.value, ast.Name) and fn.value.id == 'self' and f.cls is not None:
        return ctx.prog.supplier(f.cls, fn.attr)
    if isinstance(fn, ast.Name):
        for g in ctx.prog.all_functions():
            if g.cls is None and g.parent is None and g.name == fn.id and g.module == f.module:
                return g
    return None


def _bound_args(g, call):
    params = list(g.params)
    if g.cls is not None and params and params[0] in ('self', 'cls'):
        params = params[1:]
    out = []
    for i, a in enumerate(call.args):
        if isinstance(a, ast.Starred):
            break
        if i < len(params):
            out.append((params[i], a))
    for k in call.keywords:
        if k.arg is not None and k.arg in params:
            out.append((k.arg, k.value))
    return out


def handler_tasks_carry_no_job(ctx, rep, rule):
    """the tasks the broadcast makes for the shutdown handlers are not job tasks: nothing stored the back-pointer
    `<task>.<attr>` on them (only the task creator of the run does).  Handing them to code that reads it raises
    AttributeError - before the stragglers are cancelled, when it sits on the late-handler path"""
    r = ctx.roles
    attr = r.task_job_attr
    if attr is None:
        rep.error(rule, "back-pointer attribute of the job tasks not resolved")
        return
    f = r.BROADCAST
    fn = f.qualname
    from ..effects import TASK_MAKERS
    from ..index import dotted
    # does the broadcast store the back-pointer on what it creates?  then its tasks are as good as job tasks
    stores = [n for n in walk_local(f.node) if isinstance(n, ast.Attribute) and n.attr == attr
              and isinstance(n.ctx, ast.Store)]
    # a first phase of the broadcast living in a private helper that returns the tasks it made (`tasks = self._begin()`)
    maker_helpers = set()
    for n in walk_local(f.node):
        if isinstance(n, ast.Call):
            g = _callee(ctx, f, n)
            if g is not None and g is not f and g.name.startswith('_') and any(
                    isinstance(m, ast.Call) and dotted(m.func) in TASK_MAKERS for m in walk_local(g.node)) and any(
                    isinstance(rn, ast.Return) and rn.value is not None and not (
                        isinstance(rn.value, ast.Constant) and rn.value.value is None) for rn in walk_local(g.node)):
                maker_helpers.add(id(n))
                stores += [m for m in walk_local(g.node) if isinstance(m, ast.Attribute) and m.attr == attr
                           and isinstance(m.ctx, ast.Store)]

    def makes(m):
        return isinstance(m, ast.Call) and (dotted(m.func) in TASK_MAKERS or id(m) in maker_helpers)
    hv = set()
    makers = 0
    changed = True
    while changed:
        changed = False
        for n in walk_local(f.node):
            tgts = val = None
            if isinstance(n, ast.Assign):
                tgts, val = n.targets, n.value
            elif isinstance(n, ast.AnnAssign) and n.value is not None:
                tgts, val = [n.target], n.value
            elif isinstance(n, ast.AugAssign):
                tgts, val = [n.target], n.value
            if val is None:
                continue
            made = any(makes(m) for m in ast.walk(val))
            flows = any(isinstance(m, ast.Name) and m.id in hv for m in ast.walk(val))
            if made or flows:
                for t in tgts:
                    for m in ast.walk(t):
                        if isinstance(m, ast.Name) and m.id not in hv:
                            hv.add(m.id)
                            changed = True
        # `tasks.append(ensure_future(...))` / `tasks.add(...)`
        for n in walk_local(f.node):
            if isinstance(n, ast.Call) and isinstance(n.func, ast.Attribute) and n.func.attr in ('append', 'add', 'extend', 'update') \
                    and isinstance(n.func.value, ast.Name) and n.func.value.id not in hv:
                if any(makes(m) or
                       (isinstance(m, ast.Name) and m.id in hv) for a in n.args for m in ast.walk(a)):
                    hv.add(n.func.value.id)
                    changed = True
    makers = sum(1 for n in walk_local(f.node) if makes(n))
    if not makers:
        starts = [n for n in walk_local(f.node) if isinstance(n, ast.Call) and _callee(ctx, f, n) is r.start_fn]
        if starts:
            rep.check(True, rule, "%s handler tasks made by the task creator of the run" % fn, fn, "", "")
            return
        rep.error(rule, "no task creation found in the broadcast")
        return
    rep.need(rule, len(hv), 1, "variables of the broadcast that hold handler tasks")
    if stores:
        rep.error(rule, "the broadcast stores `%s` on its own tasks: this rule cannot decide this form" % attr)
        return
    dem = _demanding_params(ctx, attr)
    sites = 0
    for n in walk_local(f.node):
        if isinstance(n, ast.Call):
            g = _callee(ctx, f, n)
            if g is None:
                continue
            for prm, a in _bound_args(g, n):
                names = {m.id for m in ast.walk(a) if isinstance(m, ast.Name)} & hv
                if not names:
                    continue
                sites += 1
                bad = (g.qualname, prm) in dem
                rep.check(not bad, rule, "%s:%d handler tasks given to %s(%s=)" % (f.module.relpath, n.lineno, g.qualname, prm),
                          fn, "`%s`: %s reads `.%s` from what it is given%s" % (
                              src(n)[:100], g.qualname, attr,
                              " (line %d)" % dem[(g.qualname, prm)].lineno if bad else ""),
                          "the shutdown handlers' tasks have no `%s`: AttributeError in the shutdown phase (with "
                          "verbose feedback on), before the handlers still pending are cancelled - they run on "
                          "beyond shutdown_timeout" % attr)
        elif isinstance(n, ast.Attribute) and n.attr == attr and isinstance(n.ctx, ast.Load):
            names = {m.id for m in ast.walk(n.value) if isinstance(m, ast.Name)} & hv
            loopv = {m.target.id for m in walk_local(f.node)
                     if isinstance(m, (ast.For, ast.comprehension)) and isinstance(m.target, ast.Name)
                     and any(isinstance(x, ast.Name) and x.id in hv for x in ast.walk(m.iter))}
            if names or (isinstance(n.value, ast.Name) and n.value.id in loopv):
                rep.fail(rule, "%s:%d reads `.%s` from a handler task" % (f.module.relpath, n.lineno, attr), fn,
                         "`%s`" % src(n), "the shutdown handlers' tasks have no `%s`: AttributeError in the "
                         "shutdown phase" % attr)
    rep.need(rule, sites, 1, "calls of the broadcast that pass handler tasks on")
