"""
Rules about the shutdown broadcast (C13) and about task-group discipline under
cancellation (C11).
"""

import ast

from .. import terms as T
from ..index import walk_local
from ..runmodel import covers, is_wdone, is_wpend
from .common import src, stmt_of, trace, kind_name
from .runrules import MEMBERS, conj_items

SHUTTO = T.mk(('attr', T.SELF, 'shutdown_timeout'))


# ================================================================== C13
def guard_atomic(ctx, rep, rule):
    """R13.2: test of the once-guard, then its store, before the broadcast and
    with no suspension in between; no other writer"""
    r = ctx.roles
    an, ip, out = ctx.broadcast()
    fn = r.BROADCAST.qualname
    g = r.guard_attr
    if g is None:
        rep.fail(rule, "%s once-guard" % fn, fn, "no `if self.<flag>: return` at the top of the broadcast",
                 "a second shutdown() (or the relay from the parent) sends co_shutdown to every job again")
        return
    G = T.mk(('attr', T.SELF, g))
    spawns = [e for e in an.events('SPAWN') if e.data['tkind'] == 'shut']
    rep.need(rule, len(spawns), 1, "shutdown task creations")
    for e in spawns:
        rep.check(e.data['gset'] is True, rule, "%s guard set before the broadcast" % e.where, fn,
                  "shutdown handlers launched on a path where self.%s is not yet True" % g,
                  "a concurrent or later co_shutdown() finds the flag unset and sends co_shutdown a second time",
                  trace(e.st))
        rep.check(e.st.facts.get(G) is False or e.st.a('gtested'), rule,
                  "%s guard tested before the broadcast" % e.where, fn,
                  "shutdown handlers launched without testing self.%s" % g,
                  "co_shutdown is sent again on every call", trace(e.st))
    stores = [e for e in an.events('STORE') if e.data['attr'] == g]
    rep.need(rule + ":store", len(stores), 1, "stores of the once-guard")
    for e in stores:
        rep.check(not e.st.a('susp', False) and not e.st.a('nshut', 0), rule,
                  "%s guard stored before any suspension" % e.where, fn,
                  "`%s` after a may-suspend await or after the handlers were launched" % src(stmt_of(e.node)),
                  "between the test and the store another co_shutdown() call passes the test too", trace(e.st))
        rep.check(e.data['val'] == T.TRUE, rule, "%s guard stored True" % e.where, fn,
                  "`%s`" % src(stmt_of(e.node)), "the once-guard is not set", trace(e.st))
    # writers table
    for f in ctx.prog.all_functions():
        for n in walk_local(f.node):
            if isinstance(n, (ast.Assign, ast.AugAssign)):
                tg = n.targets if isinstance(n, ast.Assign) else [n.target]
                for t in tg:
                    if isinstance(t, ast.Attribute) and t.attr == g:
                        ok = f is r.BROADCAST or f.name == '__init__'
                        rep.check(ok, rule, "%s:%d writer of the once-guard" % (f.module.relpath, n.lineno),
                                  f.qualname, "`%s`" % src(n),
                                  "the once-guard is reset outside the constructor: shutdown can be sent twice")


def broadcast_total(ctx, rep, rule):
    """R13.3: one shutdown task for every member, unfiltered, through member dispatch"""
    r = ctx.roles
    an, ip, out = ctx.broadcast()
    fn = r.BROADCAST.qualname
    spawns = [e for e in an.events('SPAWN') if e.data['tkind'] == 'shut']
    rep.need(rule, len(spawns), 1, "shutdown task creations")
    for e in spawns:
        j = e.data['job']
        ok = j is not None and j[0] == 'elem' and j[1] == MEMBERS
        lp = [c for c in e.loops if c.elem == j]
        why = ""
        if ok and lp:
            conds = list(lp[0].conds) + [k for k, v in e.st.facts.items() if T.contains(k, j) and k != MEMBERS]
            if conds:
                ok = False
                why = "filtered by %s" % [T.show(c, 3) for c in conds]
            from ..flow import _may_stop_early
            if lp[0].kind == 'for' and _may_stop_early(lp[0].node):
                ok = False
                why = "the broadcast loop can stop early"
        coro = e.data['coro']
        disp = coro[0] == 'mcall' and coro[2] == 'co_shutdown'
        rep.check(ok, rule, "%s every member receives co_shutdown" % e.where, fn,
                  "shutdown sent to %s %s" % (T.show(j, 3), why),
                  "some jobs (e.g. never started, or already done ones) do not receive co_shutdown",
                  trace(e.st))
        rep.check(disp, rule, "%s member dispatch" % e.where, fn,
                  "shutdown task built from %s" % T.show(coro, 3),
                  "the member's own co_shutdown (the relay, for a nested scheduler) is not what gets called",
                  trace(e.st))
    # the relay: for every nestable class co_shutdown resolves to the broadcast itself
    for cls in r.nestable:
        sup = ctx.prog.effective_supplier(cls, 'co_shutdown')
        rep.check(sup is r.BROADCAST, rule, "%s.co_shutdown is the broadcast (relay)" % cls.name,
                  "class " + cls.name, "%s.co_shutdown resolves to %s (bases: %s)"
                  % (cls.name, sup.qualname if sup else None, ", ".join(cls.base_names)),
                  "a nested scheduler does not relay co_shutdown to its own jobs")


def bounded_then_cancel(ctx, rep, rule, rule_truth):
    """R13.4 bounded wait with shutdown_timeout, stragglers tidied; R13.5 truthful result"""
    r = ctx.roles
    an, ip, out = ctx.broadcast()
    fn = r.BROADCAST.qualname
    D = r.deadline_attr
    waits = [e for e in an.events('AWAIT_ALL') if e.data['covers_shut'] and not e.data['cancelled']]
    rep.need(rule, len(waits), 1, "waits on the shutdown tasks")
    from .runrules import deadline_in_helper_object
    helper = deadline_in_helper_object(ctx, [e.data['timeout'] for e in waits])
    if helper:
        rep.error(rule, "the bound of the shutdown phase is kept in a helper object, %s: this rule cannot decide this form"
                  % helper)
        waits = []
    dstores = [e for e in an.events('STORE') if e.data['attr'] == D]
    for e in waits:
        t = e.data['timeout']
        site = "%s wait bounded by shutdown_timeout" % e.where
        ok = False
        why = "timeout=%s" % T.show(t, 4)
        if t == SHUTTO:
            ok = True
        elif t is None or t == T.NONE:
            ok = any(v and k[0] == 'cmp' and k[1] == 'is' and k[3] == T.NONE and
                     k[2] in (SHUTTO, T.mk(('attr', T.SELF, D))) for k, v in e.st.facts.items())
            why = "no timeout on a path where shutdown_timeout may be set"
            if ok:
                ok = _deadline_from(dstores, SHUTTO, allow_none=True)
        elif t[0] == 'binop' and t[1] == 'Sub' and t[2] == T.mk(('attr', T.SELF, D)) and t[3][0] == 'call':
            ok = _deadline_from(dstores, SHUTTO, clock=t[3][1])
            why = "deadline - clock(), deadline stored as %s" % sorted({T.show(x.data['val'], 4) for x in dstores})
        rep.check(ok, rule, site, fn, "`%s` (%s)" % (src(e.node), why),
                  "the shutdown phase is not bounded by shutdown_timeout (unbounded if None)", trace(e.st))
    rets = an.events('RET')
    rep.need(rule_truth, len(rets), 2, "returns of the broadcast")
    for e in rets:
        rep.check(not e.data['shut_live'], rule, "%s no handler left pending" % e.where, fn,
                  "`%s` with shutdown handlers possibly still pending: %s"
                  % (src(stmt_of(e.node)), [T.show(x, 3) for x in e.data['shut_live']]),
                  "shutdown handlers still running after shutdown_timeout are not cancelled: they outlive the run",
                  trace(e.st))
        want = not e.data['shut_tidied']
        v = e.data['val']
        ok = v == T.mk(('const', want))
        if not ok:
            # not a literal: the value the path conditions give to the returned expression
            # (`success = len(pending) == 0; ...; return success`)
            from ..flow import truth
            ok = truth(v, e.st) is want
        rep.check(ok, rule_truth, "%s result tells whether handlers were cancelled" % e.where, fn,
                  "`%s` on a path where %s" % (src(stmt_of(e.node)),
                                               "stragglers were cancelled" if e.data['shut_tidied']
                                               else "nothing had to be cancelled"),
                  "co_shutdown() must report True iff no handler had to be cancelled (got %s)" % T.show(v, 3),
                  trace(e.st))
    for st in out.nxt:
        rep.fail(rule_truth, "%s falls off its end" % fn, fn, "end of function reached without a boolean",
                 "co_shutdown() returns None", trace(st))


def _deadline_from(dstores, src_term, clock=None, allow_none=False):
    ok = False
    for e in dstores:
        v = e.data['val']
        if v == T.NONE:
            continue
        if v[0] == 'binop' and v[1] == 'Add':
            a, b = v[2], v[3]
            if b[0] == 'call':
                a, b = b, a
            if a[0] == 'call' and b == src_term and (clock is None or a[1] == clock):
                ok = True
                continue
        return False
    return ok or allow_none and bool(dstores)


# ================================================================== C11
def cancellation_edges(ctx, rep, rule, prompt=False):
    """R11.2: every task-owning activation cancels-and-awaits its tasks on the
    CancelledError edge of every suspension point, before leaving its ownership scope"""
    r = ctx.roles
    n = 0
    for cls in r.nestable:
        f = ctx.prog.supplier(cls, 'co_run')
        if f is r.RUN:
            # no job-side wrapper: the run itself is the task root
            an, ip, out = ctx.run(gen_cancel=True)
        else:
            an, ip, out = ctx.explore(f, gen_cancel=True, inline_delegate=True)
        for st, kind, node in out.exc:
            if kind[0] != 'Cancelled':
                continue
            live = st.a('live', frozenset())
            n += 1
            fnode = node
            where = _where_of(ctx, ip, node)
            rep.check(not live, rule, "%s CancelledError edge (run of %s)" % (where, cls.name),
                      _func_of(ctx, node) or f.qualname,
                      "CancelledError delivered at `%s` leaves the nested run with its job tasks alive"
                      % src(_await_of(node)),
                      "when the enclosing scheduler times out or aborts, the jobs of this nested scheduler keep "
                      "running after run() has returned, and receive co_shutdown while still running",
                      trace(st))
        for e in an.events('SHUT'):
            if e.data['phase'] == 'Live':
                rep.fail(rule, "%s shutdown while jobs are alive (%s path)" % (
                    e.where, "cancellation" if e.st.a('cdelivered') else "normal"), _func_of(ctx, e.node) or f.qualname,
                         "`%s` awaited while the job tasks of this run have not been cancelled and awaited"
                         % src(e.node),
                         "jobs receive co_shutdown() while jobs of the same scheduler are still running "
                         "(e.g. when the enclosing scheduler cancels this nested run)", trace(e.st))
        if prompt:
            # ... and the cancellation goes through as soon as those tasks are over: the handler does not start a
            # shutdown phase of its own (that phase belongs to the enclosing scheduler, under its own bound)
            for e in an.events('SHUT'):
                if e.st.a('cdelivered'):
                    rep.fail(rule, "%s no shutdown phase inside a cancellation" % e.where,
                             _func_of(ctx, e.node) or f.qualname,
                             "`%s` awaited after CancelledError was delivered to this nested run" % src(e.node),
                             "the enclosing scheduler, which has timed out or is aborting, waits without bound for "
                             "the shutdown phase of the nested scheduler (its shutdown_timeout, not the enclosing "
                             "one's; for ever when that is None)", trace(e.st))
        rep.need(rule + ":" + cls.name, n, 3, "cancellation edges of the nested run")
    # the broadcast owns the shutdown tasks
    an, ip, out = ctx.broadcast(gen_cancel=True)
    m = 0
    for st, kind, node in out.exc:
        if kind[0] != 'Cancelled':
            continue
        m += 1
        sl = st.a('shut_live', frozenset())
        rep.check(not sl, rule, "%s CancelledError edge (broadcast)" % _where_of(ctx, ip, node),
                  _func_of(ctx, node) or r.BROADCAST.qualname,
                  "CancelledError delivered at `%s` leaves the broadcast with shutdown handlers alive"
                  % src(_await_of(node)),
                  "a scheduler cancelled during its shutdown phase leaves co_shutdown handlers pending in the "
                  "event loop", trace(st))
    rep.need(rule + ":broadcast", m, 1, "cancellation edges of the broadcast")


def _await_of(node):
    return node


def _func_of(ctx, node):
    from ..index import enclosing_func
    f = enclosing_func(ctx.prog, node)
    return f.qualname if f else None


def _where_of(ctx, ip, node):
    from ..index import enclosing_func
    f = enclosing_func(ctx.prog, node)
    if f is None:
        return ip.where(node)
    return "%s:%d" % (f.module.relpath, node.lineno)


def single_cancel_model(ctx, rep, rule):
    """R11.3: every .cancel() of the package is part of a cancel-all-then-await-unbounded"""
    r = ctx.roles
    sites = []
    for f in ctx.prog.all_functions():
        for n in walk_local(f.node):
            if isinstance(n, ast.Call) and isinstance(n.func, ast.Attribute) and n.func.attr == 'cancel' \
                    and not n.args:
                sites.append((f, n))
    rep.need(rule, len(sites), 1, "cancel() call sites")
    seen = {}
    explorations = [ctx.run(), ctx.broadcast()]
    for cls in r.nestable:
        f = ctx.prog.supplier(cls, 'co_run')
        if f is not r.RUN:
            explorations.append(ctx.explore(f, gen_cancel=True, inline_delegate=True))
    for an, ip, out in explorations:
        tidied = {e.data['coll'] for e in an.events('TIDY', 'TIDY_PARTIAL')}
        for e in an.events('CANCEL_ALL'):
            seen.setdefault(id(e.node), []).append(e.data['coll'] in tidied)
        for e in an.events('CANCEL1'):
            seen.setdefault(id(e.node), [])
    for f, n in sites:
        # the loop node or the call itself was seen by an exploration
        hit = id(n) in seen
        par = n
        loop_ok = None
        while par is not None:
            if id(par) in seen and seen[id(par)]:
                loop_ok = all(seen[id(par)])
            par = getattr(par, '_parent', None)
        rep.check(hit and loop_ok is not False, rule, "%s:%d cancel is part of a tidy" % (f.module.relpath, n.lineno),
                  f.qualname, "`%s`" % src(stmt_of(n)),
                  "a task is cancelled without being awaited (or outside the analysed owners): the canceller "
                  "may leave before the task has ended")


def user_shutdown_unconditional(ctx, rep, rule):
    """a coroutine-based job hands the shutdown event to the user's shutdown coroutine whenever one was given:
    the await of the stored coroutine in co_shutdown() is guarded by nothing but the presence of that coroutine
    (not by what the job did during the run)"""
    r = ctx.roles
    n = 0
    for cls in ctx.prog.subclasses(r.jobbase, strict=True):
        if cls in r.nestable or any(cls in x.mro for x in r.nestable):
            continue
        f = cls.methods.get('co_shutdown')
        if f is None:
            continue
        stored = {a.targets[0].attr for g in [cls.methods.get('__init__')] if g is not None
                  for a in walk_local(g.node) if isinstance(a, ast.Assign) and len(a.targets) == 1
                  and isinstance(a.targets[0], ast.Attribute)}
        # locals that only name the stored coroutine: `coshutdown = self.coshutdown`
        alias = {}
        for x in walk_local(f.node):
            if isinstance(x, ast.Assign) and len(x.targets) == 1 and isinstance(x.targets[0], ast.Name) \
                    and isinstance(x.value, ast.Attribute) and isinstance(x.value.value, ast.Name) \
                    and x.value.value.id == 'self' and x.value.attr in stored:
                alias[x.targets[0].id] = x.value.attr

        def attr_of(e):
            if isinstance(e, ast.Attribute) and isinstance(e.value, ast.Name) and e.value.id == 'self' \
                    and e.attr in stored:
                return e.attr
            if isinstance(e, ast.Name) and e.id in alias:
                return alias[e.id]
            return None
        aws = [a for a in walk_local(f.node) if isinstance(a, ast.Await) and attr_of(a.value)]
        if not aws:
            continue
        for a in aws:
            n += 1
            attr = attr_of(a.value)
            guards = []
            node = a
            while node is not None and node is not f.node:
                par = getattr(node, '_parent', None)
                if isinstance(par, (ast.If, ast.While)) and node is not par.test:
                    guards.append(par.test)
                elif isinstance(par, ast.IfExp) and node is not par.test:
                    guards.append(par.test)
                elif isinstance(par, (ast.For, ast.AsyncFor, ast.Try, ast.With)):
                    pass
                node = par
            # early returns before the await
            for s in f.node.body:
                if s.lineno >= a.lineno:
                    break
                if isinstance(s, ast.If) and any(isinstance(x, (ast.Return, ast.Raise)) for x in ast.walk(s)):
                    guards.append(s.test)
            bad = []
            for g in guards:
                reads = {x.attr for x in ast.walk(g) if isinstance(x, ast.Attribute)} | \
                        {x.func.attr for x in ast.walk(g) if isinstance(x, ast.Call) and isinstance(x.func, ast.Attribute)} | \
                        {alias.get(x.id, '<local %s>' % x.id) for x in ast.walk(g) if isinstance(x, ast.Name)
                         and x.id not in ('self', 'None', 'True', 'False')}
                if reads - {attr}:
                    bad.append(src(g))
            rep.check(not bad, rule, "%s:%d user shutdown coroutine awaited whenever it was given"
                      % (f.module.relpath, a.lineno), f.qualname,
                      "`await self.%s` is guarded by %s" % (attr, bad),
                      "a job whose shutdown coroutine was given does not receive the shutdown event in some runs "
                      "(e.g. when it never started, or had failed)")
    rep.need(rule, n, 1, "awaits of a user shutdown coroutine")


def cancellation_propagates(ctx, rep, rule):
    """a nested scheduler that its enclosing scheduler cancels ends *cancelled*: on every path on which a
    CancelledError was delivered to the nested run or to the broadcast, the coroutine is left by that
    CancelledError (after tidying), never by a return or by another exception"""
    r = ctx.roles
    n = 0
    explorations = []
    for cls in r.nestable:
        f = ctx.prog.supplier(cls, 'co_run')
        if f is r.RUN:
            explorations.append((f, ctx.run(gen_cancel=True), "run of %s" % cls.name))
        else:
            explorations.append((f, ctx.explore(f, gen_cancel=True, inline_delegate=True), "run of %s" % cls.name))
    explorations.append((r.BROADCAST, ctx.broadcast(gen_cancel=True), "broadcast"))
    for f, (an, ip, out), what in explorations:
        for st, val, node in out.ret:
            if st.a('cdelivered'):
                n += 1
                rep.fail(rule, "%s return after a cancellation (%s)" % (_where_of(ctx, ip, node), what),
                         _func_of(ctx, node) or f.qualname,
                         "`%s` is reached on a path on which a CancelledError was delivered and caught"
                         % src(node)[:80],
                         "a nested scheduler cancelled by its enclosing scheduler ends as if it had finished: it is "
                         "reported done (with a result) although it was cancelled, and its successors may start",
                         trace(st))
        for st in out.nxt:
            if st.a('cdelivered'):
                n += 1
                rep.fail(rule, "%s falls off its end after a cancellation (%s)" % (f.qualname, what), f.qualname,
                         "end of function reached on a path on which a CancelledError was delivered and caught",
                         "the cancellation is swallowed", trace(st))
        for st, kind, node in out.exc:
            if st.a('cdelivered'):
                n += 1
                rep.check(kind[0] == 'Cancelled' or (kind[0] == 'Raise' and (kind[1] or '').endswith('CancelledError')),
                          rule,
                          "%s leaves by the CancelledError it received (%s)" % (_where_of(ctx, ip, node), what),
                          _func_of(ctx, node) or f.qualname,
                          "a cancelled activation is left by %s" % (kind,),
                          "the cancellation is replaced by another exception", trace(st))
    rep.need(rule, n, 3, "exits reached after a cancellation")
