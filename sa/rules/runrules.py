"""
Rules over the event log of the run entry point (RUN), DESIGN.md section 5,
properties C01-C13.  Every function records obligations under the rule id the
caller gives, so that several properties can share a rule family and still be
reported (and listed as known findings) separately.
"""

import ast

from .. import terms as T
from ..index import walk_local, AnalysisError
from ..runmodel import covers, is_wdone, is_wpend, includes_done
from .common import src, stmt_of, trace

MEMBERS = T.mk(('attr', T.SELF, 'jobs'))


# ----------------------------------------------------------------- matchers
def strip_coll(t):
    """list(x) / set(x) / BestSet(x) / sorted(x) -> x"""
    while True:
        if t[0] == 'call' and t[1] in ('list', 'set', 'tuple', 'BestSet', 'frozenset', 'sorted') \
                and len(t[2]) == 1 and not t[3]:
            t = t[2][0]
        elif t[0] == 'union' and len(t[1]) == 1 and tuple(t[1])[0][0] == 'comp':
            # an empty collection filled by one collecting loop (summarised as a comprehension)
            t = tuple(t[1])[0]
        else:
            return t


def comp_over(t, base):
    """t is a comprehension over exactly `base` yielding its own elements:
    returns (elem, conds) or None"""
    t = strip_coll(t)
    if t[0] != 'comp' or len(t[3]) != 1:
        return None
    key, it, conds = t[3][0]
    if strip_coll(it) != base:
        return None
    elem = T.mk(('elem', it, key))
    if t[2] != elem:
        return None
    return elem, conds


def neg(t):
    return T.mk(('unop', 'not', t))


def conj_items(conds):
    """flatten a tuple of conditions and top-level `and`s"""
    out = []
    for c in conds:
        if c[0] == 'boolop' and c[1] == 'and':
            out += conj_items(c[2])
        else:
            out.append(c)
    return out


def mcall(recv, name):
    return T.mk(('mcall', recv, name, (), ()))


def fn_reads(ctx, func):
    """attributes of self a method reads"""
    out = set()
    if func is None:
        return out
    for n in walk_local(func.node):
        if isinstance(n, ast.Attribute) and isinstance(n.value, ast.Name) and n.value.id == func.params[0] \
                and isinstance(n.ctx, ast.Load):
            # skip method names (self.m())
            par = getattr(n, '_parent', None)
            if isinstance(par, ast.Call) and par.func is n:
                sub = ctx.prog.supplier(func.cls, n.attr)
                if sub is not None and sub is not func:
                    out |= fn_reads(ctx, sub)
                continue
            out.add(n.attr)
    return out


def _never_started_when(ctx, pred, val):
    """evaluate the life-cycle predicate `pred` over the 7-point domain: if `pred() == val` holds
    only for never-scheduled jobs -> True (exact once-guard); if it also holds for scheduled
    jobs that are not running yet -> False (weak guard); if it holds for no idle job -> None"""
    from . import predicates
    from .. import tt
    dom, fin = predicates.lifecycle_domain(ctx)
    ev = predicates.evaluator(ctx, ctx.roles.jobbase)
    try:
        tab = tt.table(ev, pred, dom)
    except tt.Inconclusive:
        return None
    pts = [lbl for lbl, _ in dom if tab[lbl][0] == 'ret' and bool(tab[lbl][1]) == bool(val)]
    if not any(p.startswith('idle') for p in pts):
        return None
    return all(p.startswith('idle') for p in pts)


def run_starts(an):
    return [e for e in an.events('SPAWN') if e.data['tkind'] in ('run', 'bare')]


def entry_starts(an):
    return [e for e in run_starts(an) if e.data['nwait'] == 0]


def succ_starts(an):
    return [e for e in run_starts(an) if e.data['nwait'] >= 1]


def innermost_loop(e, elemterm):
    for c in reversed(e.loops):
        if c.elem == elemterm:
            return c
    return None


def gen_summary(ctx, t):
    """a generator object of a package generator function whose body is
    `for x in S: ... yield x`: returns (base collection, conds on the element)"""
    from ..flow import Analysis, Interp
    t = strip_coll(t)
    if t[0] != 'gen':
        return None
    f = ctx.prog.funcs.get(t[1])
    if f is None:
        return None

    class Cap(Analysis):
        def __init__(self):
            self.ys = []

        def on_yield(self, ip, node, val, st, fr):
            self.ys.append((val, st))
            return st
    cap = Cap()
    ip = Interp(ctx.prog, cap)
    ip.run(f, bindings=dict(t[2]))
    ctx.stats['functions_analysed'].add(f.qualname)
    return cap.ys


# ============================================================ C01 / R01.2
def guarded_start(ctx, rep, rule):
    r = ctx.roles
    an, ip, out = ctx.run()
    fn = r.RUN.qualname
    starts = run_starts(an)
    rep.need(rule, len(starts), 2, "job start sites x states")
    n_entry = n_succ = 0
    for e in starts:
        j = e.data['job']
        site = "%s start of %s" % (e.where, T.show(j, 2))
        if j is None:
            rep.fail(rule, site, fn, "`%s`" % src(stmt_of(e.node)), "a start whose job cannot be identified",
                     trace(e.st))
            continue
        if e.data['nwait'] == 0:
            n_entry += 1
            ok, why = entry_filter(ctx, e, j, exact=False)
            rep.check(ok, rule, site + " (entry)", fn,
                      "initial start ranges over %s" % why,
                      "a job that has requirements is started when the run begins, before they have finished",
                      trace(e.st), detail=why)
        else:
            n_succ += 1
            ok, why = all_requirements_done(e, j)
            rep.check(ok, rule, site + " (successor)", fn,
                      "start of a successor guarded by: %s" % why,
                      "a job can start while one of its requirements has not finished",
                      trace(e.st), detail=why)
    rep.need(rule + ":entry", n_entry, 1, "entry starts")
    rep.need(rule + ":successor", n_succ, 1, "successor starts")


def entry_filter(ctx, e, j, exact):
    """is j ranging over FILTER(MEMBERS, not required)?  exact: nothing else in the filter"""
    if j[0] != 'elem':
        return False, "a single job %s (not the members without requirement)" % T.show(j, 3)
    coll = strip_coll(j[1])
    lp = innermost_loop(e, j)
    if lp is not None and lp.conds:
        if exact:
            return False, "the start comprehension has its own filter %s" % [T.show(c, 3) for c in lp.conds]
    if coll[0] == 'gen':
        ys = gen_summary(ctx, coll)
        if not ys:
            return False, "generator %s yields nothing recognisable" % coll[1]
        for val, st in ys:
            if not (val[0] == 'elem' and strip_coll(val[1]) == MEMBERS):
                return False, "generator %s yields %s" % (coll[1], T.show(val, 3))
            req = T.mk(('attr', val, 'required'))
            if st.facts.get(req) is not False:
                return False, "generator %s yields members without testing `required`" % coll[1]
            if exact:
                extra = [k for k in st.facts if T.contains(k, val) and k != req]
                if extra:
                    return False, "generator %s filters on more than `required`: %s" % (
                        coll[1], [T.show(x, 3) for x in extra])
        return True, "members yielded by %s when they have no requirement" % coll[1]
    c = comp_over(coll, MEMBERS)
    if c is None:
        return False, "%s, which is not the members filtered on `required`" % T.show(coll, 4)
    elem, conds = c
    want = neg(T.mk(('attr', elem, 'required')))
    items = conj_items(conds)
    if want not in items:
        return False, "members filtered by %s (no `not job.required` test)" % [T.show(x, 3) for x in items]
    if exact and len(items) != 1:
        return False, "members filtered by more than `not job.required`: %s" % [T.show(x, 3) for x in items]
    return True, "the members that have no requirement"


def all_requirements_done(e, j):
    """the path condition contains: for all r in j.required: r.is_done()"""
    req = T.mk(('attr', j, 'required'))
    for k, v in e.st.facts.items():
        if not v:
            continue
        if k[0] == 'forall' and strip_coll(k[1]) == req:
            elem = T.mk(('elem', k[1], k[2]))
            want = (mcall(elem, 'is_done'), True)
            alts = k[3]
            if alts and all(want in alt for alt in alts):
                return True, "for every r in job.required: r.is_done()"
            return False, "a loop over job.required whose surviving paths do not all test r.is_done(): %s" % (
                [[(T.show(a, 3), b) for a, b in alt] for alt in alts])
        if k[0] == 'call' and k[1] == 'all' and len(k[2]) == 1:
            c = k[2][0]
            if c[0] == 'comp' and len(c[3]) == 1 and strip_coll(c[3][0][1]) == req and not c[3][0][2]:
                elem = T.mk(('elem', c[3][0][1], c[3][0][0]))
                if c[2] == mcall(elem, 'is_done'):
                    return True, "all(r.is_done() for r in job.required)"
                return False, "all(...) over job.required of %s, not r.is_done()" % T.show(c[2], 3)
    if e.st.known(req) is False or e.st.a('noreq') == j:
        return True, "job.required is known to be empty on this path (nothing to wait for)"
    return False, "no universally quantified test of job.required on this path"


# ====================================================== C02 / R02.1 R02.2 R02.3
def count_term(t, base_ok, forever_of):
    """t == len(<comprehension over base, filtered by exactly `not forever`>) ?
    returns (ok, why)"""
    if t[0] == 'call' and t[1] == 'len' and len(t[2]) == 1:
        c = strip_coll(t[2][0])
    elif t[0] == 'call' and t[1] == 'sum' and len(t[2]) == 1 and t[2][0][0] == 'comp' \
            and t[2][0][2] == ('const', 1):
        c = t[2][0]
        c = T.mk(('comp', 'list', ('elem', c[3][0][1], c[3][0][0]), c[3])) if len(c[3]) == 1 else c
    else:
        return False, "%s is not a count of a filtered collection" % T.show(t, 4)
    if c[0] != 'comp' or len(c[3]) != 1:
        return False, "%s is not a single-loop comprehension" % T.show(c, 4)
    key, it, conds = c[3][0]
    if not base_ok(strip_coll(it)):
        return False, "counts over %s" % T.show(it, 3)
    elem = T.mk(('elem', it, key))
    if c[2] != elem and c[0] == 'comp' and t[1] == 'len':
        # a count of a mapped collection is fine when the mapping is 1:1 (list); sets could merge
        if c[1] != 'list':
            return False, "counts a set of mapped elements %s" % T.show(c[2], 3)
    want = neg(forever_of(elem))
    items = conj_items(conds)
    if items != [want]:
        return False, "filter is %s, expected exactly `not forever`" % [T.show(x, 3) for x in items]
    return True, "count of non-forever elements"


def success_accounting(ctx, rep, rule, rule_forever=None):
    r = ctx.roles
    an, ip, out = ctx.run()
    fn = r.RUN.qualname
    rets = [e for e in an.events('RET') if e.data['val'] == T.TRUE]
    rep.need(rule, len(rets), 1, "success returns")
    n = 0
    for e in rets:
        site = "%s `return True`" % e.where
        if e.data['phase'] == 'NoTasks':
            ok = e.st.facts.get(MEMBERS) is False or e.data.get('no_members')
            rep.check(ok, rule, site + " (empty scheduler)", fn,
                      "`return True` before any start, not guarded by `not self.jobs`",
                      "the run reports success without having run its jobs", trace(e.st))
            continue
        cause = e.data['cause']
        if cause is None or cause[0] != 'success':
            rep.fail(rule, site, fn, "`return True` on a path whose cause is %s" % (cause[0] if cause else None),
                     "the run reports success although not all non-forever jobs completed "
                     "(or although it timed out / a critical job failed)", trace(e.st))
            continue
        n += 1
        cmp_ = cause[1]
        op, a, b = cmp_[1], cmp_[2], cmp_[3]
        if b[0] == 'acc' and a[0] != 'acc':
            a, b = b, a
            op = {'<=': '>=', '>=': '<=', '<': '>', '>': '<'}.get(op, op)
        if a[0] == 'acc' and b[0] == 'acc' and not T.mentions(a, is_wdone) and T.mentions(b, is_wdone):
            # both sides were counted by loops: the one counted over the done sets is the accumulator
            a, b = b, a
            op = {'<=': '>=', '>=': '<=', '<': '>', '>': '<'}.get(op, op)
        if b[0] == 'acc' and b[1] == ('const', 0) and len(b[2]) == 1 and not T.mentions(b, is_wdone):
            # target = 0; for j in members: if not j.forever: target += 1  -- one increment, made before the loop
            b = tuple(b[2])[0]
        ok = op in ('==', '>=')
        rep.check(ok, rule, site + " comparison", fn, "completion test `%s`" % T.show(cmp_, 3),
                  "success is declared when the count of completed jobs merely relates to the target by `%s`" % op,
                  trace(e.st))
        # target: number of non-forever members, fixed before the loop
        okt, why = count_term(b, lambda base: base == MEMBERS,
                              lambda el: T.mk(('attr', el, 'forever')))
        rep.check(okt, rule_forever or rule, site + " target", fn,
                  "target of the completion test: %s (%s)" % (T.show(b, 4), why),
                  "the number of jobs to wait for is not the number of non-forever members: the run ends "
                  "early, or waits for forever jobs and never ends", trace(e.st), detail=why)
        # accumulator: 0 + increments, each a count of non-forever tasks of the current done set
        oka = a[0] == 'acc' and a[1] == ('const', 0)
        why = "accumulator %s" % T.show(a, 4)
        if oka:
            for inc in a[2]:
                ok1, w1 = count_term(
                    inc, lambda base: is_wdone(base),
                    lambda el: T.mk(('attr', ('attr', el, r.task_job_attr), 'forever')))
                if not ok1:
                    oka, why = False, "increment %s: %s" % (T.show(inc, 4), w1)
        rep.check(oka, rule_forever or rule, site + " counter", fn,
                  "completed-jobs counter: %s" % why,
                  "completions are mis-counted (forever jobs counted, failed jobs not counted, or a stale "
                  "set counted): success is reported early or never", trace(e.st), detail=why)
    for e in an.events('AUG'):
        if e.data['val'][0] == 'acc' and e.st.a('nwait', 0) >= 1:
            rep.check(e.st.a('incs', 0) == 0, rule, "%s counter updated once per iteration" % e.where, fn,
                      "`%s` executed more than once per loop iteration" % src(stmt_of(e.node)),
                      "a completion is counted twice: success is reported before all jobs are done",
                      trace(e.st))
    rep.need(rule + ":guarded", n, 1, "guarded success returns")


def batches_disjoint(ctx, rep, rule):
    r = ctx.roles
    an, ip, out = ctx.run()
    fn = r.RUN.qualname
    waits = an.events('WAIT')
    rep.need(rule, len(waits), 1, "main waits")
    for e in waits:
        rep.check(not e.data['uncovered'], rule, "%s waits on every live task" % e.where, fn,
                  "main wait on %s misses live tasks %s" % (T.show(e.data['arg'], 3),
                                                            [T.show(x, 3) for x in e.data['uncovered']]),
                  "a started task is never waited for: its completion is never seen, the run cannot finish",
                  trace(e.st))
        rep.check(not includes_done(e.data['arg']), rule,
                  "%s does not wait again on finished tasks" % e.where, fn,
                  "main wait on %s includes already finished tasks" % T.show(e.data['arg'], 3),
                  "finished tasks are reported done again on every iteration and counted more than once",
                  trace(e.st))


def once_guard(ctx, rep, rule):
    r = ctx.roles
    an, ip, out = ctx.run()
    fn = r.RUN.qualname
    starts = succ_starts(an)
    rep.need(rule, len(starts), 1, "successor starts")
    reg = r.registry_attr
    for e in starts:
        j = e.data['job']
        site = "%s once-guard" % e.where
        guard = None
        for k, v in e.st.facts.items():
            if k[0] == 'mcall' and k[1] == j and not k[3]:
                f = ctx.prog.supplier(r.jobbase, k[2])
                if f is not None and _never_started_when(ctx, k[2], v) is not None:
                    exact = _never_started_when(ctx, k[2], v)
                    reads = fn_reads(ctx, f)
                    # a predicate that is true exactly on never-scheduled jobs reads the registry only
                    guard = (k, reads if not exact else {reg}, "%s%s()" % ("" if v else "not ", k[2]))
            elif k[0] == 'cmp' and k[1] in ('is', 'is not') and k[3] == T.NONE and T.is_attr(k[2]) \
                    and k[2][1] == j and v == (k[1] == 'is'):
                guard = (k, {k[2][2]}, "%s is None" % k[2][2])
            elif T.is_attr(k) and k[1] == j and v is False and k[2] in (reg, r.running_attr):
                guard = (k, {k[2]}, "not %s" % k[2])
            if guard and reg in guard[1]:
                break
        if guard is None:
            rep.fail(rule, site, fn, "successor started with no already-started test on this path",
                     "a job that is the successor of two tasks finishing in different iterations is started "
                     "twice: its body runs twice", trace(e.st))
            continue
        reads = guard[1]
        if reg in reads and reads <= {reg}:
            rep.ok(rule, site, "guard %s reads %s, which the start stores synchronously" % (guard[2], reg))
            continue
        # the guard reads something the start does not set synchronously
        rep.check(not e.data['susp'], rule, site, fn,
                  "once-guard `%s` reads %s, which is set only by the started task after it acquired a window "
                  "slot, and a may-suspend await lies between the main wait and this start"
                  % (guard[2], sorted(reads)),
                  "with a full window a successor stays not-running; if another of its requirements finishes "
                  "during that suspension it is a candidate again in the next iteration and is started twice",
                  trace(e.st))
    # the start itself must register the task synchronously
    regs = [e for e in an.events('STORE') if e.data['attr'] == reg and e.data['val'][0] == 'task']
    rep.check(bool(regs), rule, "%s start registers the task" % fn, fn,
              "no store of the created task into job.%s" % reg,
              "the registry that guards against double starts is never filled")


# ================================================================ C05
def detection_exact(ctx, rep, rule):
    r = ctx.roles
    an, ip, out = ctx.run()
    fn = r.RUN.qualname
    n = 0
    tj = r.task_job_attr

    def says(alt, terms, val):
        """the path facts `alt` say that one of `terms` is set (val=True) / unset (val=False): by its truth
        value, or by a comparison with None"""
        for a, b in alt:
            if a in terms and b == val:
                return True
            if a[0] == 'cmp' and a[1] in ('is not', '!=', 'is', '==') and T.NONE in (a[2], a[3]):
                x = a[3] if a[2] == T.NONE else a[2]
                if x in terms:
                    isset = b if a[1] in ('is not', '!=') else (not b)
                    if isset == val:
                        return True
        return False

    def atoms(key):
        elem = T.mk(('elem', key[1], key[2]))
        job = T.mk(('attr', elem, tj))
        return elem, job
    seen = set()
    for e in an.events('RET', 'TIDY', 'SHUT'):
        c = e.st.a('cause') or (e.data.get('cause') if e.kind == 'RET' else None)
        if not c or c[0] != 'critical' or c[1] in seen:
            continue
        seen.add(c[1])
        n += 1
        key = c[1]
        elem, job = atoms(key)
        raised = [mcall(job, 'raised_exception'), T.mk(('attr', elem, '_exception')),
                  mcall(elem, 'exception')]
        crit = [mcall(job, 'is_critical'), T.mk(('attr', job, 'critical'))]
        ok = bool(key[3]) and all(says(alt, raised, True) and any((a, True) in alt for a in crit)
                                  for alt in key[3])
        rep.check(ok and is_wdone(key[1]), rule, "%s abort condition" % e.where, fn,
                  "abort flag set when: %s" % [[(T.show(a, 3), b) for a, b in alt] for alt in key[3]],
                  "the run aborts on something else than `a done task raised and its job is critical` "
                  "(a non-critical failure aborts the run, or a critical one does not)", trace(e.st))
    rep.check(n > 0, rule, "%s has an abort path" % fn, fn,
              "no path of the run leaves the loop because a done task raised and its job is critical",
              "a critical failure is never detected: the run carries on as if nothing happened")
    # and the complement on the paths that go on
    m = 0
    for e in succ_starts(an):
        site = e.st.a('cur_wait')
        wd = T.mk(('wdone', site))
        found = None
        for k, v in e.st.facts.items():
            if v and k[0] == 'forall' and k[1] == wd:
                elem, job = atoms(k)
                interesting = (mcall(job, 'raised_exception'), mcall(job, 'is_critical'),
                               T.mk(('attr', job, 'critical')), T.mk(('attr', elem, '_exception')))
                if any(T.contains(a, elem) and (a in interesting or (a[0] == 'cmp' and (a[2] in interesting
                                                                                       or a[3] in interesting)))
                       for alt in k[3] for a, _ in alt):
                    found = (k, elem, job)
        m += 1
        if found is None and e.st.a('qdropped'):
            rep.error(rule.replace('.1', '.2'), "%s: whether the abort test of this iteration precedes the start cannot be "
                      "told: a statement about every done task (the emptiness of a filtered list, any() / all()) was made "
                      "on one branch of an `if` and forgotten where the branches join" % e.where)
            continue
        if found is None:
            rep.fail(rule.replace('.1', '.2'), "%s start after the abort test" % e.where, fn,
                     "successor started on a path where the critical-failure test of this iteration has not "
                     "been evaluated", "a job is started in the very iteration in which a critical job failed",
                     trace(e.st))
            continue
        k, elem, job = found
        raised = [mcall(job, 'raised_exception'), T.mk(('attr', elem, '_exception'))]
        crit = [mcall(job, 'is_critical'), T.mk(('attr', job, 'critical'))]
        ok = bool(k[3]) and all(says(alt, raised, False) or any((a, False) in alt for a in crit)
                                for alt in k[3])
        rep.check(ok, rule, "%s continues only without critical failure" % e.where, fn,
                  "run continues when: %s" % [[(T.show(a, 3), b) for a, b in alt] for alt in k[3]],
                  "the run carries on although a done task raised and its job is critical", trace(e.st))
        rep.ok(rule.replace('.1', '.2'), "%s start after the abort test" % e.where)
    rep.need(rule + ":continue", m, 1, "successor starts")


# ============================================ EXIT automaton (C05 C08 C09 C11 C13)
def exit_discipline(ctx, rep, rule_tidy, rule_shut=None, rule_nostart=None, causes=None, shut_even_unstarted=False):
    """no return / raise with live tasks; shutdown only after tidy; nothing started after tidy"""
    r = ctx.roles
    an, ip, out = ctx.run()
    fn = r.RUN.qualname
    rets = [e for e in an.events('RET') if e.data['phase'] != 'NoTasks' or e.st.a('nstart', 0)]
    n = 0
    for e in rets:
        c = e.data['cause']
        cname = c[0] if c else 'unknown'
        if causes and cname not in causes:
            continue
        n += 1
        ph = e.data['phase']
        site = "%s exit (%s)" % (e.where, cname)
        rep.check(ph in ('Tidied', 'Shut'), rule_tidy, site + " tidied", fn,
                  "`%s` on the %s path with job tasks possibly still pending (state %s)"
                  % (src(stmt_of(e.node)), cname, ph),
                  "the run returns while tasks it started are still running or queued: they keep running "
                  "after the run is over", trace(e.st))
        if rule_shut:
            rep.check(ph == 'Shut', rule_shut, site + " shut down", fn,
                      "`%s` on the %s path without the shutdown broadcast (state %s)"
                      % (src(stmt_of(e.node)), cname, ph),
                      "the run ends on this path without sending co_shutdown to its jobs", trace(e.st))
    if shut_even_unstarted:
        # an exit before anything was started: the jobs are still owed their co_shutdown, unless there is none
        jobs_t = T.mk(('attr', T.SELF, r.members_attr if hasattr(r, 'members_attr') else 'jobs'))
        for e in an.events('RET'):
            if e.data['phase'] != 'NoTasks' or e.st.a('nstart', 0):
                continue
            empty = e.st.facts.get(jobs_t) is False or any(
                v is True and k[0] == 'cmp' and k[1] == '==' and T.contains(k, jobs_t) and ('const', 0) in k
                for k, v in e.st.facts.items())
            n += 1
            rep.check(empty, rule_shut, "%s exit before any start" % e.where, fn,
                      "`%s` although the scheduler may have jobs, without the shutdown broadcast"
                      % src(stmt_of(e.node)),
                      "the run ends on this path without sending co_shutdown to its jobs (none of them was started, "
                      "all of them are owed it)", trace(e.st))
    if causes is None:
        for e in an.events('RAISE'):
            if e.data['phase'] == 'Live':
                rep.fail(rule_tidy, "%s raise" % e.where, fn, "`%s` with live tasks" % src(stmt_of(e.node)),
                         "the run raises while tasks it started are still running", trace(e.st))
        for st in out.nxt:
            rep.fail(rule_tidy, "%s falls off its end" % fn, fn, "end of function reached",
                     "the run ends without a verdict", trace(st))
    if rule_shut:
        for e in an.events('SHUT'):
            c = e.st.a('cause') or an.cause_of(e.st)
            cname = c[0] if c else 'unknown'
            if causes and cname not in causes:
                continue
            rep.check(e.data['phase'] in ('Tidied', 'NoTasks'), rule_shut, "%s shutdown after tidy (%s)" % (e.where, cname), fn,
                      "shutdown broadcast awaited in state %s" % e.data['phase'],
                      "co_shutdown is sent to the jobs while some of them are still running", trace(e.st))
    if rule_nostart:
        for e in run_starts(an):
            rep.check(e.data['phase'] in ('NoTasks', 'Live'), rule_nostart, "%s no start after tidy" % e.where, fn,
                      "job started in state %s" % e.data['phase'],
                      "a job is started after the run decided to end", trace(e.st))
        for e in an.events('WAIT'):
            rep.check(e.data['phase'] in ('NoTasks', 'Live'), rule_nostart, "%s no wait after tidy" % e.where, fn,
                      "main wait in state %s" % e.data['phase'],
                      "the run goes on waiting after it cancelled its tasks", trace(e.st))
    rep.need(rule_tidy, n, 1, "exits after a start")
    return n


def tidy_shape(ctx, rep, rule):
    """R05.4: tidy = cancel everything, then await everything, without bound"""
    r = ctx.roles
    an, ip, out = ctx.run()
    fn = r.RUN.qualname
    tidies = [e for e in an.events('TIDY') if e.data['what'] == 'jobs']
    rep.need(rule, len(tidies), 1, "tidy sites x states")
    for e in tidies:
        rep.ok(rule, "%s cancel-all then await-all, unbounded" % e.where)
    for e in an.events('TIDY_PARTIAL'):
        rep.fail(rule, "%s partial tidy" % e.where, fn,
                 "tidy of %s does not cover the live tasks %s" % (T.show(e.data['coll'], 3),
                                                                 [T.show(x, 3) for x in e.data['live']]),
                 "some tasks are neither cancelled nor awaited when the run ends", trace(e.st))
    for e in an.events('CANCEL_PARTIAL', 'CANCEL_FILTERED'):
        coll = e.data['coll']
        if T.mentions(coll, is_wpend) or T.mentions(coll, lambda s: len(s) == 3 and s[0] == 'task'):
            rep.fail(rule, "%s partial cancel" % e.where, fn,
                     "not every element of %s is cancelled" % T.show(coll, 3),
                     "tasks that should be cancelled at the end of the run are left running, and the "
                     "unbounded wait that follows never returns", trace(e.st))
    for e in an.events('AWAIT_ALL'):
        d = e.data
        if d['covers_live'] and not d['cancelled']:
            rep.fail(rule, "%s wait for normal completion" % e.where, fn,
                     "`%s` awaits live tasks that were not cancelled" % src(e.node),
                     "the run waits for the normal completion of its jobs instead of cancelling them",
                     trace(e.st))
        if d['covers_live'] and d['cancelled'] and d['bounded']:
            rep.fail(rule, "%s bounded tidy" % e.where, fn,
                     "`%s` awaits the cancelled tasks with a timeout" % src(e.node),
                     "cancelled tasks may still be running when the run returns", trace(e.st))
        if d['how'] == 'wait' and d['return_when'] is not None and d['cancelled'] and d['covers_live'] \
                and not (d['return_when'][0] == 'mod' and d['return_when'][1].endswith('ALL_COMPLETED')):
            rep.fail(rule, "%s tidy waits for all" % e.where, fn, "`%s`" % src(e.node),
                     "the tidy returns before all cancelled tasks have finished", trace(e.st))


# ================================================================ C08
def deadline_in_helper_object(ctx, terms):
    """the name of the helper class when a wait's timeout is read from a field of an object of a package class kept
    in an attribute of the scheduler (`self._deadline.expiration - clock()`): the deadline rules read a deadline
    kept in an attribute of the scheduler itself, and say so instead of guessing"""
    for t in terms:
        if t is None:
            continue
        for s in T.subterms(t):
            if isinstance(s, tuple) and len(s) == 3 and s[0] == 'attr' and isinstance(s[1], tuple) and s[1][:2] == ('attr', T.SELF):
                for cls in ctx.prog.classes.values():
                    fields = {n.target.id for n in cls.node.body if isinstance(n, ast.AnnAssign)
                              and isinstance(n.target, ast.Name)}
                    fields |= {n.attr for m in cls.methods.values() for n in ast.walk(m.node)
                               if isinstance(n, ast.Attribute) and isinstance(n.ctx, ast.Store)
                               and isinstance(n.value, ast.Name) and n.value.id == 'self'}
                    if s[2] in fields and cls not in ctx.roles.sched.mro and ctx.roles.sched not in cls.mro \
                            and ctx.roles.jobbase not in cls.mro:
                        return "%s (self.%s.%s)" % (cls.name, s[1][2], s[2])
    return None


def _must_store_attr(stmts, attr):
    """does every fall-through path of the statement list store `self.<attr>`?  (None: it never falls through)"""
    done = False
    for s in stmts:
        if isinstance(s, (ast.Return, ast.Raise, ast.Continue, ast.Break)):
            return None if not done else True
        if isinstance(s, (ast.Assign, ast.AnnAssign)):
            tg = s.targets if isinstance(s, ast.Assign) else [s.target]
            if any(isinstance(t, ast.Attribute) and t.attr == attr and isinstance(t.value, ast.Name)
                   and t.value.id == 'self' for t in tg):
                done = True
        elif isinstance(s, ast.If):
            b, e = _must_store_attr(s.body, attr), _must_store_attr(s.orelse, attr)
            if b is None and e is None:
                return None if not done else True
            if (b is None or b) and (e is None or e):
                done = True
        elif isinstance(s, (ast.With, ast.AsyncWith)):
            if _must_store_attr(s.body, attr):
                done = True
        elif isinstance(s, ast.Try):
            if _must_store_attr(s.finalbody, attr):
                done = True
    return done


def deadline_always_stored(ctx, rep, rule):
    """the helper that records the deadline of a phase records it on every path - `None` included: the run and the
    shutdown phase share the attribute, a path that leaves it alone hands the previous phase's deadline to the next"""
    r = ctx.roles
    D = r.deadline_attr
    if D is None:
        rep.error(rule, "deadline attribute not resolved")
        return
    n = 0
    for c in r.sched.mro:
        for f in c.methods.values():
            if f.name == '__init__':
                continue
            if not any(isinstance(t, ast.Attribute) and t.attr == D and isinstance(t.ctx, ast.Store)
                       for t in walk_local(f.node)):
                continue
            n += 1
            # (an early `return` taken before any store leaves the old value in place just the same)
            early = [x for x in walk_local(f.node) if isinstance(x, ast.Return)]
            ok = _must_store_attr(f.node.body, D) is True and not any(
                not _stored_before(f, x, D) for x in early)
            rep.check(ok, rule, "%s records the deadline on every path" % f.qualname, f.qualname,
                      "a path through %s leaves `self.%s` as it was" % (f.qualname, D),
                      "the shutdown phase (or the next run) inherits the deadline of the phase before it: with "
                      "shutdown_timeout=None the handlers are cancelled when the run's own timeout expires")
    rep.need(rule, n, 1, "functions that store the deadline")


def _stored_before(f, ret, attr):
    for t in walk_local(f.node):
        if isinstance(t, ast.Attribute) and t.attr == attr and isinstance(t.ctx, ast.Store) and t.lineno < ret.lineno:
            return True
    return False


def deadline(ctx, rep, rule_fixed, rule_armed):
    r = ctx.roles
    an, ip, out = ctx.run()
    fn = r.RUN.qualname
    D = r.deadline_attr
    waits = an.events('WAIT')
    rep.need(rule_armed, len(waits), 1, "main waits")
    helper = deadline_in_helper_object(ctx, [e.data['timeout'] for e in waits])
    if helper:
        rep.error(rule_fixed, "the deadline of the run is kept in a helper object, %s: this rule reads a deadline stored "
                  "in an attribute of the scheduler and cannot decide this form" % helper)
        return
    clocks = set()
    armed = 0
    for e in waits:
        t = e.data['timeout']
        site = "%s wait armed with the remaining time" % e.where
        if t is None or t == T.NONE:
            # acceptable only when the deadline itself is None (no timeout configured)
            dnone = D is not None and any(
                v and k[0] == 'cmp' and k[1] == 'is' and k[2] == T.mk(('attr', T.SELF, D)) and k[3] == T.NONE
                for k, v in e.st.facts.items())
            dnone = dnone or e.st.a('dl_none')
            rep.check(bool(dnone), rule_armed, site + " (no deadline)", fn,
                      "main wait `%s` has no timeout on a path where a deadline may exist" % src(e.node),
                      "the run does not notice its timeout: it lasts as long as its jobs do", trace(e.st))
            continue
        ok = t[0] == 'binop' and t[1] == 'Sub' and D is not None and t[2] == T.mk(('attr', T.SELF, D)) \
            and t[3][0] == 'call' and not t[3][2]
        if ok:
            clocks.add(t[3][1])
            armed += 1
        rep.check(ok, rule_fixed, site, fn,
                  "main wait timeout is %s, not <deadline> - <clock>()" % T.show(t, 4),
                  "the wait is re-armed with the full timeout (or something else) on every iteration: a run of n "
                  "short jobs can last n times its timeout", trace(e.st))
    rep.check(armed > 0, rule_armed, "%s some wait is armed" % fn, fn, "no main wait carries the remaining time",
              "the timeout of the scheduler has no effect")
    # the stores that reach the first wait
    stores = [e for e in an.events('STORE') if e.data['attr'] == D and e.data['obj'] == T.SELF]
    first = [e for e in stores if e.data['nwait'] == 0 and e.data['phase'] == 'NoTasks']
    rep.need(rule_fixed + ":store", len(first), 1, "deadline stores before the loop")
    ok_binop = 0
    for e in first:
        v = e.data['val']
        site = "%s deadline = clock() + own timeout" % e.where
        if v == T.NONE:
            # "no deadline" is for timeout=None only: 0 is a legal timeout (expires at once)
            TO = T.mk(('attr', T.SELF, 'timeout'))
            ident = e.st.facts.get(T.mk(('cmp', 'is', TO, T.NONE))) is True or \
                e.st.facts.get(T.mk(('cmp', 'is not', TO, T.NONE))) is False
            falsy = e.st.facts.get(TO) is False
            rep.check(ident and not falsy, rule_fixed, "%s no deadline only when timeout is None" % e.where, fn,
                      "`%s` stores no deadline %s" % (src(stmt_of(e.node)),
                                                      "when the timeout is merely falsy (0 included)" if falsy
                                                      else "without testing `timeout is None`"),
                      "a scheduler with timeout=0 never expires: run() lasts as long as its jobs", trace(e.st))
            continue
        good = v[0] == 'binop' and v[1] == 'Add'
        if good:
            a, b = v[2], v[3]
            if b[0] == 'call':
                a, b = b, a
            good = a[0] == 'call' and not a[2] and b == T.mk(('attr', T.SELF, 'timeout'))
            if good:
                clocks.add(a[1])
                ok_binop += 1
        rep.check(good, rule_fixed, site, fn, "deadline stored as %s" % T.show(v, 4),
                  "the deadline is not `start of this run + this scheduler's own timeout`", trace(e.st))
    rep.check(ok_binop > 0, rule_fixed, "%s deadline computed" % fn, fn, "no path stores clock()+timeout",
              "the deadline is never set from the timeout")
    rep.check(len(clocks) <= 1, rule_fixed, "%s one clock" % fn, fn,
              "deadline and remaining time use different clocks: %s" % sorted(clocks),
              "the remaining time is computed against another clock than the deadline: the timeout is "
              "meaningless")
    for e in stores:
        if e.data['nwait'] >= 1 and e.data['phase'] == 'Live':
            rep.fail(rule_fixed, "%s deadline moved during the run" % e.where, fn,
                     "`%s` between two main waits" % src(stmt_of(e.node)),
                     "the deadline slides: the run lasts longer than its timeout", trace(e.st))
    for e in stores:
        if e.data['nwait'] == 0 and e.data['phase'] == 'Live':
            rep.fail(rule_fixed, "%s deadline set after the first start" % e.where, fn,
                     "`%s`" % src(stmt_of(e.node)), "the deadline is not measured from the beginning of the run",
                     trace(e.st))


# ================================================================ C09
def forever_confined(ctx, rep, rule):
    r = ctx.roles
    an, ip, out = ctx.run()
    fn = r.RUN.qualname
    isf = lambda s: T.is_attr(s, 'forever')
    n = 0
    for e in run_starts(an):
        n += 1
        bad = []
        j = e.data['job']
        if j is not None and T.mentions(j, isf):
            bad.append("the started jobs are selected on `forever`: %s" % T.show(j, 4))
        for c in e.loops:
            for cd in c.conds:
                if T.mentions(cd, isf):
                    bad.append("start filtered on `forever`: %s" % T.show(cd, 3))
        for k, v in e.st.facts.items():
            if k[0] == 'cmp' and (k[2][0] in ('acc', 'pos') or k[3][0] in ('acc', 'pos')
                                  or (k[2][0] == 'const' and isinstance(k[2][1], int))
                                  or (k[3][0] == 'const' and isinstance(k[3][1], int))):
                continue            # the completion test itself
            if T.mentions(k, isf):
                bad.append("start conditioned on `forever`: %s is %s" % (T.show(k, 3), v))
        rep.check(not bad, rule, "%s start independent of `forever`" % e.where, fn, "; ".join(bad),
                  "forever jobs are not started (or their successors not released) under the same rules as "
                  "any other job", trace(e.st))
    for e in an.events('WAIT'):
        rep.check(not T.mentions(e.data['arg'], isf), rule, "%s wait independent of `forever`" % e.where, fn,
                  "main wait on %s" % T.show(e.data['arg'], 4),
                  "forever tasks are treated differently by the main wait", trace(e.st))
    rep.need(rule, n, 2, "starts")


# ================================================================ C12
def _eager_fallback(ctx, rep, r2):
    """when the run cannot be explored (state explosion): the one shape of R12.2 that can be read off the
    syntax - the loop that starts the successors must not be left early"""
    from ..flow import _may_stop_early
    r = ctx.roles
    f = r.RUN
    start = r.start_fn.name if r.start_fn is not None else None
    for w in walk_local(f.node):
        if not isinstance(w, ast.While):
            continue
        for lp in ast.walk(w):
            if isinstance(lp, ast.For) and any(isinstance(c, ast.Call) and isinstance(c.func, ast.Attribute)
                                               and c.func.attr == start for b in lp.body for c in ast.walk(b)):
                rep.check(not _may_stop_early(lp), r2, "%s:%d every candidate is visited" % (f.module.relpath, lp.lineno),
                          f.qualname, "the loop over candidate successors can stop early (`break`/`return` in `for %s in %s`)"
                          % (src(lp.target), src(lp.iter)),
                          "ready successors after the first are left waiting although a slot may be free")


def main_wait_direct(ctx, rep, rule):
    """the main wait is awaited as it is: its own `timeout=` makes it return with what has completed so far (an empty
    done set = expiry).  Under an outer bound (asyncio.wait_for, asyncio.timeout) the expiry cancels the wait itself,
    and whatever completed at that same instant is thrown away with it"""
    from ..index import dotted
    r = ctx.roles
    sites = []
    for c in r.sched.mro:
        for f in c.methods.values():
            parents = {}
            for n in ast.walk(f.node):
                for ch in ast.iter_child_nodes(n):
                    parents[ch] = n
            for n in walk_local(f.node):
                if isinstance(n, ast.Call) and dotted(n.func) in ('asyncio.wait', 'wait') and any(
                        k.arg == 'return_when' and (dotted(k.value) or '').endswith('FIRST_COMPLETED')
                        for k in n.keywords):
                    sites.append((f, n, parents))
    rep.need(rule, len(sites), 1, "FIRST_COMPLETED waits of the scheduler class")
    for f, n, parents in sites:
        par = parents.get(n)
        outer = None
        if isinstance(par, ast.Call) and (dotted(par.func) or '').split('.')[-1] in ('wait_for', 'shield'):
            outer = dotted(par.func)
        p = par
        while p is not None and outer is None:
            if isinstance(p, (ast.AsyncWith, ast.With)):
                for it in p.items:
                    if isinstance(it.context_expr, ast.Call) and \
                            (dotted(it.context_expr.func) or '').split('.')[-1] in ('timeout', 'timeout_at'):
                        outer = dotted(it.context_expr.func)
            p = parents.get(p)
        ok = outer is None and isinstance(par, ast.Await)
        if outer is None and not isinstance(par, ast.Await):
            rep.error(rule, "%s:%d the main wait is not awaited on the spot: this rule cannot read this form"
                      % (f.module.relpath, n.lineno))
            continue
        rep.check(ok, rule, "%s:%d the main wait is awaited as it is" % (f.module.relpath, n.lineno), f.qualname,
                  "`%s` runs under %s" % (src(par)[:90], outer),
                  "when the outer bound expires the wait is cancelled: jobs that completed at that very instant are "
                  "not seen, the run reports a timeout although every job was done in time (timeout=0 with jobs "
                  "that complete at once, a last completion landing with the deadline)")


_ALL = None      # "every name": what a statement list that never falls through definitely assigns


def _must_assign(stmts):
    """names definitely assigned when the statement list falls through (None = it never does)"""
    out = set()
    for s in stmts:
        if isinstance(s, (ast.Continue, ast.Break, ast.Return, ast.Raise)):
            return _ALL
        if isinstance(s, ast.Assign):
            for t in s.targets:
                out |= {n.id for n in ast.walk(t) if isinstance(n, ast.Name)}
        elif isinstance(s, ast.AnnAssign) and s.value is not None and isinstance(s.target, ast.Name):
            out.add(s.target.id)
        elif isinstance(s, ast.If):
            b, e = _must_assign(s.body), _must_assign(s.orelse)
            if b is _ALL and e is _ALL:
                return _ALL
            out |= e if b is _ALL else b if e is _ALL else (b & e)
        elif isinstance(s, (ast.With, ast.AsyncWith)):
            b = _must_assign(s.body)
            if b is _ALL:
                return _ALL
            out |= b
        elif isinstance(s, ast.Try):
            parts = [_must_assign(s.body + s.orelse)] + [_must_assign(h.body) for h in s.handlers]
            live = [p_ for p_ in parts if p_ is not _ALL]
            if live:
                acc = set(live[0])
                for p_ in live[1:]:
                    acc &= p_
                out |= acc
            f_ = _must_assign(s.finalbody)
            if f_ is _ALL or not live:
                return _ALL
            out |= f_
    return out


def _carried_guard_names(r, loop):
    """names tested by the conditions that guard the start inside the candidate loop, assigned in the body of the
    loop, but not definitely assigned in it on the way to the test: state carried from one candidate to the next"""
    start = r.start_fn.name if r.start_fn is not None else None
    hits = []

    def has_start(s):
        return any(isinstance(c, ast.Call) and isinstance(c.func, ast.Attribute) and c.func.attr == start
                   for c in ast.walk(s))

    def find(stmts, tests, assigned):
        assigned = set(assigned)
        for s in stmts:
            if has_start(s):
                if isinstance(s, ast.If):
                    # (what the test reads is judged with what was assigned before it)
                    hits.append((tests + [s.test], set(assigned), True))
                    find(s.body, tests + [s.test], assigned)
                    find(s.orelse, tests + [s.test], assigned)
                elif isinstance(s, (ast.For, ast.AsyncFor, ast.While, ast.With, ast.AsyncWith, ast.Try)):
                    for fld in ('body', 'orelse', 'finalbody'):
                        find(getattr(s, fld, []) or [], tests, assigned)
                    for h in getattr(s, 'handlers', []) or []:
                        find(h.body, tests, assigned)
                else:
                    hits.append((tests, set(assigned), False))
            m = _must_assign([s])
            if m is _ALL:
                return
            assigned |= m
    find(loop.body, [], set())
    comp_local = {n.id for b in loop.body for c in ast.walk(b) if isinstance(c, ast.comprehension)
                  for n in ast.walk(c.target) if isinstance(n, ast.Name)}
    stored = {n.id for b in loop.body for n in ast.walk(b) if isinstance(n, ast.Name) and isinstance(n.ctx, ast.Store)}
    stored -= comp_local            # (the target of a comprehension is local to it)
    target = {n.id for n in ast.walk(loop.target) if isinstance(n, ast.Name)}
    out, seen = [], set()
    for tests, assigned, _is_if in hits:
        if not tests:
            continue
        t = tests[-1]
        for n in ast.walk(t):
            if isinstance(n, ast.Name) and n.id in stored and n.id not in assigned and n.id not in target \
                    and n.id not in seen:
                seen.add(n.id)
                out.append((n.id, t))
    return out


def eager(ctx, rep, r1, r2, r3, r4):
    r = ctx.roles
    try:
        an, ip, out = ctx.run()
    except AnalysisError:
        _eager_fallback(ctx, rep, r2)
        raise
    fn = r.RUN.qualname
    # R12.1 all entry jobs started before the first wait
    es = entry_starts(an)
    rep.need(r1, len(es), 1, "entry starts")
    for e in es:
        ok, why = entry_filter(ctx, e, e.data['job'], exact=True)
        rep.check(ok, r1, "%s every entry job is started" % e.where, fn, "initial start ranges over %s" % why,
                  "some jobs without requirement are not started when the run begins", trace(e.st), detail=why)
        lp = innermost_loop(e, e.data['job'])
        if lp is not None and lp.kind == 'for':
            from ..flow import _may_stop_early
            rep.check(not _may_stop_early(lp.node), r1, "%s entry loop runs to its end" % e.where, fn,
                      "the loop starting the entry jobs can stop early",
                      "some entry jobs are never started", trace(e.st))
    for e in an.events('WAIT'):
        if e.st.a('nwait', 0) == 0:
            rep.check(e.data['phase'] == 'Live', r1, "%s first wait follows the entry starts" % e.where, fn,
                      "first main wait reached in state %s" % e.data['phase'],
                      "the run waits before having started its entry jobs", trace(e.st))
    for e in an.events('RET'):
        if e.st.a('nstart', 0) and e.data['phase'] != 'NoTasks':
            rep.check(e.st.a('nwait', 0) >= 1, r1, "%s no verdict before the first wait" % e.where, fn,
                      "`%s` reached after the entry jobs were given a task, on a path that never waits for them"
                      % src(stmt_of(e.node)),
                      "the run is over before its entry jobs have made a single step (a scheduler whose jobs all run "
                      "for ever, say): none of its jobs ever starts", trace(e.st))
    for st in out.nxt:
        if st.a('nstart', 0) and st.a('nwait', 0) == 0:
            rep.fail(r1, "%s no end before the first wait" % fn, fn,
                     "the end of the function is reached after the entry jobs were given a task, on a path that never "
                     "waits for them", "the run is over before its entry jobs have made a single step", trace(st))
    # R12.2 candidates = union over ALL done tasks of their successors; every candidate visited
    ss = succ_starts(an)
    rep.need(r2, len(ss), 1, "successor starts")
    for e in ss:
        j = e.data['job']
        site = "%s candidates" % e.where
        ok, why = candidates_total(ctx, e, j)
        rep.check(ok, r2, site, fn, "candidate successors: %s" % why,
                  "a job whose last requirement just finished is not examined: it never starts (lost wake-up), "
                  "or starts one iteration late", trace(e.st), detail=why)
        lp = innermost_loop(e, j)
        if lp is not None and lp.kind == 'for':
            from ..flow import _may_stop_early
            rep.check(not _may_stop_early(lp.node), r2, "%s every candidate is visited" % e.where, fn,
                      "the loop over candidate successors can stop early (`break`/`return` in `%s`)"
                      % src(lp.node.iter if hasattr(lp.node, 'iter') else lp.node),
                      "ready successors after the first are left waiting although a slot may be free",
                      trace(e.st))
        if lp is not None and lp.kind == 'for':
            for name, test in _carried_guard_names(r, lp.node):
                rep.fail(r4, "%s guard is computed afresh for each candidate" % e.where, fn,
                         "`%s` is tested by `if %s` but is not re-initialised for each candidate of `for %s in %s`: "
                         "it carries what the previous candidates left in it"
                         % (name, src(test)[:80], src(lp.node.target), src(lp.node.iter)[:60]),
                         "once one candidate is refused, the ready candidates visited after it are refused too: "
                         "they never start", trace(e.st))
    # R12.3 backlinks fresh: built on every path before the first start
    for e in es:
        rep.check(e.data['built'], r3, "%s reverse links rebuilt before the first start" % e.where, fn,
                  "entry jobs started on a path where job.%s was not rebuilt by this run" % r.reverse_attr,
                  "successors are looked up in stale reverse links: jobs added or re-linked since the last "
                  "run are never started", trace(e.st))
    # R12.4 guard no stronger than needed
    for e in ss:
        j = e.data['job']
        extras = []
        req = T.mk(('attr', j, 'required'))
        ibase = e.data.get('ibase') or frozenset()
        for k, v in e.st.facts.items():
            if not T.contains(k, j) and k in ibase:
                continue
            if k == strip_coll(j[1]) or (j[0] == 'elem' and k == j[1]):
                continue
            if k[0] in ('forall', 'exists') and strip_coll(k[1]) == req:
                continue
            if k == req:
                continue            # "it has no requirement at all" is the vacuous case of "all of them are done"
            if k[0] == 'call' and k[1] == 'all':
                continue
            if k[0] == 'mcall' and k[1] == j and k[2] in ('is_running', 'is_scheduled', 'is_idle', 'is_done'):
                continue
            if k[0] == 'cmp' and T.is_attr(k[2]) and k[2][1] == j and k[2][2] in (r.registry_attr, r.running_attr):
                continue
            if T.is_attr(k) and k[1] == j and k[2] in (r.registry_attr, r.running_attr):
                continue
            extras.append((k, v))
        rep.check(not extras, r4, "%s guard has no extra condition" % e.where, fn,
                  "successor start additionally requires %s" % [(T.show(k, 3), v) for k, v in extras],
                  "an eligible job is kept waiting by a condition the property does not allow", trace(e.st))


def candidates_total(ctx, e, j):
    r = ctx.roles
    if j[0] != 'elem':
        return False, "a single job %s" % T.show(j, 3)
    site = e.st.a('cur_wait')
    wd = T.mk(('wdone', site))
    coll = strip_coll(j[1])
    tj, ra = r.task_job_attr, r.reverse_attr

    def succ_of(elem):
        return T.mk(('attr', ('attr', elem, tj), ra))
    if coll[0] == 'union':
        items = list(coll[1])
        if not items:
            return False, "an empty set"
        for it in items:
            if it[0] == 'when':
                return False, "successors gathered only %s%s" % (
                    "when %s" % [(T.show(a, 3), b) for a, b in it[1]] if it[1] else "",
                    " in a loop that can stop early" if it[2] else "")
            ok = False
            if T.is_attr(it, ra) and T.is_attr(it[1], tj) and it[1][1][0] == 'elem' and strip_coll(it[1][1][1]) == wd:
                # the accumulating loop must be a plain for over the done set
                ok = True
            if not ok:
                return False, "gathered from %s" % T.show(it, 4)
        return True, "union over every done task of its job's successors"
    if coll[0] == 'comp' and len(coll[3]) == 2:
        (k1, it1, c1), (k2, it2, c2) = coll[3]
        e1 = T.mk(('elem', it1, k1))
        if strip_coll(it1) == wd and not c1 and not c2 and it2 == succ_of(e1) and coll[2] == T.mk(('elem', it2, k2)):
            return True, "comprehension over every done task and each of its job's successors"
        return False, "comprehension %s" % T.show(coll, 4)
    if coll[0] == 'mcall' and coll[2] == 'union' and len(coll[3]) == 1 and coll[3][0][0] == 'star':
        c = strip_coll(coll[3][0][1])
        if c[0] == 'comp' and len(c[3]) == 1:
            k1, it1, c1 = c[3][0]
            e1 = T.mk(('elem', it1, k1))
            if strip_coll(it1) == wd and not c1 and c[2] == succ_of(e1):
                return True, "set().union over every done task of its job's successors"
    return False, "%s" % T.show(coll, 4)
