"""
Truth tables of the life-cycle predicates (R14.1, R01.3) and identity flow of
results/exceptions (R14.3), writer monotonicity (R14.2).
"""

import ast

from .. import terms as T
from .. import tt
from ..index import walk_local, dotted
from .common import src, stmt_of, trace

RES = tt.Sentinel("RES")
EXC = tt.Sentinel("EXC")


def init_constants(ctx, cls):
    """attributes that the constructors along the MRO set to a constant: the state of a fresh object"""
    out = {}
    for c in reversed(cls.mro):
        f = c.methods.get('__init__')
        if f is None:
            continue
        for n in walk_local(f.node):
            if isinstance(n, ast.Assign) and len(n.targets) == 1 and isinstance(n.targets[0], ast.Attribute) \
                    and isinstance(n.targets[0].value, ast.Name) and n.targets[0].value.id == 'self' \
                    and isinstance(n.value, ast.Constant):
                out[n.targets[0].attr] = n.value.value
    return out


def lifecycle_domain(ctx, cls=None, members=False):
    r = ctx.roles
    reg, run = r.registry_attr, r.running_attr
    fin = tt.finished_constant()
    base = init_constants(ctx, cls or r.jobbase)
    for k in (reg, run, 'forever', 'critical', 'jobs'):
        base.pop(k, None)

    def job(task, running, klass=None, **more):
        a = dict(base)
        a.update({reg: task, run: running, '__class__': klass or cls or r.jobbase, 'forever': False,
                  'critical': False})
        a.update(more)
        return tt.Obj('job', **a)
    if members:
        # a scheduler used as a job: its own task, and its members (what the nested run is doing)
        def m_idle():
            return [job(None, False, r.jobbase)]

        def m_done():
            return [job(tt.task(fin, None, RES), True, r.jobbase)]

        def m_busy():
            return [job(tt.task(fin, None, RES), True, r.jobbase), job(tt.task('PENDING'), True, r.jobbase)]

        def m_cancelled():
            return [job(tt.task(fin, None, RES), True, r.jobbase), job(tt.task('CANCELLED'), True, r.jobbase)]
        return [
            ('idle (never scheduled), no member', job(None, False, jobs=[])),
            ('idle (never scheduled), members idle', job(None, False, jobs=m_idle())),
            ('scheduled, waiting for a window slot, members idle', job(tt.task('PENDING'), False, jobs=m_idle())),
            ('running, no member', job(tt.task('PENDING'), True, jobs=[])),
            ('running, a member still running', job(tt.task('PENDING'), True, jobs=m_busy())),
            ('running, every member done (the nested run is shutting down)',
             job(tt.task('PENDING'), True, jobs=m_done())),
            ('finished by returning, no member', job(tt.task(fin, None, RES), True, jobs=[])),
            ('finished by returning, every member done', job(tt.task(fin, None, RES), True, jobs=m_done())),
            ('finished by returning, a member cancelled (aborted run)',
             job(tt.task(fin, None, RES), True, jobs=m_cancelled())),
            ('finished by raising, a member cancelled (aborted run)',
             job(tt.task(fin, EXC, None), True, jobs=m_cancelled())),
            ('cancelled while queued, members idle', job(tt.task('CANCELLED'), False, jobs=m_idle())),
            ('cancelled while running, a member cancelled', job(tt.task('CANCELLED'), True, jobs=m_cancelled())),
        ], fin
    return [
        ('idle (never scheduled)', job(None, False)),
        ('scheduled, waiting for a window slot', job(tt.task('PENDING'), False)),
        ('running', job(tt.task('PENDING'), True)),
        ('finished by returning', job(tt.task(fin, None, RES), True)),
        ('finished by raising', job(tt.task(fin, EXC, None), True)),
        ('cancelled while queued', job(tt.task('CANCELLED'), False)),
        ('cancelled while running', job(tt.task('CANCELLED'), True)),
    ], fin


EXPECT = {
    'is_idle':      lambda lbl: lbl.startswith('idle'),
    'is_scheduled': lambda lbl: not lbl.startswith('idle'),
    'is_running':   lambda lbl: lbl.split(',')[0] in ('running', 'finished by returning', 'finished by raising',
                                                      'cancelled while running'),
    'is_done':      lambda lbl: lbl.startswith('finished'),
}


def evaluator(ctx, cls):
    fin = tt.finished_constant()
    ext = {'asyncio.futures._FINISHED': fin, 'asyncio.base_futures._FINISHED': fin,
           'futures._FINISHED': fin, 'base_futures._FINISHED': fin}
    for c in ctx.prog.classes:
        ext[c] = tt.Sentinel("class:" + c)
    return tt.Evaluator(ctx.prog, cls, ext)


def is_done_table(ctx, rep, rule, classes=None):
    _bool_tables(ctx, rep, rule, ['is_done'], classes)


def _bool_tables(ctx, rep, rule, names, classes=None):
    r = ctx.roles
    classes = classes or [r.jobbase] + r.nestable
    n = 0
    for cls in classes:
        dom, fin = lifecycle_domain(ctx, cls, members=cls in r.nestable)
        for name in names:
            f = ctx.prog.supplier(cls, name)
            if f is None:
                rep.error(rule, "%s has no %s()" % (cls.name, name))
                continue
            ev = evaluator(ctx, cls)
            try:
                tab = tt.table(ev, name, dom)
            except tt.Inconclusive as e:
                rep.error(rule, "%s.%s: outside the evaluable fragment (%s)" % (cls.name, name, e))
                continue
            ctx.stats['functions_analysed'].add(f.qualname)
            for lbl, _ in dom:
                n += 1
                got = tab[lbl]
                want = EXPECT[name](lbl)
                ok = got[0] == 'ret' and bool(got[1]) == want
                rep.check(ok, rule, "%s.%s() on a job %s" % (cls.name, name, lbl), f.qualname,
                          "%s() is %s for a job that is %s" % (
                              name, ('raising ' + got[1]) if got[0] == 'raise' else repr(bool(got[1])), lbl),
                          "%s() must be %s for a job that is %s" % (name, want, lbl))
    rep.need(rule, n, 7, "table rows")


def lifecycle_tables(ctx, rep, rule):
    """R14.1: the six inspection methods over the 7-point life-cycle domain"""
    r = ctx.roles
    _bool_tables(ctx, rep, rule, ['is_idle', 'is_scheduled', 'is_running', 'is_done'])
    outcome_tables(ctx, rep, rule)


def outcome_tables(ctx, rep, rule, names=('raised_exception', 'result')):
    """raised_exception() / result() over the life-cycle domain (for a nested scheduler: of its own task,
    whatever its members did)"""
    r = ctx.roles
    classes = [r.jobbase] + r.nestable
    for cls in classes:
        dom, fin = lifecycle_domain(ctx, cls, members=cls in r.nestable)
        dom = [(lbl, o) for lbl, o in dom]
        if 'raised_exception' not in names:
            continue
        # raised_exception: the exception object itself on finished-by-raising, None elsewhere
        f = ctx.prog.supplier(cls, 'raised_exception')
        ev = evaluator(ctx, cls)
        try:
            tab = tt.table(ev, 'raised_exception', dom)
        except tt.Inconclusive as e:
            rep.error(rule, "%s.raised_exception: outside the evaluable fragment (%s)" % (cls.name, e))
            tab = None
        if tab:
            for lbl, _ in dom:
                got = tab[lbl]
                want = EXC if lbl.startswith('finished by raising') else None
                ok = got[0] == 'ret' and got[1] is want
                rep.check(ok, rule, "%s.raised_exception() on a job %s" % (cls.name, lbl), f.qualname,
                          "raised_exception() gives %r for a job that is %s" % (
                              got[1] if got[0] == 'ret' else 'raise ' + got[1], lbl),
                          "raised_exception() must be %s for a job that is %s"
                          % ("the exception object" if want is EXC else "None", lbl))
        if 'result' not in names:
            continue
        f = ctx.prog.supplier(cls, 'result')
        ev = evaluator(ctx, cls)
        try:
            tab = tt.table(ev, 'result', dom)
        except tt.Inconclusive as e:
            rep.error(rule, "%s.result: outside the evaluable fragment (%s)" % (cls.name, e))
            tab = None
        if tab:
            for lbl, _ in dom:
                got = tab[lbl]
                if lbl.startswith('finished by returning'):
                    ok = got[0] == 'ret' and got[1] is RES
                    want = "the returned object"
                elif lbl.startswith('finished by raising'):
                    ok = got[0] == 'raise' or (got[0] == 'ret' and got[1] is None)
                    want = "None or an error"
                else:
                    ok = got[0] == 'raise'
                    want = "an error (job not finished)"
                rep.check(ok, rule, "%s.result() on a job %s" % (cls.name, lbl), f.qualname,
                          "result() gives %r for a job that is %s" % (
                              got[1] if got[0] == 'ret' else 'raise ' + str(got[1]), lbl),
                          "result() must be %s for a job that is %s" % (want, lbl))


def _handler_keeps_exception(h):
    """None when every way out of the handler re-raises the caught exception object (bare `raise`, or `raise name`
    of the handler's own name), else what it does instead"""
    name = h.name

    def ends_in_reraise(stmts):
        if not stmts:
            return "swallows the exception"
        last = stmts[-1]
        if isinstance(last, ast.Raise):
            if last.exc is None or (isinstance(last.exc, ast.Name) and last.exc.id == name and last.cause is None):
                return None
            return "raises another object: `%s`" % src(last)
        if isinstance(last, ast.If):
            return ends_in_reraise(last.body) or (ends_in_reraise(last.orelse) if last.orelse
                                                   else "swallows the exception on one branch")
        if isinstance(last, (ast.With, ast.AsyncWith)):
            return ends_in_reraise(last.body)
        if isinstance(last, ast.Try):
            return ends_in_reraise(last.finalbody) if last.finalbody and isinstance(last.finalbody[-1], ast.Raise) \
                else ends_in_reraise(last.body)
        return "swallows the exception"
    v = ends_in_reraise(h.body)
    if v is None:
        for n in ast.walk(h):
            if isinstance(n, (ast.Return, ast.Break, ast.Continue)):
                return "can leave without re-raising (`%s`)" % src(n)
            if isinstance(n, ast.Raise) and not (n.exc is None or (isinstance(n.exc, ast.Name) and n.exc.id == name
                                                                   and n.cause is None)):
                return "raises another object: `%s`" % src(n)
    return v


def identity_flow(ctx, rep, rule):
    """R14.3: the wrapper returns the value of the body unchanged and does not
    replace its exception; Job.co_run returns the awaited coroutine's value"""
    r = ctx.roles
    an, ip, out = ctx.wrap(gen_cancel=True, gen_bodyexc=True)
    fn = r.WRAP.qualname
    rets = out.ret
    rep.need(rule, len(rets), 1, "returns of the wrapper")
    for st, val, node in rets:
        ok = val[0] == 'bodyresult'
        rep.check(ok, rule, "%s returns the body's value" % ip.where(node), fn,
                  "wrapper returns %s" % T.show(val, 3),
                  "result() is not the object the job body returned", trace(st))
    for st in out.nxt:
        rep.fail(rule, "%s falls off its end" % fn, fn, "wrapper ends without returning the body's value",
                 "result() is None whatever the job body returned", trace(st))
    # exception identity: a BodyExc leaving the wrapper must be the original one
    for e in an.events('CAUGHT'):
        if e.data['exc'][0] == 'BodyExc':
            h = e.node
            reraises = [n for n in ast.walk(h) if isinstance(n, ast.Raise)]
            bad = [n for n in reraises if n.exc is not None and not (
                isinstance(n.exc, ast.Name) and n.exc.id == (h.name or ''))]
            swallowed = not reraises
            rep.check(not bad and not swallowed, rule, "%s handler keeps the exception" % e.where, fn,
                      "`except %s` in the wrapper %s" % (src(h.type) if h.type else '',
                                                         "swallows the job's exception" if swallowed else
                                                         "raises a different exception: `%s`"
                                                         % (src(bad[0]) if bad else '')),
                      "raised_exception() is not the exception object the job raised (or is lost)",
                      trace(e.st))
    for st, kind, node in out.exc:
        if kind[0] == 'Raise':
            rep.fail(rule, "%s wrapper raises its own exception" % ip.where(node), fn,
                     "`%s`" % src(stmt_of(node)),
                     "the task fails with an exception that is not the job's own", trace(st))
    # the coroutine-based job class: co_run returns the awaited user coroutine's value
    for cls in ctx.prog.subclasses(r.jobbase, strict=True):
        f = cls.methods.get('co_run')
        if f is None or cls in r.nestable:
            continue
        aw = [n for n in walk_local(f.node) if isinstance(n, ast.Await) and not isinstance(n.value, ast.Call)]
        if not aw:
            continue
        from ..flow import Interp, Analysis
        ip2 = Interp(ctx.prog, Analysis())
        o2 = ip2.run(f)
        ctx.stats['functions_analysed'].add(f.qualname)
        for st, val, node in o2.ret:
            ok = val[0] == 'awaited'
            rep.check(ok, rule, "%s returns the user coroutine's value" % ip2.where(node), f.qualname,
                      "`%s` returns %s" % (src(node), T.show(val, 3)),
                      "result() of a coroutine-based job is not what the coroutine returned", trace(st))
        for st in o2.nxt:
            rep.fail(rule, "%s falls off its end" % f.qualname, f.qualname,
                     "co_run ends without returning the awaited value",
                     "result() of a coroutine-based job is always None", trace(st))
        # ... and lets whatever the user coroutine raises through, as the object it is: no handler or context
        # manager around the await catches, replaces or suppresses it
        for a in aw:
            n = a
            while n is not None and n is not f.node:
                par = getattr(n, '_parent', None)
                if isinstance(par, ast.Try) and n in par.body:
                    for h in par.handlers:
                        verdict = _handler_keeps_exception(h)
                        if verdict is None:
                            continue
                        rep.check(False, rule, "%s:%d the user coroutine's exception leaves co_run as it is"
                                  % (f.module.relpath, h.lineno), f.qualname,
                                  "`except %s` around `%s` %s" % (src(h.type) if h.type else '', src(a), verdict),
                                  "a job whose coroutine raises is recorded as having returned, or with an exception "
                                  "object that is not the one raised: raised_exception(), the critical-failure test "
                                  "and the verdict of the run go wrong")
                if isinstance(par, (ast.With, ast.AsyncWith)) and n in par.body:
                    for item in par.items:
                        ce = item.context_expr
                        d = dotted(ce.func) if isinstance(ce, ast.Call) else None
                        if d in ('contextlib.suppress', 'suppress'):
                            rep.check(False, rule, "%s:%d the user coroutine's exception leaves co_run as it is"
                                      % (f.module.relpath, par.lineno), f.qualname,
                                      "`with %s` around `%s` swallows these exceptions" % (src(ce), src(a)),
                                      "a job whose coroutine raises is recorded as having returned: the run goes on and "
                                      "reports success although a (critical) job failed")
                        elif d in ('contextlib.nullcontext', 'nullcontext', 'contextlib.closing', 'closing'):
                            pass
                        else:
                            rep.error(rule, "%s:%d `with %s` around the awaited user coroutine: cannot tell whether it "
                                      "lets exceptions through" % (f.module.relpath, par.lineno, src(ce)))
                n = par
        rep.ok(rule, "%s: nothing around `%s` catches what the user coroutine raises" % (f.qualname, src(aw[0])))


def writers_monotone(ctx, rep, rule):
    """R14.2: who writes the registry and the running flag, and with what"""
    r = ctx.roles
    reg, run = r.registry_attr, r.running_attr
    n = 0
    for f in ctx.prog.all_functions():
        for node in walk_local(f.node):
            tgts = []
            if isinstance(node, ast.Assign):
                tgts = [(t, node.value) for t in node.targets]
            elif isinstance(node, ast.AugAssign):
                tgts = [(node.target, node.value)]
            elif isinstance(node, ast.Delete):
                tgts = [(t, None) for t in node.targets]
            for t, v in tgts:
                if not isinstance(t, ast.Attribute) or t.attr not in (reg, run):
                    continue
                n += 1
                site = "%s:%d store to %s" % (f.module.relpath, node.lineno, t.attr)
                if t.attr == run:
                    is_true = isinstance(v, ast.Constant) and v.value is True
                    is_false = isinstance(v, ast.Constant) and v.value is False
                    if is_true:
                        ok = f is r.WRAP or f is r.WRAP_BODY
                        rep.check(ok, rule, site, f.qualname, "`%s`" % src(node),
                                  "a job is flagged running outside the window wrapper: is_running() is true "
                                  "for a job that does not hold a slot (or was never scheduled)")
                    elif is_false:
                        from .common import only_used_by
                        inits = {g.qualname for g in ctx.prog.all_functions() if g.name == '__init__'}
                        ok = f.name == '__init__' or only_used_by(ctx, f, inits)
                        rep.check(ok, rule, site, f.qualname, "`%s`" % src(node),
                                  "the running flag reverts during a run: is_done() no longer implies "
                                  "is_running(), and a predicate goes back in time")
                    else:
                        rep.fail(rule, site, f.qualname, "`%s`" % src(node),
                                 "the running flag takes a value that is not a constant boolean")
                else:
                    is_none = isinstance(v, ast.Constant) and v.value is None
                    if is_none:
                        from .common import only_used_by
                        inits = {g.qualname for g in ctx.prog.all_functions() if g.name == '__init__'}
                        ok = f.name == '__init__' or only_used_by(ctx, f, inits) or \
                            _called_before_first_start(ctx, f, node if f is r.RUN else None)
                        rep.check(ok, rule, site, f.qualname, "`%s`" % src(node),
                                  "the task registry is cleared while a run is in progress: a finished job "
                                  "becomes idle again and loses its result")
                    else:
                        from .common import only_used_by
                        ok = f is r.start_fn or f is r.RUN or \
                            only_used_by(ctx, f, {r.start_fn.qualname, r.RUN.qualname})
                        rep.check(ok, rule, site, f.qualname, "`%s`" % src(node),
                                  "the task registry is written outside the start path")
    rep.need(rule, n, 3, "writers of the life-cycle attributes")
    # the per-run reset dominates the first start
    an, ip, out = ctx.run()
    from .runrules import entry_starts
    for e in entry_starts(an):
        rep.check(e.data['reg_reset'], rule, "%s registry reset before the first start" % e.where,
                  r.RUN.qualname, "entry jobs started on a path where job.%s was not reset" % reg,
                  "a job that ran in a previous run is reported done before it runs again", trace(e.st))
    from .runrules import MEMBERS, strip_coll
    resets = [e for e in an.events('STORE') if e.data['attr'] == reg and e.data['val'] == T.NONE
              and e.data['nstart'] == 0]
    for e in resets:
        o = e.data['obj']
        lp = [c for c in e.loops if c.elem == o]
        conds = [k for k, v in e.st.facts.items() if T.contains(k, o) and strip_coll(k) != MEMBERS]
        ok = o[0] == 'elem' and strip_coll(o[1]) == MEMBERS and lp and not lp[0].conds and not conds
        rep.check(bool(ok), rule, "%s every member's registry entry is reset" % e.where, e.fr.func.qualname,
                  "`%s` resets %s%s" % (src(stmt_of(e.node)), T.show(o, 3),
                                       " under %s" % [T.show(c, 3) for c in conds] if conds else ""),
                  "some members (e.g. nested schedulers) keep the finished task of a previous run: they are "
                  "reported done before they run again, their successors start too early and they never restart",
                  trace(e.st))
    for e in an.events('STORE'):
        if e.data['attr'] == reg and e.data['val'] == T.NONE and e.data['nstart'] > 0:
            rep.fail(rule, "%s registry cleared after a start" % e.where, r.RUN.qualname,
                     "`%s` after jobs were started" % src(stmt_of(e.node)),
                     "a started job becomes idle again: it can be started twice and its result is lost",
                     trace(e.st))


def _called_before_first_start(ctx, f, node=None):
    """f is only called from the run, and only before any start (checked on the log)"""
    an, ip, out = ctx.run()
    evs = [e for e in an.events('STORE') if e.fr.func is f]
    if node is not None:
        # (a store of the run itself: that very statement)
        evs = [e for e in evs if stmt_of(e.node) is node or e.node is node]
    return bool(evs) and all(e.data['nstart'] == 0 for e in evs)


def done_depends_on_registry_only(ctx, rep, rule):
    """`done` speaks about this run (with R01.5): of the job's mutable state, is_done() reads nothing but the
    task registry, which is reset before the first start. Any other attribute it reads (through the sibling
    predicates it calls) is written by the constructor only, or is reset wherever the registry is."""
    r = ctx.roles
    p = ctx.prog
    reg = r.registry_attr
    # writers of each attribute, package-wide
    writers = {}
    for f in p.all_functions():
        for n in walk_local(f.node):
            tg = []
            if isinstance(n, ast.Assign):
                tg = n.targets
            elif isinstance(n, (ast.AugAssign, ast.AnnAssign)):
                tg = [n.target]
            for t in tg:
                if isinstance(t, ast.Attribute):
                    writers.setdefault(t.attr, []).append((f, n))
            if isinstance(n, ast.Call) and dotted(n.func) == 'setattr' and len(n.args) >= 2 \
                    and isinstance(n.args[1], ast.Constant):
                writers.setdefault(n.args[1].value, []).append((f, n))
    resetters = {f.qualname for f, n in writers.get(reg, []) if isinstance(n, ast.Assign)
                 and isinstance(n.value, ast.Constant) and n.value.value is None and f.name != '__init__'}
    nchk = 0
    for cls in [r.jobbase] + r.nestable:
        f = p.supplier(cls, 'is_done')
        if f is None:
            continue
        seen, stack, reads = set(), [f], {}
        while stack:
            g = stack.pop()
            if g.qualname in seen:
                continue
            seen.add(g.qualname)
            for n in walk_local(g.node):
                if isinstance(n, ast.Attribute) and isinstance(n.value, ast.Name) and n.value.id == 'self':
                    par = getattr(n, '_parent', None)
                    if isinstance(par, ast.Call) and par.func is n:
                        h = p.supplier(cls, n.attr)
                        if h is not None:
                            stack.append(h)
                        continue
                    reads.setdefault(n.attr, (g, n))
        for attr, (g, n) in sorted(reads.items()):
            if attr == reg:
                continue
            ws = [(wf, wn) for wf, wn in writers.get(attr, []) if wf.name != '__init__']
            if not ws:
                continue
            nchk += 1
            reset_too = any(wf.qualname in resetters for wf, wn in ws)
            rep.check(reset_too, rule, "%s.is_done() reads `%s` (%s:%d)" % (cls.name, attr, g.module.relpath, n.lineno),
                      f.qualname, "`self.%s` is written by %s and is not reset where the task registry is (%s)"
                      % (attr, sorted({wf.qualname for wf, _ in ws}), sorted(resetters) or "nowhere"),
                      "is_done() keeps the answer of a previous run: when the scheduler is run again, requirements "
                      "report done at once and their successors start before them")
    rep.ok(rule, "is_done() of %d classes reads only the registry and constructor-set state (%d other attributes "
                 "checked)" % (len([r.jobbase] + r.nestable), nchk))


# ======================================================= configuration is what the caller gave
CONFIG = {
    'jobbase': ('forever', 'critical'),
    'sched': ('jobs_window', 'timeout', 'shutdown_timeout'),
}


def config_verbatim(ctx, rep, rule, which=None):
    """the flags that parametrise a run are what the caller gave: the constructor stores each parameter
    unchanged in the attribute of the same name, on every path; nothing else in the package writes that
    attribute; the constructors of the subclasses (and of the nestable class, which has two parents) forward
    the parameter unchanged; is_critical() is the `critical` attribute."""
    from ..graphmodel import GraphModel
    r = ctx.roles
    p = ctx.prog
    n = 0
    for role, names in CONFIG.items():
        cls = r.jobbase if role == 'jobbase' else r.sched
        names = [x for x in names if which is None or x in which]
        if not names:
            continue
        f = cls.methods.get('__init__')
        if f is None:
            rep.error(rule, "%s has no constructor" % cls.name)
            continue
        an, ip, out = ctx.explore(f, model=GraphModel)
        exits = [st for st in out.nxt] + [st for st, _v, _n in out.ret]
        for name in names:
            stores = [e for e in an.events('STORE') if e.data['obj'] == T.SELF and e.data['attr'] == name
                      and e.data['depth'] == 0]
            n += 1
            rep.check(bool(stores) and all(e.data['val'] == T.mk(('var', name)) and not e.loops and
                                           not [k for k in e.st.facts if T.contains(k, T.mk(('var', name)))]
                                           for e in stores) and name in (list(f.params) + list(f.kwonly)),
                      rule, "%s stores `%s` as given" % (f.qualname, name), f.qualname,
                      "stores to self.%s: %s" % (name, [(e.where, T.show(e.data['val'], 3)) for e in stores] or "none"),
                      "the scheduler runs with another `%s` than the one the caller set" % name)
            # who else writes it
            for g in p.all_functions():
                if g is f:
                    continue
                for node in walk_local(g.node):
                    tg = node.targets if isinstance(node, ast.Assign) else \
                        [node.target] if isinstance(node, (ast.AugAssign, ast.AnnAssign)) else []
                    for t in tg:
                        if isinstance(t, ast.Attribute) and t.attr == name and g.cls is not None \
                                and (cls in g.cls.mro or (isinstance(t.value, ast.Name) and t.value.id != 'self')):
                            rep.fail(rule, "%s:%d `%s` written outside the constructor" % (g.module.relpath, node.lineno, name),
                                     g.qualname, "`%s`" % src(node)[:80],
                                     "the configuration of a job / scheduler changes behind the caller's back")
            # subclasses forward it unchanged
            for sub in p.subclasses(cls, strict=True):
                g = sub.methods.get('__init__')
                if g is None:
                    continue
                for c in walk_local(g.node):
                    if isinstance(c, ast.Call) and isinstance(c.func, ast.Attribute) and c.func.attr == '__init__':
                        for k in c.keywords:
                            if k.arg == name:
                                n += 1
                                rep.check(isinstance(k.value, ast.Name) and k.value.id == name, rule,
                                          "%s:%d `%s` forwarded unchanged" % (g.module.relpath, c.lineno, name),
                                          g.qualname, "`%s=%s`" % (name, src(k.value)),
                                          "the subclass changes the `%s` the caller gave" % name)
    if which is None or 'critical' in which:
        for cls in [r.jobbase] + r.nestable:
            f = p.supplier(cls, 'is_critical')
            if f is None:
                continue
            for crit in (True, False):
                for forever in (True, False):
                    o = tt.Obj('job', critical=crit, forever=forever, jobs=[],
                               **{r.registry_attr: None, r.running_attr: False, '__class__': cls})
                    ev = evaluator(ctx, cls)
                    try:
                        got = ev.call_method('is_critical', o)
                    except (tt.Inconclusive, tt.Raised) as e:
                        rep.error(rule, "%s.is_critical: outside the evaluable fragment (%s)" % (cls.name, e))
                        break
                    n += 1
                    rep.check(bool(got) == crit, rule, "%s.is_critical() with critical=%s forever=%s"
                              % (cls.name, crit, forever), f.qualname,
                              "is_critical() gives %r for a job created with critical=%s (forever=%s)" % (got, crit, forever),
                              "the run tells critical jobs from tolerated ones by is_critical(): it must be the flag")
    rep.need(rule, n, 1, "configuration obligations")


def constructor_forwarding(ctx, rep, rule):
    """a subclass constructor hands on to its parent every parameter it shares with it: a keyword that is
    accepted by the subclass and taken by the parent constructor is passed unchanged (by name, positionally,
    or inside **kwds) in the call of that parent constructor"""
    r = ctx.roles
    p = ctx.prog
    n = 0
    for base in (r.jobbase, r.sched):
        for sub in p.subclasses(base, strict=True):
            g = sub.methods.get('__init__')
            if g is None:
                continue
            own = [x for x in list(g.params)[1:] + list(g.kwonly)]
            calls = [c for c in walk_local(g.node) if isinstance(c, ast.Call) and isinstance(c.func, ast.Attribute)
                     and c.func.attr == '__init__']
            for c in calls:
                # which parent constructor is being called
                tgt = None
                if isinstance(c.func.value, ast.Name) and c.func.value.id in p.classes:
                    tgt = p.supplier(p.classes[c.func.value.id], '__init__')
                elif isinstance(c.func.value, ast.Call) and dotted(c.func.value.func) == 'super':
                    for k in sub.mro[1:]:
                        if '__init__' in k.methods:
                            tgt = k.methods['__init__']
                            break
                if tgt is None:
                    continue
                theirs = set(list(tgt.params)[1:] + list(tgt.kwonly))
                # **kwds handed on must be what was received: nothing popped, deleted or overwritten on the way
                for k in c.keywords:
                    if k.arg is None and isinstance(k.value, ast.Name) and k.value.id == getattr(g, 'kwarg', None):
                        kw = k.value.id
                        for x in walk_local(g.node):
                            touched = (isinstance(x, ast.Call) and isinstance(x.func, ast.Attribute)
                                       and isinstance(x.func.value, ast.Name) and x.func.value.id == kw
                                       and x.func.attr in ('pop', 'popitem', 'clear', 'update', 'setdefault')) or \
                                      (isinstance(x, ast.Subscript) and isinstance(x.value, ast.Name) and x.value.id == kw
                                       and isinstance(x.ctx, (ast.Store, ast.Del)))
                            if touched:
                                n += 1
                                rep.fail(rule, "%s:%d **%s handed on as received" % (g.module.relpath, x.lineno, kw),
                                         g.qualname, "`%s` changes the keywords before they reach %s"
                                         % (src(x)[:60], tgt.qualname),
                                         "a setting given by the caller (forever, critical, required ...) is lost or "
                                         "altered on its way to the class that uses it")
                passed = {}
                for k in c.keywords:
                    if k.arg is not None:
                        passed[k.arg] = k.value
                    elif isinstance(k.value, ast.Name):
                        # **settings, where `settings = {'timeout': timeout, ...}` is a literal built just above
                        ds = [a for a in walk_local(g.node) if isinstance(a, ast.Assign) and len(a.targets) == 1
                              and isinstance(a.targets[0], ast.Name) and a.targets[0].id == k.value.id]
                        if len(ds) == 1 and isinstance(ds[0].value, ast.Dict):
                            for kk, vv in zip(ds[0].value.keys, ds[0].value.values):
                                if isinstance(kk, ast.Constant) and isinstance(kk.value, str):
                                    passed[kk.value] = vv
                        elif len(ds) == 1 and isinstance(ds[0].value, ast.Call) and dotted(ds[0].value.func) == 'dict':
                            for kw in ds[0].value.keywords:
                                if kw.arg:
                                    passed[kw.arg] = kw.value
                npos = [a for a in c.args if not isinstance(a, ast.Starred)]
                if isinstance(c.func.value, ast.Name) and npos:
                    npos = npos[1:]                      # explicit self
                for pn, a in zip(list(tgt.params)[1:], npos):
                    passed[pn] = a
                for name in own:
                    if name not in theirs:
                        continue
                    n += 1
                    v = passed.get(name)
                    ok = isinstance(v, ast.Name) and v.id == name
                    rep.check(ok, rule, "%s:%d `%s` handed on to %s" % (g.module.relpath, c.lineno, name, tgt.qualname),
                              g.qualname, "`%s` is accepted by %s but %s" % (
                                  name, g.qualname, "passed as `%s`" % src(v) if v is not None else
                                  "not passed to %s" % tgt.qualname),
                              "what the caller gave as `%s` is lost (or altered) on its way to the class that uses it"
                              % name)
    rep.ok(rule, "%d shared constructor parameters handed on unchanged" % n)


def shutdown_bounded_by_default(ctx, rep, rule):
    """a scheduler built without saying anything about its shutdown phase bounds it: the default of `shutdown_timeout`,
    in every constructor that takes it, is a positive number - with no bound a job whose co_shutdown() blocks wedges
    a run that had otherwise ended (after its timeout, after a critical failure)"""
    r, p = ctx.roles, ctx.prog
    n = 0
    for cls in p.classes.values():
        if r.sched not in cls.mro:
            continue
        f = cls.methods.get('__init__')
        if f is None:
            continue
        a = f.node.args
        names = [x.arg for x in a.posonlyargs + a.args]
        dflt = dict(zip(names[len(names) - len(a.defaults):], a.defaults))
        dflt.update({k.arg: d for k, d in zip(a.kwonlyargs, a.kw_defaults) if d is not None})
        if 'shutdown_timeout' not in names + [k.arg for k in a.kwonlyargs]:
            continue
        n += 1
        d = dflt.get('shutdown_timeout')
        ok = isinstance(d, ast.Constant) and isinstance(d.value, (int, float)) and not isinstance(d.value, bool) and d.value > 0
        rep.check(ok, rule, "%s shutdown_timeout defaults to a bound" % f.qualname, f.qualname,
                  "default of shutdown_timeout: %s" % (src(d) if d is not None else "none (required)"),
                  "a scheduler that says nothing about its shutdown phase has an unbounded one: a co_shutdown() that "
                  "blocks keeps run() from returning, after the timeout or the critical failure that ended it")
    rep.need(rule, n, 1, "constructors taking shutdown_timeout")
