"""C09 -- forever jobs are never waited for and never outlive the run."""

from . import predicates, runrules, shutrules, common


def check(ctx, rep):
    rep.explanation = (
        "R09.1 confinement: the `forever` attribute influences no start condition, no candidate set and no "
        "wait argument. R09.2 both sides of the completion test count non-forever jobs only. R09.3 the "
        "success exit cancels and awaits what is still pending (EXIT automaton), then shuts down. R09.6 the `forever` flag is what the caller gave. R09.7 (= R01.7) e.g. `forever=` of a nested scheduler. R09.8 a forever job that obtains its slot once the last regular job is over does not start: the wrapper tests a flag of the window before the body, and the window - which counts the members that do not run forever, one down at each completion - raises it when that count reaches zero.")
    rep.declined = ["instants"]
    rep.trusted = ["T1", "T3"]
    runrules.forever_confined(ctx, rep, "R09.1")
    runrules.success_accounting(ctx, rep, "R09.2", rule_forever="R09.2")
    runrules.exit_discipline(ctx, rep, "R09.3", "R09.3", "R09.3", causes=('success',))
    runrules.tidy_shape(ctx, rep, "R09.3t")
    shutrules.cancellation_edges(ctx, rep, "R09.4")
    common.wrap_typestate(ctx, rep, "R09.5")
    predicates.config_verbatim(ctx, rep, "R09.6", ('forever',))
    predicates.constructor_forwarding(ctx, rep, "R09.7")
    common.window_gate(ctx, rep, "R09.8", "endofrun")
