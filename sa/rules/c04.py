"""C04 -- the verdict of a run, and its diagnosis, are exactly determined by what happened."""

from . import runrules, nested, predicates, causes, common, taint


def check(ctx, rep):
    rep.explanation = (
        "R04.1 exit <-> verdict <-> cause flags: for every return of the run the cause of the path (expired: "
        "empty done set; critical: the exists-fold over the done set; success: the completion comparison; "
        "empty scheduler) determines the returned boolean and the values of the two cause flags, both reset "
        "before the first start. R04.2/R04.5 truth tables of failed_time_out(), failed_critical() and why() "
        "over {unset, set with timeout 0, set with a positive timeout} x {critical unset/set}: a set flag "
        "reads as set for every admissible timeout, why() names exactly the cause. R04.3 critical mapping of "
        "the nested form over path facts: success or non-critical => return the inherited verdict; critical "
        "and timed out => TimeoutError; critical failure => re-raise the very object returned by a critical "
        "member's exception accessor. R04.4 the window wrapper never replaces a job's exception. R04.6 the "
        "synchronous run() is transparent: it returns the value of driving co_run() once, unprotected and unwrapped. R04.7 (= R02.6) raised_exception(), which the run reads to tell a failure, is the exception of the job's own task for atomic jobs and nested schedulers alike. R04.9 = R05.9 / R08.6 for `critical` and `timeout`. R04.8 in the run, its nested form, the window wrapper and their private coroutines, an exception value is compared with None, never used as a boolean (its truth value is whatever its class says). R04.10 (= R05.1) the run aborts exactly on `a done task raised and its job is critical`, where `raised` is read from the task (its exception), not from what the job returned. R04.11 the main wait is awaited as it is, under no outer bound (wait_for / timeout()): an outer bound that expires cancels the wait and throws away what completed at that instant. R04.12 (= R06.12) failed_time_out(), failed_critical() and why() read what the run recorded about itself, never what a job returned or raised.")
    rep.declined = ["which cause is reported when expiry, last completion and a critical failure share one loop iteration"]
    rep.trusted = ["T1", "T8"]
    runrules.main_wait_direct(ctx, rep, "R04.11")
    causes.exit_verdict_flags(ctx, rep, "R04.1")
    causes.flag_tables(ctx, rep, "R04.2", "R04.5")
    nested.critical_mapping(ctx, rep, "R04.3")
    predicates.identity_flow(ctx, rep, "R04.4")
    common.sync_wrapper(ctx, rep, "R04.6", "run")
    predicates.outcome_tables(ctx, rep, "R04.7", names=("raised_exception",))
    predicates.config_verbatim(ctx, rep, "R04.9", ('critical', 'timeout'))
    common.exception_truthiness(ctx, rep, "R04.8")
    runrules.detection_exact(ctx, rep, "R04.10")
    taint.diagnosis_reads_flags_only(ctx, rep, "R04.12")
