"""C20 -- DOT export and listing describe the scheduler tree faithfully."""

import ast
import re

from .. import terms as T
from ..graphmodel import GraphModel
from ..index import walk_local, dotted
from ..effects import callees_by_name
from .common import src, stmt_of, trace
from .runrules import MEMBERS

HOLE = re.compile(r"\{[^{}]*\}")


def template_braces(s):
    """net count of literal braces of a str.format template"""
    t = s.replace("{{", "\x00").replace("}}", "\x01")
    t = HOLE.sub("", t)
    return (t.count("{") + t.count("\x00")) - (t.count("}") + t.count("\x01"))


def literal_braces(s):
    return s.count("{") - s.count("}")


def _reduce_items(t):
    """item(tuple(a, b), i) -> a / b, bottom up"""
    if not isinstance(t, tuple):
        return t
    t = tuple(_reduce_items(x) for x in t)
    if t and t[0] in ('item', 'sub') and len(t) == 3 and isinstance(t[1], tuple) and t[1] and t[1][0] in ('tuple', 'list'):
        i = t[2][1] if isinstance(t[2], tuple) and t[2][:1] == ('const',) else t[2]
        if isinstance(i, int) and -len(t[1][1]) <= i < len(t[1][1]):
            return t[1][1][i]
    return t


def _expand_join(t):
    """`sep.join(f(x) for x in (a, b))` over a literal table is `f(a) sep f(b)`; None when it is not that"""
    if not (t[0] == 'mcall' and t[2] == 'join' and t[1][0] == 'const' and isinstance(t[1][1], str) and len(t[3]) == 1):
        return None
    c = t[3][0]
    if c[0] in ('tuple', 'list'):
        items = list(c[1])
    elif c[0] == 'comp' and len(c[3]) == 1 and not c[3][0][2] and c[3][0][1][0] in ('tuple', 'list') \
            and len(c[3][0][1][1]) <= 4 and not isinstance(c[2], list):
        key, source, _conds = c[3][0]
        elem = T.mk(('elem', source, key))
        items = [T.mk(_reduce_items(T.replace(c[2], elem, it))) for it in source[1]]
    else:
        return None
    parts = []
    for i, it in enumerate(items):
        if i:
            parts.append(T.mk(('const', t[1][1])))
        parts.append(it)
    return T.mk(('fmt', tuple(parts)))


def piece_of(t):
    """(template with {} holes, hole terms) of a string-valued term"""
    j = _expand_join(t)
    if j is not None:
        return piece_of(j)
    if t[0] == 'const' and isinstance(t[1], str):
        return t[1].replace('{', '{{').replace('}', '}}') if False else t[1], (), [t[1]]
    if t[0] == 'fmt':
        tpl, args, lits = "", [], []
        for part in t[1]:
            if part[0] == 'const' and isinstance(part[1], str):
                tpl += part[1]
                lits.append(part[1])
            elif part[0] == 'fmt' or (part[0] == 'binop' and part[1] == 'Add') or _expand_join(part) is not None:
                st, sa, sl = piece_of(part)
                tpl += st
                args += list(sa)
                lits += sl
            else:
                tpl += "{}"
                args.append(part)
        return tpl, tuple(args), lits
    if t[0] == 'binop' and t[1] == 'Add':
        a, b = piece_of(t[2]), piece_of(t[3])
        return a[0] + b[0], a[1] + b[1], a[2] + b[2]
    return "{}", (t,), []


def is_stringish(t):
    return (t[0] == 'const' and isinstance(t[1], str)) or t[0] in ('fmt', 'out', 'strcat') or \
        (t[0] == 'mcall' and t[2] in ('repr_id', 'dot_cluster_name', 'join')) or \
        (t[0] == 'binop' and t[1] == 'Add' and (is_stringish(t[2]) or is_stringish(t[3])))


class DotModel(GraphModel):
    """GraphModel + the string pieces the emitter appends to its output, whatever the idiom
    (`out += piece`, `chunks.append(piece)`; str.format or f-strings)"""
    keep_type_facts = True

    def on_call(self, ip, node, fterm, args, kws, st, fr):
        if fterm[0] == 'attr' and fterm[1][0] in ('elem', 'mcall', 'last') and fterm[2] != 'format':
            callee = self.prog.supplier(self.roles.sched, fterm[2])
            sig = self.sigs.get(callee.qualname) if callee is not None else None
            if sig is not None and sig.raises and not fterm[2].startswith('dot_') \
                    and fterm[2] not in ('requires',):
                self.ev(ip, 'HELPER', node, st, fr, name=fterm[2], recv=fterm[1])
            # methods of other objects (the jobs being drawn) stay symbolic
            return [(st, T.mk(('mcall', fterm[1], fterm[2], args, kws)))]
        f = node.func
        if fterm[0] == 'attr' and fterm[2] == 'join' and len(args) == 1 and args[0][0] == 'gen':
            # "".join(self._chunks(...)): the pieces are what the generator yields, in order
            from ..flow import Out
            o = Out()
            done = ip.run_generator(args[0], st, fr, o, node, lambda y, val: [self.emit(ip, node, val, y, fr)])
            if done is not None:
                return [(y, T.mk(('out', 'joined'))) for y in done]
        if isinstance(f, ast.Attribute) and isinstance(f.value, ast.Name) and f.attr in ('append', 'extend') \
                and len(args) == 1 and st.var(fr.fid, f.value.id) is not None and f.value.id != 'self':
            cur = st.var(fr.fid, f.value.id)
            if cur[0] in ('union', 'out', 'list') and f.attr == 'extend' and args[0][0] == 'out':
                # the pieces of an inlined helper were logged where it collected them
                return [(st.with_var(fr.fid, f.value.id, T.mk(('out', f.value.id))), T.NONE)]
            if cur[0] in ('union', 'out', 'list') and f.attr == 'extend' and args[0][0] in ('list', 'tuple'):
                for piece in args[0][1]:
                    st = self.emit(ip, node, piece, st, fr)
                return [(st.with_var(fr.fid, f.value.id, T.mk(('out', f.value.id))), T.NONE)]
            if cur[0] in ('union', 'out', 'list') and (is_stringish(args[0]) or args[0][0] == 'mcall'):
                st = self.emit(ip, node, args[0], st, fr)
                return [(st.with_var(fr.fid, f.value.id, T.mk(('out', f.value.id))), T.NONE)]
        return GraphModel.on_call(self, ip, node, fterm, args, kws, st, fr)

    def emit(self, ip, node, piece, st, fr):
        tpl, args, lits = piece_of(piece)
        self.ev(ip, 'PIECE', node, st, fr, tpl=tpl, args=args, brace=st.a('brace', 0), depth=fr.depth,
                piece=piece)
        d = sum(literal_braces(x) for x in lits)
        upd = {'brace': max(-2, min(3, st.a('brace', 0) + d)), 'emitted': True}
        if '->' in tpl:
            upd['nedge'] = min(3, st.a('nedge', 0) + 1)
        return st.set(**upd)

    def on_store_name(self, ip, node, name, val, st, fr):
        if isinstance(node, ast.AugAssign) and isinstance(node.op, ast.Add):
            cur = st.var(fr.fid, name)
            if cur is not None and (is_stringish(cur) or cur == T.mk(('const', ''))):
                # val is the accumulated term: the piece is what was added
                added = None
                if val[0] == 'strcat':
                    extra = [x for x in val[1] if not (cur[0] == 'strcat' and x in cur[1]) and x != cur]
                    added = extra[0] if len(extra) == 1 else None
                elif val[0] == 'binop' and val[1] == 'Add':
                    added = val[3]
                if added is not None and added[0] == 'out':
                    # the pieces of an inlined helper were logged where it appended them
                    return st.with_var(fr.fid, name, T.mk(('out', name)))
                if added is None:
                    # evaluate from the syntax: the right-hand side term is not recoverable
                    added = T.mk(('unk', 'piece'))
                st = self.emit(ip, node, added, st, fr)
                return st.with_var(fr.fid, name, T.mk(('out', name)))
        if isinstance(node, ast.Assign) and name in self.out_names(fr) and val[0] in ('list', 'tuple') and val[1] \
                and all(is_stringish(x) or x[0] == 'mcall' for x in val[1]):
            # the output list starts with its first pieces
            for piece in val[1]:
                st = self.emit(ip, node, piece, st, fr)
            return st.with_var(fr.fid, name, T.mk(('out', name)))
        if isinstance(node, ast.Assign) and name in self.out_names(fr) and \
                (is_stringish(val) or (val[0] == 'mcall' and val[2] in ('repr_id', 'dot_cluster_name'))):
            # the output variable starts with its first piece
            if val != T.mk(('const', '')) and val[0] != 'out':
                st = self.emit(ip, node, val, st, fr)
            return st.with_var(fr.fid, name, T.mk(('out', name)))
        return None

    def out_names(self, fr):
        """names a function returns (directly, or joined): its output accumulators"""
        fn = fr.func.node
        cache = self.__dict__.setdefault('_outn', {})
        if id(fn) not in cache:
            names = set()
            for n in walk_local(fn):
                if isinstance(n, ast.Return) and n.value is not None:
                    v = n.value
                    if isinstance(v, ast.Call) and isinstance(v.func, ast.Attribute) and v.func.attr == 'join' \
                            and len(v.args) == 1:
                        v = v.args[0]
                    if isinstance(v, ast.Name):
                        names.add(v.id)
            cache[id(fn)] = names
        return cache[id(fn)]

    def on_iter(self, ip, ctx, st, fr):
        if ctx.kind == 'for' and ctx.iter is not None and T.is_attr(ctx.iter, 'required') and not ip.in_summary:
            if st.a('req_iter') and st.a('nedge', 0) != 1:
                self.ev(ip, 'EDGECOUNT', ctx.node, st, fr, n=st.a('nedge', 0))
            st = st.set(req_iter=True, nedge=0)
        return GraphModel.on_iter(self, ip, ctx, st, fr)

    def on_loop_exit(self, ip, ctx, st, fr):
        if ctx.kind == 'for' and ctx.iter is not None and T.is_attr(ctx.iter, 'required') and not ip.in_summary:
            if st.a('req_iter') and st.a('nedge', 0) != 1:
                self.ev(ip, 'EDGECOUNT', ctx.node, st, fr, n=st.a('nedge', 0))
            st = st.set(req_iter=False, nedge=0)
        return GraphModel.on_loop_exit(self, ip, ctx, st, fr)


def _is_sched_test(ctx, k):
    """isinstance(x, <scheduler class>) -> x"""
    if k[0] == 'call' and k[1] == 'isinstance' and len(k[2]) == 2 and k[2][1][0] == 'class':
        c = ctx.prog.classes.get(k[2][1][1])
        if c is not None and ctx.roles.sched in c.mro:
            return k[2][0]
    return None


def dot(ctx, rep, r1, r2, r3, r4, r5):
    r = ctx.roles
    p = ctx.prog
    # the emitter: the recursive function called by dot_format
    dotf = p.supplier(r.sched, 'dot_format')
    if dotf is None:
        rep.error(r1, "dot_format not found")
        return
    def reaches_itself(c):
        seen, stack = set(), [c]
        while stack:
            g = stack.pop()
            for m in walk_local(g.node):
                if isinstance(m, ast.Call):
                    for d in callees_by_name(p, g, m):
                        if d is c:
                            return True
                        if d.qualname not in seen and d.cls is not None and r.sched in d.cls.mro \
                                and d.name.startswith('_'):
                            seen.add(d.qualname)
                            stack.append(d)
        return False
    emitters = [c for n in walk_local(dotf.node) if isinstance(n, ast.Call)
                for c in callees_by_name(p, dotf, n) if c.cls is not None and r.sched in c.cls.mro
                and reaches_itself(c)]
    if not emitters:
        rep.error(r1, "body emitter (recursive function called by dot_format) not recognised")
        return
    em = emitters[0]
    fn = em.qualname
    # ------------------------------------------------------------------ R20.1 quoting
    style_cls = None
    for c in p.classes.values():
        if 'dict' in c.external_bases and '__repr__' in c.methods:
            style_cls = c
    if style_cls is None:
        rep.error(r1, "style mapping class (dict subclass with __repr__) not found")
    else:
        rp = style_cls.methods['__repr__']
        an, ip, out = ctx.explore(rp, model=GraphModel, inline_public=tuple(style_cls.methods))
        n = 0
        for st, val, node in out.ret:
            n += 1
            # every value of the mapping goes through the quoter
            comps = [s for s in T.subterms(val) if s[0] == 'comp' and isinstance(s[1], str) and len(s) == 4
                     and s[2][0] in ('fmt', 'binop', 'mcall', 'strcat')]
            cands = [c[2] for c in comps]
            # the explicit-loop form: pieces collected one by one
            cands += [s[1] for s in T.subterms(val) if s[0] == 'single' and s[1][0] in ('fmt', 'binop', 'strcat')]
            why = T.show(val, 6)[:200]
            ok = bool(cands) or any(s[0] == 'union' and not s[1] for s in T.subterms(val))
            for c in cands:
                tpl, args, _lits = piece_of(c)
                # holes: the key, then the value(s); every value hole sits between double quotes and is
                # the result of escaping the embedded double quotes
                segs = tpl.split("{}")
                if len(args) < 2 or '=' not in segs[1]:
                    why = "the mapping is not rendered as key=value pieces: `%s`" % tpl
                    ok = False
                    continue
                for i, a in enumerate(args):
                    if i == 0:
                        continue
                    enclosed = segs[i].endswith('"') and segs[i + 1].startswith('"')
                    escaped = a[0] == 'mcall' and a[2] == 'replace' and len(a[3]) == 2 \
                        and a[3][0] == ('const', '"') and a[3][1] == ('const', '\\"')
                    if not enclosed:
                        ok = False
                        why = "values are emitted without being quoted: `%s` with %s" % (tpl, T.show(a, 4)[:120])
                    elif not escaped:
                        ok = False
                        why = "values are wrapped in double quotes but an embedded double quote is not escaped: %s" \
                            % T.show(a, 4)[:120]
            rep.check(ok, r1, "%s every attribute value is quoted and embedded quotes escaped" % ip.where(node),
                      rp.qualname, why,
                      "a label containing a double quote (or DOT punctuation) breaks the DOT syntax or is altered",
                      trace(st))
        rep.need(r1, n, 1, "returns of the style mapping's __repr__")
        # both branches of the value helper use the quoter (explored above through inlining)
    # ------------------------------------------------------------------ emitter exploration
    an, ip, out = ctx.explore(em, model=DotModel)
    fmts = an.events('PIECE')
    rep.need(r2, len(fmts), 4, "pieces appended by the emitter")
    tpls = [e.data.get('tpl') or '' for e in fmts]
    if not any('->' in t for t in tpls) and not any(t.startswith('subgraph') for t in tpls):
        # neither an edge nor a subgraph statement among what the emitter itself appends: the statements are built
        # somewhere this rule does not follow (helpers that return the text of a node, a table of edge writers)
        rep.error(r2, "%s appends no edge and no subgraph statement of its own: the statements are built by helpers "
                  "this rule does not follow" % fn)
        return
    # R20.1 (b): holes of the emitter are ids, cluster names, styles or the nested body
    safe_m = ('repr_id', 'dot_cluster_name', 'dot_style')
    def hole(a, depth=0):
        """True: made of ids, cluster names, quoted styles and literal text only; False: raw text reaches the
        output; None: cannot tell"""
        if depth > 8:
            return None
        k = a[0]
        if k == 'const':
            return True
        if k == 'mcall' and a[2] in safe_m:
            return True
        if k == 'var' or (k == 'mcall' and a[2] == em.name):
            return True          # the style parameter / the nested body
        if k == 'mcall' and a[2] == 'join' and a[1][0] == 'const' and len(a[3]) == 1:
            return hole(a[3][0], depth + 1)
        subs = None
        if k == 'fmt':
            subs = [x for x in a[1] if isinstance(x, tuple)]
        elif k in ('tuple', 'list'):
            subs = list(a[1])
        elif k == 'comp':
            subs = [a[2]] if not isinstance(a[2], list) else list(a[2])
        elif k == 'elem':
            subs = [a[1]]
        elif k in ('item', 'sub'):
            subs = [a[1]]
        elif k == 'call' and a[1] in ('str', 'format', 'list', 'tuple', 'sorted'):
            subs = list(a[2])
        if subs is not None:
            rs = [hole(x, depth + 1) for x in subs]
            if any(r is False for r in rs):
                return False
            return None if any(r is None for r in rs) else True
        if k in ('attr', 'mcall', 'call'):
            return False
        return None
    for e in fmts:
        for a in e.data['args']:
            ok = hole(a)
            if ok is None:
                rep.error(r1, "%s: cannot tell what `%s` puts in the output (%s)"
                          % (e.where, src(stmt_of(e.node))[:80], T.show(a, 3)[:100]))
                continue
            rep.check(ok, r1, "%s hole filled with an id, a cluster name or a quoted style" % e.where, fn,
                      "`%s` formats %s" % (src(stmt_of(e.node))[:80], T.show(a, 4)),
                      "raw text (e.g. a label) reaches the DOT output without going through the quoter", trace(e.st))
    # ------------------------------------------------------------------ R20.2 edge table
    edges = [e for e in fmts if '->' in e.data['tpl']]
    rep.need(r2, len(edges), 4, "edge statements")
    cases = {}
    for e in edges:
        tests = {}
        for k, v in e.st.facts.items():
            x = _is_sched_test(ctx, k)
            if x is not None:
                tests[x] = v
        lp = [c for c in e.loops if c.kind == 'for' and c.iter is not None and T.is_attr(c.iter, 'required')]
        if not lp:
            rep.fail(r2, "%s edge emitted inside the loop over the requirements" % e.where, fn,
                     "`%s` outside `for req in job.required`" % src(stmt_of(e.node))[:80],
                     "an edge that corresponds to no requirement", trace(e.st))
            continue
        req = lp[-1].elem
        job = lp[-1].iter[1]
        jc, rc = tests.get(job), tests.get(req)
        if jc is None or rc is None:
            rep.fail(r2, "%s edge case determined by the kinds of both ends" % e.where, fn,
                     "`%s` emitted without testing whether both ends are schedulers" % src(stmt_of(e.node))[:80],
                     "clusters and atomic jobs are linked the same way", trace(e.st))
            continue
        cases.setdefault((jc, rc), set()).add(id(e.node))
        tpl = e.data['tpl']
        args = e.data['args']
        site = "%s edge (job is %s, requirement is %s)" % (e.where, "cluster" if jc else "node", "cluster" if rc else "node")
        def root(t):
            while t[0] == 'mcall':
                t = t[1]
            return t
        ok = len(args) >= 2 and root(args[0]) == req and root(args[1]) == job
        rep.check(ok, r2, site + " goes from the requirement to the requiring job", fn,
                  "`%s` -> first end %s, second end %s" % (tpl.strip(), T.show(args[0], 3) if args else None,
                                                          T.show(args[1], 3) if len(args) > 1 else None),
                  "the arrow is drawn backwards (or between the wrong jobs)", trace(e.st))
        rep.check(('lhead=' in tpl) == bool(jc) and ('ltail=' in tpl) == bool(rc), r2,
                  site + " lhead/ltail exactly for cluster ends", fn,
                  "template `%s`" % tpl.strip(),
                  "an edge to/from a nested scheduler is not attached to its cluster (or an edge between plain "
                  "jobs is)", trace(e.st))
        if jc or rc:
            names = HOLE.findall(tpl)
            idx = {}
            pos = 0
            for m in re.finditer(r"(lhead|ltail)=\{\}", tpl):
                idx[m.group(1)] = tpl[:m.start()].count("{}")
            for key, who in (('lhead', job), ('ltail', req)):
                if key in idx and idx[key] < len(args):
                    a = args[idx[key]]
                    okc = a == T.mk(('mcall', who, 'dot_cluster_name', (), ()))
                    rep.check(okc, r2, site + " %s names the right cluster" % key, fn,
                              "%s=%s" % (key, T.show(a, 3)), "the edge is clipped at the wrong cluster", trace(e.st))
        # atomic end points for clusters
        if rc:
            rep.check(args and args[0][0] == 'mcall' and args[0][2] == 'repr_id' and args[0][1][0] == 'mcall'
                      and args[0][1][1] == req, r2, site + " starts at an atomic job of the required cluster", fn,
                      "first end %s" % (T.show(args[0], 3) if args else None),
                      "an edge starts at a cluster id, which DOT does not allow", trace(e.st))
        if jc:
            rep.check(len(args) > 1 and args[1][0] == 'mcall' and args[1][2] == 'repr_id' and args[1][1][0] == 'mcall'
                      and args[1][1][1] == job, r2, site + " ends at an atomic job of the requiring cluster", fn,
                      "second end %s" % (T.show(args[1], 3) if len(args) > 1 else None),
                      "an edge ends at a cluster id, which DOT does not allow", trace(e.st))
    # the helpers that pick the end point inside a cluster must return an atomic job
    helpers = set()
    for e in edges:
        for a in e.data['args'][:2]:
            if a[0] == 'mcall' and a[2] == 'repr_id' and a[1][0] == 'mcall':
                helpers.add(a[1][2])
    for hname in sorted(helpers):
        hf = p.supplier(r.sched, hname)
        if hf is None:
            continue
        han, hip, hout = ctx.explore(hf, model=DotModel)
        hrets = han.events('RET')
        rep.need(r2 + ":" + hname, len(hrets), 1, "returns of the end-point helper")
        for e in hrets:
            v = e.data['val']
            if v[0] == 'mcall' and v[2] == hname:
                rep.ok(r2, "%s recursion into the nested scheduler" % e.where)
                continue
            atomic = False
            for k, val in e.st.facts.items():
                x = _is_sched_test(ctx, k)
                if x is not None and x == v and val is False:
                    atomic = True
            rep.check(atomic, r2, "%s end point is an atomic job" % e.where, hf.qualname,
                      "`%s` returns %s without having established that it is not a scheduler"
                      % (src(stmt_of(e.node)), T.show(v, 3)),
                      "an edge ends at a cluster id: graphviz creates an extra, undeclared node", trace(e.st))
    for e in an.events('HELPER'):
        if e.data['name'] not in helpers:
            continue
        inreq = any(c.kind == 'for' and c.iter is not None and T.is_attr(c.iter, 'required') for c in e.loops)
        rep.check(inreq, r4, "%s end-point helper only called for an actual requirement" % e.where, fn,
                  "`%s` evaluated outside the loop over the requirements" % src(stmt_of(e.node))[:90],
                  "dot_format() raises for an empty nested scheduler even when it has no requirement at all "
                  "(the helper raises when the scheduler has no entry/exit job)", trace(e.st))
    for case in ((False, False), (False, True), (True, False), (True, True)):
        rep.check(case in cases and len(cases[case]) == 1, r2,
                  "%s one edge statement for job=%s requirement=%s" % (fn, "cluster" if case[0] else "node",
                                                                         "cluster" if case[1] else "node"), fn,
                  "%d edge statements for this case" % len(cases.get(case, ())),
                  "a requirement is drawn twice or not at all")
    for e in an.events('EDGECOUNT'):
        rep.fail(r2, "%s exactly one edge per requirement" % e.where, fn,
                 "an iteration over job.required emits %s edge statements" % e.data['n'],
                 "a requirement is drawn twice or not at all", trace(e.st))
    # loops: jobs in topological order, every requirement
    for e in edges[:1]:
        outer = [c for c in e.loops if c.kind == 'for'][0]
        rep.check(outer.iter[0] == 'gen' and outer.iter[1].endswith('topological_order'), r2,
                  "%s every job once, in topological order" % fn, fn,
                  "the emitter iterates over %s" % T.show(outer.iter, 3), "jobs are drawn twice or missed")
    # node statements: one per atomic job
    nodes = [e for e in fmts if re.search(r"\[\{\}\]", e.data['tpl']) and '->' not in e.data['tpl']
             and 'graph' not in e.data['tpl']]
    for e in nodes:
        jobs = [x for k, v in e.st.facts.items() for x in [_is_sched_test(ctx, k)] if x is not None and v is False]
        rep.check(bool(jobs), r2, "%s node statement only for atomic jobs" % e.where, fn,
                  "`%s` emitted without testing that the job is not a scheduler" % src(stmt_of(e.node))[:80],
                  "a nested scheduler is drawn as a node as well as a cluster", trace(e.st))
    rep.check(bool(nodes), r2, "%s emits a node statement per atomic job" % fn, fn, "no `<id> [<style>]` statement",
              "atomic jobs are not declared: labels and styles are lost")
    subs = [e for e in fmts if e.data['tpl'].startswith('subgraph')]
    rep.check(bool(subs), r2, "%s emits a subgraph per nested scheduler" % fn, fn, "no `subgraph <name>` statement",
              "nested schedulers are not drawn as clusters")
    for e in subs:
        a = e.data['args'][0] if e.data['args'] else None
        rep.check(a is not None and a[0] == 'mcall' and a[2] == 'dot_cluster_name', r2,
                  "%s subgraph named by the cluster name" % e.where, fn, "subgraph %s" % (T.show(a, 3) if a is not None else None),
                  "the subgraph is not a cluster / edges cannot refer to it", trace(e.st))
    cn = p.supplier(r.nestable[0], 'dot_cluster_name') if r.nestable else None
    if cn is not None:
        rets = [n for n in walk_local(cn.node) if isinstance(n, ast.Return)]
        ok = any(isinstance(c, ast.Constant) and isinstance(c.value, str) and c.value.startswith('cluster')
                 for x in rets for c in ast.walk(x))
        if not ok and rets and all(isinstance(x.value, ast.Attribute) and isinstance(x.value.value, ast.Name)
                                   and x.value.value.id == 'self' for x in rets):
            # the name is kept in an attribute: judged by what is stored there
            attrs = {x.value.attr for x in rets}
            stores = [n for c_ in cn.cls.mro for g_ in c_.methods.values() for n in walk_local(g_.node)
                      if isinstance(n, ast.Assign) and any(isinstance(t, ast.Attribute) and t.attr in attrs
                                                           and isinstance(t.value, ast.Name) and t.value.id == 'self'
                                                           for t in n.targets)]
            ok = bool(stores) and all(any(isinstance(c, ast.Constant) and isinstance(c.value, str)
                                          and c.value.startswith('cluster') for c in ast.walk(n.value)) for n in stores)
        rep.check(ok, r2, "%s starts with `cluster`" % cn.qualname, cn.qualname, "returns %s" % [src(x) for x in rets],
                  "graphviz only treats subgraphs named cluster* as clusters: lhead/ltail stop working")
    # ------------------------------------------------------------------ R20.5 skeleton
    for st, val, node in out.ret:
        rep.check(st.a('brace', 0) == 0, r5, "%s braces balanced when the body is returned" % ip.where(node), fn,
                  "net brace count %s on this path" % st.a('brace', 0), "the DOT output is not well-bracketed",
                  trace(st))
    lit = [e for e in fmts if not e.data['args']]
    opens = [e for e in lit if e.data['tpl'].lstrip().startswith('{')]
    closes = [e for e in lit if e.data['tpl'].strip() == '}']
    rep.check(bool(opens) and all(not e.loops for e in opens), r5, "%s opens its body once" % fn, fn,
              "opening brace emitted %s" % ("in a loop" if opens else "never"), "the body is not a `{ ... }` block")
    rep.check(bool(closes) and all(not e.loops for e in closes), r5, "%s closes its body once" % fn, fn,
              "closing brace emitted %s" % ("in a loop" if closes else "never"), "the body is not a `{ ... }` block")
    stmt_forms = [r"^\{\n$", r"^\}\n$", r"^compound=true;\n$", r"^graph \[\{\}\];\n$", r"^(\{\})? ?\[\{\}\]\n$",
                  r"^\{\}$", r"^\{\} -> \{\};\n$",
                  r"^\{\} -> \{\} \[(lhead=\{\}|ltail=\{\}|lhead=\{\} ltail=\{\})\];\n$",
                  r"^subgraph \{\}(\{\})?$", r"^$"]
    for e in fmts:
        tpl = e.data['tpl']
        ok = any(re.match(f, tpl) for f in stmt_forms)
        rep.check(ok, r5, "%s `%s` is a statement of the DOT subset" % (e.where, tpl.strip()[:40]), fn,
                  "emitted fragment %r" % tpl, "the output is not in the DOT grammar", trace(e.st))
    drets = [n for n in walk_local(dotf.node) if isinstance(n, ast.Return)]

    def strings_in(x):
        """string literals of an expression, the constants of the class / module it names included"""
        for c in ast.walk(x):
            if isinstance(c, ast.Constant) and isinstance(c.value, str):
                yield c.value
            elif isinstance(c, ast.Attribute) and isinstance(c.value, ast.Name) and c.value.id in ('self', 'cls') \
                    and dotf.cls is not None:
                for k in dotf.cls.mro:
                    for n in k.node.body:
                        if isinstance(n, ast.Assign) and any(isinstance(t, ast.Name) and t.id == c.attr for t in n.targets) \
                                and isinstance(n.value, ast.Constant) and isinstance(n.value.value, str):
                            yield n.value.value
            elif isinstance(c, ast.Name):
                for n in list(dotf.module.tree.body) + list(walk_local(dotf.node)):
                    if isinstance(n, ast.Assign) and any(isinstance(t, ast.Name) and t.id == c.id for t in n.targets) \
                            and isinstance(n.value, ast.Constant) and isinstance(n.value.value, str):
                        yield n.value.value
    okd = any(re.match(r"^(strict )?digraph( \w+)?\s*$", v) for x in drets for v in strings_in(x))
    rep.check(okd, r5, "%s starts with `digraph <name>`" % dotf.qualname, dotf.qualname,
              "returns %s" % [src(x)[:80] for x in drets], "the output is not a DOT graph")
    numbering(ctx, rep, r3, em)
    # ------------------------------------------------------------------ R20.4 exception escape
    reach = {}
    stack = [dotf]
    while stack:
        f = stack.pop()
        if f.qualname in reach:
            continue
        reach[f.qualname] = f
        for n in walk_local(f.node):
            if isinstance(n, ast.Call):
                for c in callees_by_name(p, f, n):
                    if c.module.name in ('watch',):
                        continue
                    if c.qualname not in reach and c.cls is not None and (
                            r.sched in c.cls.mro or r.jobbase in c.cls.mro or c.cls is style_cls):
                        # only what dot_format can actually reach: emitter, numbering, styles, middle jobs
                        stack.append(c)
    topo = p.supplier(r.sched, 'topological_order')
    nraise = 0
    for q, f in sorted(reach.items()):
        if f.is_async or f.name in ('co_run', 'co_shutdown', 'run', 'shutdown', 'result', 'list', 'debrief',
                                    'bypass_and_remove', 'requires', 'graph', 'export_as_graphic'):
            continue
        for n in walk_local(f.node):
            if isinstance(n, ast.Raise) and n.exc is not None:
                nraise += 1
                if f is topo:
                    rep.ok(r4, "%s:%d raise in the ordering generator: cyclic or unclosed graph, outside the "
                               "property's domain" % (f.module.relpath, n.lineno))
                    continue
                # is it inside a handler-protected region of its own function?
                rep.fail(r4, "%s:%d raise reachable from dot_format" % (f.module.relpath, n.lineno), f.qualname,
                         "`%s`" % src(n),
                         "dot_format() raises for an admissible tree: an empty nested scheduler that has, or is, "
                         "a requirement has no entry/exit job to attach the edge to")
    rep.need(r4, nraise, 1, "raise statements reachable from dot_format")


def numbering(ctx, rep, r3, em=None):
    """R20.3 / R15.5: ids assigned before use, on every call; tree-wide numbering"""
    r = ctx.roles
    p = ctx.prog
    if em is None:
        dotf = p.supplier(r.sched, 'dot_format')
        ems = [c for n in walk_local(dotf.node) if isinstance(n, ast.Call)
               for c in callees_by_name(p, dotf, n)
               if any(c in callees_by_name(p, c, m) for m in walk_local(c.node) if isinstance(m, ast.Call))]
        em = ems[0] if ems else None
    id_attr = None
    rid = p.supplier(r.jobbase, 'repr_id')
    if rid is not None:
        at = {n.attr for n in walk_local(rid.node) if isinstance(n, ast.Attribute) and isinstance(n.value, ast.Name)
              and n.value.id == 'self'}
        id_attr = at.pop() if len(at) == 1 else None
    if id_attr is None:
        rep.error(r3, "id attribute (read by repr_id) not recognised")
    else:
        sigs = ctx.sigs
        numbering = {q for q, s_ in sigs.items() if id_attr in s_.stores}
        for name in ('dot_format', 'list'):
            f = p.supplier(r.sched, name)
            first_num = first_use = None
            conditional = None
            for i, s_ in enumerate(f.node.body):
                for n in ast.walk(s_):
                    if isinstance(n, ast.Call):
                        for c in callees_by_name(p, f, n):
                            if c.qualname in numbering and c.name != name and first_num is None \
                                    and 'safe' not in c.name:
                                first_num = i
                                if isinstance(s_, (ast.If, ast.While, ast.For, ast.Try)):
                                    conditional = s_
                            if (c is em or c.name in ('_list', 'repr_id')) and first_use is None:
                                first_use = i
            rep.check(conditional is None, r3, "%s numbers the jobs on every call" % f.qualname, f.qualname,
                      "ids are (re)assigned only under `%s`" % (src(conditional.test)
                                                                 if isinstance(conditional, (ast.If, ast.While)) else 'a condition'),
                      "after an edit of the requirements the jobs are listed / drawn with the numbering of the "
                      "previous graph: a job can be numbered before its requirement")
            rep.check(first_num is not None and (first_use is None or first_num < first_use), r3,
                      "%s numbers the jobs before using their ids" % f.qualname, f.qualname,
                      "ids assigned at statement %s, used at statement %s" % (first_num, first_use),
                      "jobs are drawn/listed with stale or missing ids: nodes collide or show as ??")
        lst = p.supplier(r.sched, 'list')
        from .common import topo_loops
        uses = topo_loops(ctx, lst, exclude={q.split('.')[-1] for q in numbering})
        rep.check(bool(uses), r3, "%s lists in topological order" % lst.qualname, lst.qualname,
                  "list() does not iterate over self.topological_order()", "jobs are not listed in topological order")
        # nested numbering hook: one id for the cluster, then its members; count hook agrees
        hook = None
        for m, f in r.jobbase.methods.items():
            if id_attr in {n.attr for n in walk_local(f.node) if isinstance(n, ast.Attribute)
                           and isinstance(n.ctx, ast.Store)}:
                hook = m
        # every numbering pass gives every job its id: the hook stores it unconditionally
        if hook is not None:
            for cls_ in [r.jobbase] + list(r.nestable):
                hf = cls_.methods.get(hook)
                if hf is None:
                    continue
                for n in walk_local(hf.node):
                    if isinstance(n, ast.Assign) and any(isinstance(t, ast.Attribute) and t.attr == id_attr for t in n.targets):
                        par = getattr(n, '_parent', None)
                        cond = None
                        while par is not None and par is not hf.node:
                            if isinstance(par, (ast.If, ast.While, ast.Try, ast.For)):
                                cond = par
                            par = getattr(par, '_parent', None)
                        rep.check(cond is None, r3, "%s:%d the id is (re)assigned on every numbering pass"
                                  % (hf.module.relpath, n.lineno), hf.qualname,
                                  "`%s` under `%s`" % (src(n), src(cond.test) if isinstance(cond, (ast.If, ast.While)) else 'a condition'),
                                  "a job keeps the id of an earlier numbering: after an edit of the requirements the "
                                  "listing shows a job numbered before its requirement, or two jobs with the same id")
        # the scheduler-side numbering takes the next free id from what each member's hook
        # returns (a nested scheduler consumes 1 + its members): it does not recompute it
        for q in sorted(numbering):
            g = p.funcs.get(q)
            if g is None or g.cls is None or r.sched not in g.cls.mro or hook is None or g.name == hook \
                    or 'safe' in g.name:
                continue
            loops = [n for n in walk_local(g.node) if isinstance(n, ast.For)]
            for lp in loops:
                calls = [n for n in ast.walk(lp) if isinstance(n, ast.Call) and isinstance(n.func, ast.Attribute)
                         and n.func.attr == hook]
                if not calls:
                    continue
                okret = False
                for n in ast.walk(lp):
                    if isinstance(n, ast.Assign) and n.value in calls and isinstance(n.targets[0], ast.Name):
                        cnt = n.targets[0].id
                        first = calls[0].args[0] if calls[0].args else None
                        okret = isinstance(first, ast.Name) and first.id == cnt
                others = [n for n in ast.walk(lp) if isinstance(n, ast.AugAssign)]
                rep.check(okret and not others, r3, "%s next id is what the member's numbering returned" % g.qualname,
                          g.qualname, "`%s`%s" % (src(calls[0]), " followed by `%s`" % src(others[0]) if others else
                                                   " whose result is not the next index"),
                          "the id following a nested scheduler is computed separately from the ids it consumed: "
                          "two jobs of a deep tree get the same id")
        for cls in r.nestable:
            if hook is None:
                break
            f = cls.methods.get(hook)
            if f is None:
                # a template method: the base hook numbers the node and hands over to a second hook, which the
                # nestable class overrides
                base = p.supplier(cls, hook)
                subs = {n.func.attr for n in walk_local(base.node) if isinstance(n, ast.Call)
                        and isinstance(n.func, ast.Attribute) and isinstance(n.func.value, ast.Name)
                        and n.func.value.id == 'self' and n.func.attr in cls.methods} if base is not None else set()
                if subs:
                    rep.error(r3, "%s numbers a nested scheduler through a template method (%s.%s calls %s, overridden "
                              "in %s): this rule reads the form where the nestable class overrides the numbering hook "
                              "itself, and cannot decide this one" % (cls.name, base.cls.name, hook,
                                                                      ", ".join(sorted(subs)), cls.name))
                    continue
            rep.check(f is not None, r3, "%s overrides the numbering hook" % cls.name, "class " + cls.name,
                      "%s.%s is inherited from %s" % (cls.name, hook, p.supplier(cls, hook).cls.name),
                      "the jobs of a nested scheduler are not numbered: ids collide across the tree")
            if f is None:
                continue
            calls = [n for n in walk_local(f.node) if isinstance(n, ast.Call) and isinstance(n.func, ast.Attribute)]
            own = [n for n in calls if n.func.attr == hook and dotted(n.func.value) in p.classes]
            deep = [n for n in calls for c in callees_by_name(p, f, n) if c.qualname in numbering
                    and c.cls is not None and r.sched in c.cls.mro and c is not f and n not in own]
            fsrc = f
            if not own and len(deep) == 1:
                # the override hands over to a helper of the scheduler side that does both steps
                gs = [c for c in callees_by_name(p, f, deep[0]) if c.qualname in numbering]
                if len(gs) == 1:
                    g2 = gs[0]
                    fsrc = g2
                    calls2 = [n for n in walk_local(g2.node) if isinstance(n, ast.Call) and isinstance(n.func, ast.Attribute)]
                    own = [n for n in calls2 if n.func.attr == hook and dotted(n.func.value) in p.classes]
                    deep = [n for n in calls2 for c in callees_by_name(p, g2, n) if c.qualname in numbering
                            and c.cls is not None and r.sched in c.cls.mro and c is not g2 and n not in own]
            if not own and deep:
                base_hook = p.supplier(r.jobbase, hook)
                idattrs = {t.attr for n in walk_local(base_hook.node) if isinstance(n, ast.Assign) for t in n.targets
                           if isinstance(t, ast.Attribute)} if base_hook is not None else set()
                if any(isinstance(n, ast.Assign) and any(isinstance(t, ast.Attribute) and t.attr in idattrs
                                                         for t in n.targets)
                       for g_ in {f, fsrc} for n in walk_local(g_.node)):
                    rep.error(r3, "%s.%s stores its own id itself instead of handing over to %s: this rule cannot decide "
                                  "this form" % (cls.name, hook, base_hook.qualname))
                    continue
            rep.check(bool(own) and bool(deep), r3, "%s.%s takes one id for the cluster and numbers its members"
                      % (cls.name, hook), f.qualname,
                      "own id: %s, members: %s" % ([src(n)[:50] for n in own], [src(n)[:50] for n in deep]),
                      "ids are not unique tree-wide")
            rets = [n for n in walk_local(fsrc.node) if isinstance(n, ast.Return)]
            via_local = {t.id for n in walk_local(fsrc.node) if isinstance(n, ast.Assign) and n.value in deep
                         for t in n.targets if isinstance(t, ast.Name)}
            rep.check(any((isinstance(x.value, ast.Call) and x.value in deep) or
                          (isinstance(x.value, ast.Name) and x.value.id in via_local) for x in rets), r3,
                      "%s.%s returns the next free id after its members" % (cls.name, hook), f.qualname,
                      "returns %s" % [src(x)[:60] for x in rets],
                      "the id following a nested scheduler collides with an id used inside it")


# ------------------------------------------------------------------ ids are DOT identifiers
_SPEC = None


def _bad_spec(spec):
    """a format spec that pads with something else than zeros: [[fill]align][sign][#][0][width]..."""
    import re
    m = re.match(r'^(?:(.)?([<>=^]))?([-+ ])?(#)?(0)?(\d+|@N@)?', spec)
    if not m:
        return None
    fill, align, sign, _alt, zero, width = m.groups()
    if sign == ' ':
        return "a blank in place of the sign"
    if width and not zero and (fill is None or fill != '0'):
        return "padded to a width with %s" % ("blanks" if fill in (None, ' ') else repr(fill))
    return None


def id_alphabet(ctx, rep, rule):
    """the ids written into the jobs become DOT identifiers (node names, `cluster_<id>`): a format that pads
    with blanks, or a template with white space, yields an invalid identifier"""
    import re
    r = ctx.roles
    p = ctx.prog
    rid = p.supplier(r.jobbase, 'repr_id')
    at = {n.attr for n in walk_local(rid.node) if isinstance(n, ast.Attribute) and isinstance(n.value, ast.Name)
          and n.value.id == 'self'} if rid is not None else set()
    if len(at) != 1:
        rep.error(rule, "id attribute (read by repr_id) not recognised")
        return
    id_attr = at.pop()
    def assigns_ids(f):
        return any(isinstance(n, ast.Attribute) and n.attr == id_attr and isinstance(n.ctx, ast.Store)
                   for n in walk_local(f.node))

    def passes_template(f):
        # the function that computes the format handed to the per-job numbering hook
        return any(isinstance(n, ast.Call) and isinstance(n.func, ast.Attribute)
                   and any(assigns_ids(c) for c in callees_by_name(p, f, n)) for n in walk_local(f.node))
    funcs = [f for f in p.all_functions() if f.name != '__init__' and (assigns_ids(f) or passes_template(f))]
    rep.need(rule, len(funcs), 2, "functions that assign ids")
    n = 0
    for f in funcs:
        for c in walk_local(f.node):
            if not (isinstance(c, ast.Constant) and isinstance(c.value, str) and '{' in c.value):
                continue
            par = getattr(c, '_parent', None)
            if isinstance(par, ast.Expr):
                continue        # docstring
            tpl = c.value
            gpar = getattr(par, '_parent', None)
            generates = isinstance(par, ast.Attribute) and par.attr == 'format' and '{{' in tpl
            if generates:
                # a template that produces a template: `"{{:0{w}d}}".format(w=width)`
                tpl = re.sub(r'\{[^{}]*\}', '@N@', tpl.replace('{{', '\x00').replace('}}', '\x01'))
                tpl = tpl.replace('\x00', '{').replace('\x01', '}')
            n += 1
            bad = None
            for m in re.finditer(r'\{[^{}:!]*(?:![rsa])?(?::([^{}]*))?\}', tpl):
                if m.group(1):
                    bad = bad or _bad_spec(m.group(1))
            lit = re.sub(r'\{[^{}]*\}', '', tpl)
            if re.search(r'\s', lit):
                bad = bad or "white space in the template"
            rep.check(bad is None, rule, "%s:%d id template yields a DOT identifier" % (f.module.relpath, c.lineno),
                      f.qualname, "id template `%s` (%s): %s" % (c.value, tpl, bad),
                      "ids are embedded in node and cluster names: `subgraph cluster_ 2{` is a DOT syntax error")
        for c in walk_local(f.node):
            if isinstance(c, ast.Call) and isinstance(c.func, ast.Attribute) and c.func.attr in ('rjust', 'ljust', 'center'):
                fillc = c.args[1] if len(c.args) > 1 else None
                n += 1
                rep.check(isinstance(fillc, ast.Constant) and fillc.value == '0', rule,
                          "%s:%d id padded with zeros" % (f.module.relpath, c.lineno), f.qualname,
                          "`%s` pads the id with blanks" % src(c), "ids with blanks are not DOT identifiers")
    rep.need(rule, n, 1, "id templates")


# ------------------------------------------------------------------ labels survive unchanged
def labels_verbatim(ctx, rep, rule):
    """what is drawn / listed as the label of a job is the text the user gave, unmodified: every value returned
    by the label getters is the `label` attribute, what the user's text_label() / graph_label() returned,
    the other getter's result, a constant placeholder, or one of these embedded in a format with the id"""
    from ..graphmodel import GraphModel
    r = ctx.roles
    p = ctx.prog
    # (methods `_get_<kind>_label()`, or the same as properties `_<kind>_label`)
    getters = [f for n, f in r.jobbase.methods.items() if n.startswith('_') and not n.startswith('__')
               and n.endswith('_label')]
    rep.need(rule, len(getters), 1, "label getters")
    names = {f.name for f in getters}
    hooks = ('text_label', 'graph_label')

    TRANSFORMS = ('join', 'split', 'splitlines', 'replace', 'strip', 'lstrip', 'rstrip', 'upper', 'lower', 'title',
                  'capitalize', 'casefold', 'swapcase', 'translate', 'expandtabs', 'encode', 'decode', 'center',
                  'ljust', 'rjust', 'zfill', 'partition', 'rpartition', 'removeprefix', 'removesuffix', 'format_map')

    def from_user(t):
        return T.mentions(t, lambda x: (T.is_attr(x, 'label') and x[1] == T.SELF) or
                          (x[0] == 'mcall' and x[1] == T.SELF and (x[2] in hooks or x[2] in names)) or
                          x[0] in ('unk', 'elem', 'item'))

    def altered(t):
        """positive evidence that the user's text is transformed on its way out (a deny-list: what cannot be
        read - a getter chosen from a table of callables, say - is not reported)"""
        for x in T.subterms(t):
            if x[0] == 'mcall' and x[2] in TRANSFORMS and (from_user(x[1]) or any(from_user(a) for a in x[3])):
                return "`.%s()` applied to the label" % x[2]
            if x[0] == 'sub' and from_user(x[1]) and x[2][0] in ('slice', 'const'):
                return "the label is sliced / indexed"
            if x[0] == 'call' and x[1] in ('repr', 'ascii', 'textwrap.shorten', 'textwrap.fill', 'shorten') \
                    and any(from_user(a) for a in x[2]):
                return "`%s()` applied to the label" % x[1]
        return None
    n = 0
    for f in getters:
        an, ip, out = ctx.explore(f, model=GraphModel, no_inline=tuple(names) + hooks)
        for st, val, node in out.ret:
            n += 1
            why = altered(val)
            rep.check(why is None, rule, "%s returns the user's text unmodified" % ip.where(node), f.qualname,
                      "`%s`: %s (%s)" % (src(node)[:80], why, T.show(val, 5)[:120]),
                      "the label that is drawn or listed is not the label the user gave (characters dropped, "
                      "replaced or re-flowed)", trace(st))
    rep.need(rule + ":returns", n, 3, "returns of the label getters")
