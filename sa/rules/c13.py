"""C13 -- shutdown reaches every job exactly once, at its scheduler's end, in bounded time."""

from . import predicates, runrules, shutrules, common


def check(ctx, rep):
    rep.explanation = (
        "R13.1 every exit of the run after the first start is tidy -> shutdown -> return (EXIT automaton), on "
        "all three exit paths. R13.2 the once-guard of the broadcast is tested, then stored True, before the "
        "handlers are launched and with no suspension in between; it has no other writer. R13.3 the broadcast "
        "creates one task from the member's own co_shutdown for every member, unfiltered; for the nestable "
        "class co_shutdown resolves (C3 MRO) to the broadcast itself, which is the relay. R13.4 the wait on "
        "the handlers is bounded by shutdown_timeout (None = unbounded) and what is still pending is "
        "cancelled and awaited. R13.5 every return of the broadcast is the boolean `nothing had to be "
        "cancelled`. R13.6 = R11.2: a cancelled nested run has tidied its jobs before its parent shuts down. "
        "R13.7 the synchronous shutdown() returns the value of driving co_shutdown() once, unprotected. R13.8 `shutdown_timeout` is what the caller gave. R13.9 a coroutine-based job awaits the shutdown coroutine it was given, guarded by nothing but its presence. R13.10 (= R08.1) the deadline helper that bounds the shutdown phase gives no deadline only for None: shutdown_timeout=0 is a bound. R13.11 the default of `shutdown_timeout` is a positive bound in every scheduler constructor. R13.12 the tasks the broadcast makes for the shutdown handlers carry no job back-pointer: none of the calls that pass them on reaches code that reads it (which would raise before the stragglers are cancelled). R13.13 the helper that records the deadline of a phase stores it on every path (None included): the shutdown phase never inherits the deadline of the run.")
    rep.declined = ["handler durations"]
    rep.trusted = ["T1", "T2", "T8"]
    runrules.exit_discipline(ctx, rep, "R13.1", "R13.1", "R13.1", shut_even_unstarted=True)
    shutrules.guard_atomic(ctx, rep, "R13.2")
    shutrules.broadcast_total(ctx, rep, "R13.3")
    shutrules.bounded_then_cancel(ctx, rep, "R13.4", "R13.5")
    shutrules.cancellation_edges(ctx, rep, "R13.6", prompt=True)
    common.sync_wrapper(ctx, rep, "R13.7", "shutdown")
    predicates.config_verbatim(ctx, rep, "R13.8", ('shutdown_timeout',))
    shutrules.user_shutdown_unconditional(ctx, rep, "R13.9")
    runrules.deadline(ctx, rep, "R13.10", "R13.10")
    predicates.shutdown_bounded_by_default(ctx, rep, "R13.11")
    shutrules.handler_tasks_carry_no_job(ctx, rep, "R13.12")
    runrules.deadline_always_stored(ctx, rep, "R13.13")
