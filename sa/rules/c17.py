"""C17 -- neighbour, reachability and traversal queries agree with the requirements."""

from . import graphrules, common


def check(ctx, rep):
    rep.explanation = (
        "R17.1 direction agreement by constant propagation of the attribute-name argument: predecessors(_upstream) "
        "traverse `required`, successors(_downstream) the reverse attribute; one step vs closure helper. R17.2 "
        "freshness: on every path of successors / successors_downstream / exit_jobs (opt-out parameter at its "
        "default) the relation builder runs before the reverse attribute is read; the builder itself resets and "
        "links with the right orientation. R17.3 the step is a union over all starts and all neighbours, "
        "members only, with no early exit. R17.4 the closure is seeded with one step from the starts, each pass "
        "applies the step to every element, additions count as progress and the loop exits only after a pass "
        "that added nothing. R17.5 yield conditions of entry_jobs / exit_jobs as path facts. R17.6 traversal "
        "siblings: the leaf hook yields the job once, container hooks yield self iff requested and delegate to "
        "every member. R17.9 a job is never asked whether it is iterable before it is recognised as a job (a nested scheduler is a collection of jobs: it would be taken apart).")
    rep.trusted = ["T8 set semantics, generators"]
    graphrules.queries(ctx, rep, "R17.1", "R17.2", "R17.3", "R17.4", "R17.5", "R17.6")
    common.relation_builder(ctx, rep, "R17.2")
    p, r = ctx.prog, ctx.roles
    funcs = [f for f in r.sched.methods.values() if f.name in (
        'entry_jobs', 'exit_jobs', 'predecessors', 'successors', 'predecessors_upstream', 'successors_downstream',
        'iterate_jobs') or 'neighbours' in f.name]
    common.job_truthiness(ctx, rep, "R17.7", funcs)
    common.job_iterability(ctx, rep, "R17.9", funcs)
    common.no_state_across_calls(ctx, rep, "R17.8", funcs)
