"""C18 -- graph surgery keeps exactly the documented jobs (necessary conditions)."""

from . import graphrules


def check(ctx, rep):
    rep.explanation = (
        "Necessary conditions; preservation of the transitive closure by bypass_and_remove over all DAGs is "
        "declined. R18.1 closedness restored: keep_only / keep_only_between call sanitize() after narrowing the "
        "member set; bypass removes the job from the requirements of every member that had it. R18.2 bypass "
        "step set: non-member => ValueError before any mutation; downstreams = members that require the job; "
        "every downstream requires every upstream (orientation, full product, no early exit); the job leaves "
        "the member set; nothing else is removed. R18.3 documented set terms: keep_only: members & set(R); "
        "keep_only_between: (starts ? downstream(starts) : members) & (ends ? upstream(ends) : members), "
        "starts / ends added back under their own keep flag. R18.6 an argument that may be a generator is run through at most once before it has been copied into a collection. R18.7 a job is never asked whether it is iterable before it is recognised as a job (a nested scheduler is a collection of jobs: it would be taken apart). R18.q2 also (= R17.2): the reverse links the surgery reads are rebuilt from the requirements whenever they are asked for - the builder returns early only on the say-so of its caller, never because of a flag or fingerprint it keeps (the surgery edits the member set directly).")
    rep.declined = ["'every path through j is re-linked and no other ordering appears' as a statement about "
                    "transitive closures over all DAGs"]
    rep.trusted = ["T8 set algebra"]
    graphrules.surgery(ctx, rep, "R18.1", "R18.2", "R18.3")
    graphrules.queries(ctx, rep, "R18.q1", "R18.q2", "R18.q3", "R18.q4", "R18.q5", "R18.q6")
    from . import common
    common.relation_builder(ctx, rep, "R18.q2")
    p, r = ctx.prog, ctx.roles
    funcs = [p.supplier(r.sched, n) for n in ('bypass_and_remove', 'keep_only', 'keep_only_between', 'remove')] + \
        [p.supplier(r.jobbase, 'requires')]      # the surgery re-links through requires()
    common.job_truthiness(ctx, rep, "R18.4", funcs)
    common.job_iterability(ctx, rep, "R18.7", funcs)
    common.no_state_across_calls(ctx, rep, "R18.5", funcs)
    common.params_consumed_once(ctx, rep, "R18.6", [ctx.prog.supplier(ctx.roles.sched, n) for n in ("keep_only", "keep_only_between", "bypass_and_remove", "update")])
