"""
E3 (part) -- effect signatures of package functions, computed bottom-up over a
name-resolved call graph.  Used to decide which helpers are worth walking into
(a helper that only prints is skipped by the path analyses) and by the
non-interference rule (C06).
"""

import ast

from .index import walk_local, dotted

TASK_MAKERS = {'asyncio.create_task', 'asyncio.ensure_future', 'create_task', 'ensure_future'}


class Sig:
    __slots__ = ('stores', 'suspends', 'spawns', 'cancels', 'raises', 'yields', 'calls',
                 'awaits_user', 'reads')

    def __init__(self):
        self.stores = set()       # attribute names stored (x.a = ..., x.a op= ...)
        self.reads = set()        # attribute names read
        self.suspends = False
        self.spawns = False
        self.cancels = False
        self.raises = False
        self.yields = False
        self.awaits_user = False
        self.calls = set()        # qualnames of package callees (name-resolved)

    def merge(self, o):
        ch = False
        for a in ('stores', 'reads'):
            s, t = getattr(self, a), getattr(o, a)
            if not t <= s:
                s |= t
                ch = True
        for a in ('suspends', 'spawns', 'cancels', 'raises', 'awaits_user'):
            if getattr(o, a) and not getattr(self, a):
                setattr(self, a, True)
                ch = True
        return ch


def callees_by_name(prog, func, call):
    """package functions a call node may reach (class-hierarchy analysis by name)"""
    f = call.func
    out = []
    if isinstance(f, ast.Attribute):
        m = f.attr
        base = f.value
        if isinstance(base, ast.Name) and base.id in prog.classes:
            s = prog.supplier(base.id, m)
            return [s] if s else []
        if isinstance(base, ast.Name) and base.id == 'self' and func.cls is not None:
            c = prog.dispatch_set(func.cls, m)
            if c:
                return c
        if isinstance(base, ast.Call) and dotted(base.func) == 'super' and func.cls is not None:
            for c in func.cls.mro[1:]:
                if m in c.methods:
                    return [c.methods[m]]
        for c in prog.classes.values():
            s = prog.supplier(c, m)
            if s is not None and s not in out:
                out.append(s)
        return out
    if isinstance(f, ast.Name):
        g = func
        while g is not None:
            if f.id in g.nested:
                return [g.nested[f.id]]
            g = g.parent
        if f.id in func.module.functions:
            return [func.module.functions[f.id]]
        if f.id in prog.classes:
            s = prog.supplier(f.id, '__init__')
            return [s] if s else []
    return []


def compute(prog):
    sigs = {}
    for fn in prog.all_functions():
        s = Sig()
        # the effects of the lambdas a function defines count as its own (they run on its behalf:
        # reduce(lambda ...), sorted(key=lambda ...), filter(lambda ...))
        nodes = list(walk_local(fn.node))
        for lam in [x for x in ast.walk(fn.node) if isinstance(x, ast.Lambda)]:
            nodes += [x for x in ast.walk(lam.body) if not isinstance(x, (ast.Yield, ast.YieldFrom))]
        for n in nodes:
            if isinstance(n, ast.Attribute):
                if isinstance(n.ctx, ast.Store):
                    s.stores.add(n.attr)
                else:
                    s.reads.add(n.attr)
            elif isinstance(n, (ast.Yield, ast.YieldFrom)):
                s.yields = True
            elif isinstance(n, ast.Raise):
                s.raises = True
            elif isinstance(n, ast.Call):
                d = dotted(n.func)
                if d in TASK_MAKERS:
                    s.spawns = True
                if isinstance(n.func, ast.Attribute) and n.func.attr == 'cancel':
                    s.cancels = True
                if isinstance(n.func, ast.Attribute) and n.func.attr in (
                        'add', 'remove', 'update', 'discard', 'clear', 'append', 'extend'):
                    # mutation of the collection held in an attribute: x.attr.add(..)
                    b = n.func.value
                    if isinstance(b, ast.Attribute):
                        s.stores.add(b.attr)
                for c in callees_by_name(prog, fn, n):
                    s.calls.add(c.qualname)
            elif isinstance(n, ast.Await):
                e = n.value
                if not isinstance(e, ast.Call):
                    s.suspends = True
                    s.awaits_user = True
                else:
                    d = dotted(e.func) or ''
                    if d.startswith('asyncio.'):
                        s.suspends = True
                    elif isinstance(e.func, ast.Attribute) and e.func.attr in ('put', 'get', 'join'):
                        s.suspends = True
                    elif isinstance(e.func, ast.Attribute) and e.func.attr in ('co_run', 'co_shutdown') \
                            and not (isinstance(e.func.value, ast.Name) and e.func.value.id in ('self',) + tuple(prog.classes)):
                        s.suspends = True
                        s.awaits_user = True
        sigs[fn.qualname] = s
    changed = True
    while changed:
        changed = False
        for q, s in sigs.items():
            for c in list(s.calls):
                if c in sigs and c != q:
                    if s.merge(sigs[c]):
                        changed = True
    return sigs
