"""
E2/E4 -- structured, path-sensitive abstract interpreter.

Instead of materialising a CFG and then exploring the product
(node x automaton state x valuation), the interpreter walks the syntax tree of a
function and propagates *sets of abstract states* through it.  Every construct
the package uses is handled (if/for/while/try-except-finally/with/return/raise/
break/continue, comprehensions as implicit loops, nested defs as closures,
yield as an event).  Exceptional control flow is explicit: an `await` that may
suspend forks a `Cancelled` outcome, an await of user code forks `BodyExc`, a
`raise` produces `Raise(T)`; outcomes bubble through handlers and `finally`
blocks exactly as Python routes them.

An abstract state is (values of locals as provenance terms, path facts,
rule-automaton data).  The space is finite (terms are widened), loops run to a
fixpoint over state sets, flag loops are summarised into forall/exists facts
(E5 fold summaries).  Each state keeps the first path that reached it, so a
violation prints a witness path.

Nothing is executed: calls are either kept symbolic, or their *bodies are
walked* in a callee frame (bounded inlining) so that helper extraction or
inlining does not change what the rules see.
"""

import ast
import os
import time

from . import terms as T
from .index import AnalysisError, dotted, walk_local

MAX_STATES = 6000
TIME_BUDGET = int(os.environ.get('VERIF_TIME_BUDGET', '75'))     # seconds per exploration

EXC_TABLE = {
    # name -> ancestors (builtin hierarchy fragments the package can meet)
    'BaseException': [],
    'Exception': ['BaseException'],
    'CancelledError': ['BaseException'],
    'asyncio.CancelledError': ['BaseException'],
    'KeyboardInterrupt': ['BaseException'],
    'GeneratorExit': ['BaseException'],
    'ValueError': ['Exception', 'BaseException'],
    'KeyError': ['LookupError', 'Exception', 'BaseException'],
    'IndexError': ['LookupError', 'Exception', 'BaseException'],
    'LookupError': ['Exception', 'BaseException'],
    'TypeError': ['Exception', 'BaseException'],
    'RuntimeError': ['Exception', 'BaseException'],
    'TimeoutError': ['OSError', 'Exception', 'BaseException'],
    'asyncio.TimeoutError': ['Exception', 'BaseException'],
    'OSError': ['Exception', 'BaseException'],
    'ImportError': ['Exception', 'BaseException'],
    'AttributeError': ['Exception', 'BaseException'],
    'UnicodeEncodeError': ['ValueError', 'Exception', 'BaseException'],
    'StopIteration': ['Exception', 'BaseException'],
    'AssertionError': ['Exception', 'BaseException'],
    'NotImplementedError': ['RuntimeError', 'Exception', 'BaseException'],
}

ADDERS = {'add', 'append'}
EXTENDERS = {'update', 'extend'}
SCRAMBLERS = {'remove', 'discard', 'clear', 'pop', 'difference_update',
              'intersection_update', 'symmetric_difference_update', 'insert',
              'sort', 'reverse', 'popitem', 'setdefault'}
EMPTY = T.mk(('union', frozenset()))


HEAP = ('heap',)        # pseudo frame of the attributes of fresh objects: vars[(HEAP, (object term, attribute))]


class St:
    """immutable abstract state"""
    __slots__ = ('vars', 'facts', 'auto', 'trace', '_key')

    def __init__(self, vars=None, facts=None, auto=None, trace=()):
        self.vars = vars or {}
        self.facts = facts or {}
        self.auto = auto or {}
        self.trace = trace
        self._key = None

    def key(self):
        if self._key is None:
            self._key = (frozenset(self.vars.items()),
                         frozenset(self.facts.items()),
                         frozenset(self.auto.items()))
        return self._key

    def _new(self, vars=None, facts=None, auto=None, trace=None):
        return St(self.vars if vars is None else vars,
                  self.facts if facts is None else facts,
                  self.auto if auto is None else auto,
                  self.trace if trace is None else trace)

    # --- variables
    def var(self, fid, name, default=None):
        return self.vars.get(T.mk((fid, name)), default)

    def with_var(self, fid, name, term):
        v = dict(self.vars)
        v[T.mk((fid, name))] = T.cap(term, name)
        return self._new(vars=v)

    def drop_frame(self, fid):
        v = {k: x for k, x in self.vars.items() if k[0] != fid}
        return self._new(vars=v)

    # --- rule automaton
    def a(self, k, default=None):
        return self.auto.get(k, default)

    def set(self, **kw):
        a = dict(self.auto)
        a.update(kw)
        return self._new(auto=a)

    # --- facts
    def known(self, term):
        return truth(term, self)

    def assume(self, term, val):
        """returns the refined state, or None if `term == val` contradicts a fact"""
        while isinstance(term, tuple) and term[:2] == ('unop', 'not'):
            term, val = term[2], not val
        n = _len_test(term)
        if n is not None:
            # len(x) == 0, len(x) > 0 ... speak about the emptiness of x
            term, val = n[0], (val if n[1] else not val)
        if isinstance(term, tuple) and term[0] == 'call' and term[1] == 'bool' and len(term[2]) == 1 and not term[3]:
            # bool(x) is true exactly when x is
            return self.assume(term[2][0], val)
        cur = truth(term, self)
        if cur is not None:
            return self if cur == val else None
        term = T.mk(term)
        f = dict(self.facts)
        f[term] = val
        st = self._new(facts=f)
        # a compound fact recorded earlier may now be contradicted by its parts
        for k, v in self.facts.items():
            if k[0] == 'boolop':
                parts = [truth(x, st) for x in k[2]]
                if k[1] == 'and':
                    r = False if any(p is False for p in parts) else (True if all(p is True for p in parts) else None)
                else:
                    r = True if any(p is True for p in parts) else (False if all(p is False for p in parts) else None)
                if r is not None and r != v:
                    return None
        # unit propagation: `a and b` known false with a known true leaves b false (and dually for `or`)
        for k, v in list(st.facts.items()):
            if k[0] == 'boolop' and ((k[1] == 'and' and v is False) or (k[1] == 'or' and v is True)):
                want = (k[1] == 'and')
                unknown = [x for x in k[2] if truth(x, st) is None]
                if len(unknown) == 1 and all(truth(x, st) is want for x in k[2] if x is not unknown[0]):
                    st2 = st.assume(unknown[0], not want)
                    if st2 is None:
                        return None
                    st = st2
        # the emptiness of a filtered collection speaks about all its candidates:
        #   not [x for x in S if c(x)]   <=>   for all x in S: not c(x)
        if term[0] == 'comp' and len(term) == 4 and len(term[3]) == 1 and term[3][0][2] \
                and term[2] == ('elem', term[3][0][1], term[3][0][0]):
            key, it, conds = term[3][0]
            lits = []
            for c in conds:
                pol = True
                while c[0] == 'unop' and c[1] == 'not':
                    c, pol = c[2], not pol
                lits.append((T.mk(c), pol))
            if val is False:
                d = ('forall', it, key, frozenset(frozenset({(c, not pol)}) for c, pol in lits))
            else:
                d = ('exists', it, key, frozenset({frozenset(lits)}))
            f2 = dict(st.facts)
            f2[T.mk(d)] = True
            st = st._new(facts=f2)
        # any(c(x) for x in S if p(x)) / all(...): the quantified statement it is, over the collection the
        # comprehension ranges over (a comprehension over a filtering comprehension is flattened first)
        if term[0] == 'call' and term[1] in ('any', 'all') and len(term[2]) == 1 and not term[3] \
                and isinstance(term[2][0], tuple) and term[2][0] and term[2][0][0] == 'comp':
            comp = T.flatten_comp(term[2][0])
            # (only over a collection that is not itself reached from the element of a loop: a statement about the
            # requirements of *this* candidate is already carried by the `all(...)` fact, and one more fact per
            # candidate multiplies the states of the loop around it)
            if len(comp) == 4 and len(comp[3]) == 1 and not any(x[0] == 'elem' for x in T.subterms(comp[3][0][1])):
                key, it, conds = comp[3][0]

                def lit(c, pol=True):
                    while c[0] == 'unop' and c[1] == 'not':
                        c, pol = c[2], not pol
                    return (T.mk(c), pol)
                cl = [lit(c) for c in conds]
                el = lit(comp[2])
                d = None
                if term[1] == 'any':
                    if val:
                        d = ('exists', it, key, frozenset({frozenset(cl + [el])}))
                    else:
                        d = ('forall', it, key, frozenset([frozenset({(c, not pol)}) for c, pol in cl] +
                                                          [frozenset({(el[0], not el[1])})]))
                else:
                    if val:
                        d = ('forall', it, key, frozenset([frozenset({(c, not pol)}) for c, pol in cl] +
                                                          [frozenset({el})]))
                    else:
                        d = ('exists', it, key, frozenset({frozenset(cl + [(el[0], not el[1])])}))
                if d is not None and T.mk(d)._d <= T.MAX_DEPTH:
                    f2 = dict(st.facts)
                    f2[T.mk(d)] = True
                    st = st._new(facts=f2)
        # decompose conjunctions / disjunctions that are now decided
        if term[0] == 'boolop':
            if term[1] == 'and' and val:
                for x in term[2]:
                    st = st.assume(x, True)
                    if st is None:
                        return None
            if term[1] == 'or' and not val:
                for x in term[2]:
                    st = st.assume(x, False)
                    if st is None:
                        return None
        return st

    def forget(self, pred):
        f = {k: v for k, v in self.facts.items() if not T.mentions(k, pred)}
        # the conditions under which an element was put in a local collection (`when` items) are facts of that
        # moment: what is forgotten as a fact is forgotten there too
        v = None
        for k, t in self.vars.items():
            if t[0] != 'union':
                continue
            items = None
            for it in t[1]:
                if it[0] == 'when' and it[1] and it[3][0] == 'single':
                    keep = frozenset((c, val) for c, val in it[1]
                                     if not (T.mentions(c, pred) and not T.mentions(it[3], pred)))
                    if len(keep) != len(it[1]):
                        if items is None:
                            items = set(t[1])
                        items.discard(it)
                        items.add(T.mk(('when', keep, it[2], it[3])))
            if items is not None:
                if v is None:
                    v = dict(self.vars)
                v[k] = T.mk(('union', frozenset(items)))
        if len(f) == len(self.facts) and v is None:
            return self
        return self._new(facts=f, vars=v) if v is not None else self._new(facts=f)

    def note(self, line, msg):
        tr = self.trace
        if len(tr) > 80:
            tr = tr[:20] + (("...", "…"),) + tr[-50:]
        return self._new(trace=tr + ((line, msg),))


def truth(term, st):
    """three-valued truthiness of a term in a state"""
    if not isinstance(term, tuple) or not term:
        return None
    k = term[0]
    if k == 'const':
        return bool(term[1])
    if k == 'pos':
        return True
    if st is not None and term in st.facts:
        return st.facts[term]
    if k == 'cmp' and st is not None:
        n = _len_test(term)
        if n is not None:
            v = truth(n[0], st)
            if v is not None:
                return v if n[1] else (not v)
    if k == 'unop' and term[1] == 'not':
        v = truth(term[2], st)
        return None if v is None else (not v)
    if k in ('coro', 'closure', 'func', 'class', 'mod', 'builtin', 'task'):
        return True
    if k == 'call' and term[1] == 'bool' and len(term[2]) == 1 and not term[3]:
        return truth(term[2][0], st)
    if k == 'union':
        if not term[1]:
            return False
        if any(isinstance(x, tuple) and x and x[0] == 'single' for x in term[1]):
            return True
        return None
    if k in ('tuple', 'list', 'set'):
        return bool(term[1])
    if k == 'call' and term[1] in ('set', 'list', 'tuple', 'frozenset', 'sorted', 'BestSet') \
            and len(term[2]) == 1 and not term[3]:
        # a copy / conversion of a collection is empty exactly when the collection is
        return truth(term[2][0], st)
    if k == 'cmp':
        op, l, r = term[1], term[2], term[3]
        if op in ('is', 'is not'):
            v = _identical(l, r)
            if v is None:
                return None
            return v if op == 'is' else (not v)
        if (l[0] == 'pos' and r == ('const', 0)) or (r[0] == 'pos' and l == ('const', 0)):
            # a counter that has been incremented at least once, compared with zero
            if l[0] != 'pos':
                op = {'<': '>', '>': '<', '<=': '>=', '>=': '<='}.get(op, op)
            return {'==': False, '!=': True, '>': True, '>=': True, '<': False, '<=': False}.get(op)
        if op in ('==', '!=') and l[0] == 'const' and r[0] == 'const':
            v = (l[1] == r[1])
            return v if op == '==' else (not v)
        if op in ('<', '<=', '>', '>=') and l[0] == 'const' and r[0] == 'const':
            try:
                return {'<': l[1] < r[1], '<=': l[1] <= r[1],
                        '>': l[1] > r[1], '>=': l[1] >= r[1]}[op]
            except TypeError:
                return None
        return None
    if k == 'boolop':
        vals = [truth(x, st) for x in term[2]]
        if term[1] == 'and':
            if any(v is False for v in vals):
                return False
            if all(v is True for v in vals):
                return True
        else:
            if any(v is True for v in vals):
                return True
            if all(v is False for v in vals):
                return False
        return None
    return None


def _len_test(term):
    """(x, polarity) when term is a comparison of len(x) with 0 / 1 that means
    `x is non-empty` (polarity True) or `x is empty` (polarity False)"""
    if not (isinstance(term, tuple) and len(term) == 4 and term[0] == 'cmp'):
        return None
    op, l, r = term[1], term[2], term[3]
    flip = {'<': '>', '>': '<', '<=': '>=', '>=': '<=', '==': '==', '!=': '!='}
    if l[0] == 'const' and r[0] in ('call', 'acc'):
        l, r, op = r, l, flip.get(op)
    if l[0] == 'acc' and l[1] == ('const', 0) and len(l[2]) == 1:
        # n = 0; for x in S: if c(x): n += 1  -- n is len([x for x in S if c(x)])
        l = tuple(l[2])[0]
    if not (l[0] == 'call' and l[1] == 'len' and len(l[2]) == 1 and r[0] == 'const'
            and isinstance(r[1], int) and not isinstance(r[1], bool)):
        return None
    x, c = l[2][0], r[1]
    if (op, c) in (('==', 0), ('<', 1), ('<=', 0)):
        return x, False
    if (op, c) in (('!=', 0), ('>', 0), ('>=', 1)):
        return x, True
    return None


NOT_NONE_KINDS = {'exc', 'exctype', 'new', 'coro', 'closure', 'func', 'class', 'mod', 'pos', 'tuple',
                  'list', 'set', 'comp', 'union', 'fmt', 'task', 'builtin'}


def _identical(l, r):
    if l[0] == 'const' and r[0] == 'const':
        if l[1] is None or r[1] is None or isinstance(l[1], bool) or isinstance(r[1], bool):
            return l[1] is r[1]
        return None
    for a, b in ((l, r), (r, l)):
        if b[0] == 'const' and b[1] is None and a[0] in NOT_NONE_KINDS:
            return False
        if b[0] == 'const' and isinstance(b[1], bool) and a[0] in NOT_NONE_KINDS:
            return False
    return None


class Out:
    """outcomes of executing a piece of code from a set of states"""
    __slots__ = ('nxt', 'brk', 'cont', 'ret', 'exc')

    def __init__(self):
        self.nxt = []      # [St]
        self.brk = []      # [St]
        self.cont = []     # [St]
        self.ret = []      # [(St, term, node)]
        self.exc = []      # [(St, kind, node)]

    def absorb(self, o, nxt=False):
        if nxt:
            self.nxt += o.nxt
        self.brk += o.brk
        self.cont += o.cont
        self.ret += o.ret
        self.exc += o.exc


def dedup(states):
    seen = set()
    out = []
    for s in states:
        k = s.key()
        if k not in seen:
            seen.add(k)
            out.append(s)
    return out


class Frame:
    __slots__ = ('fid', 'func', 'depth', 'self_term', 'stack', 'parent')

    def __init__(self, fid, func, depth, self_term, stack, parent=None):
        self.fid = fid
        self.func = func
        self.depth = depth
        self.self_term = self_term
        self.stack = stack
        self.parent = parent


class LoopCtx:
    __slots__ = ('kind', 'node', 'iter', 'elem', 'key', 'conds', 'target', 'base', 'zero_iterations')

    def __init__(self, kind, node, it, elem, key, target=None):
        self.kind = kind
        self.node = node
        self.iter = it
        self.elem = elem
        self.key = key
        self.conds = []
        self.target = target
        self.base = None
        self.zero_iterations = False


class Analysis:
    """base class of rule analyses: hooks called by the interpreter.
    Every hook may return None for the default behaviour."""

    drop_callee_facts = False # forget what was learned inside an inlined helper when it returns
    lambda_values = True      # a lambda is a value that can be called later (else: unknown)
    loop_fission = True       # read a loop of independent statements as one loop per statement
    gen_cancel = False        # fork a Cancelled outcome at may-suspend awaits
    gen_bodyexc = False       # fork a BodyExc outcome at awaits of user code
    max_inline = 8

    def want_inline(self, ip, func, fr):
        n = func.name
        if func.parent is not None:
            return True
        if func.cls is not None and func.cls.name.startswith('_') and not func.is_async \
                and not (n.startswith('__') and n.endswith('__')):
            return True         # methods of a small helper class private to the package
        return n.startswith('_') and not (n.startswith('__') and n.endswith('__'))

    def on_call(self, ip, node, fterm, args, kwargs, st, fr):
        return None

    def on_await(self, ip, node, term, st, fr):
        return None

    def on_store_attr(self, ip, node, obj, attr, val, st, fr, aug=None):
        return None

    def on_store_name(self, ip, node, name, val, st, fr):
        return None

    def on_store_sub(self, ip, node, obj, idx, val, st, fr):
        return None

    def on_branch(self, ip, node, term, val, st, fr):
        return st

    def on_loop(self, ip, node, it, st, fr):
        return None

    def on_iter(self, ip, ctx, st, fr):
        return st

    def on_loop_exit(self, ip, ctx, st, fr):
        return st

    def on_yield(self, ip, node, val, st, fr):
        return st

    def on_return(self, ip, node, val, st, fr):
        """the analysed function returns (after its finally blocks ran)"""
        return st

    def on_return_stmt(self, ip, node, val, st, fr):
        """a `return` statement of the analysed function is executed"""
        return st

    def on_raise(self, ip, node, kind, st, fr):
        return st

    def on_attr(self, ip, node, base, attr, st, fr):
        return None

    def on_name(self, ip, node, name, st, fr):
        return None

    def on_except(self, ip, handler, kind, st, fr):
        return st

    def keep_fact(self, ip, func, term):
        return False

    def on_suspend(self, ip, node, term, st, fr):
        return st

    def iter_may_raise(self, ip, it):
        return False

    def on_while_head(self, ip, ctx, st, fr):
        """a while loop is about to evaluate its test (first entry and every later iteration)"""
        return st

    def on_back_edge(self, ip, st):
        return st

    def want_inline_gen(self, ip, func, fr):
        """`yield from <package generator>`: walk the generator's body (delegation)"""
        return True

    # classification of opaque awaits ------------------------------------
    def suspends(self, ip, term):
        return ip.term_may_suspend(term)

    def user_code(self, ip, term):
        return ip.term_is_user_code(term)


SUSPENDING_EXTERNALS = {'asyncio.wait', 'asyncio.gather', 'asyncio.sleep',
                        'asyncio.wait_for', 'asyncio.shield', 'asyncio.as_completed'}
SUSPENDING_METHODS = {'put', 'get', 'join', 'acquire', 'wait'}
USER_COROUTINES = {'co_run', 'co_shutdown'}


class Interp:
    def __init__(self, prog, analysis):
        self.prog = prog
        self.an = analysis
        self.loopctx = []
        self.in_summary = 0
        self.handling = []
        self.nstates = 0
        self.t0 = time.time()
        self.calls_seen = 0
        self.inlined = set()
        self.frames = []
        self._suspend_cache = {}

    # ================================================================= API
    def run(self, func, bindings=None, st=None, self_term=T.SELF, self_cls=None):
        """interpret `func` as the root; returns Out"""
        self.root_cls = self_cls
        st = st or St()
        fid = T.mk(())
        fr = Frame(fid, func, 0, self_term if func.cls is not None and not func.is_static
                   else None, (func.qualname,))
        names = list(func.params) + list(func.kwonly)
        defaults = func.defaults()
        for i, p in enumerate(names):
            if bindings and p in bindings:
                t = bindings[p]
            elif i == 0 and fr.self_term is not None and p in func.params:
                t = fr.self_term
            else:
                t = ('var', p)
            st = st.with_var(fid, p, t)
        if func.vararg:
            st = st.with_var(fid, func.vararg, (bindings or {}).get(func.vararg, ('var', func.vararg)))
        if func.kwarg:
            st = st.with_var(fid, func.kwarg, (bindings or {}).get(func.kwarg, ('var', func.kwarg)))
        self.root = fr
        out = self.exec_block(func.node.body, [st], fr)
        # the function really returns only once the enclosing `finally` blocks have run
        final = []
        for (x, t, node) in out.ret:
            y = self.an.on_return(self, node, t, x, fr)
            if y is not None:
                final.append((y, t, node))
        out.ret = final
        return out

    def where(self, node, fr=None):
        f = (fr or self.root).func
        return "%s:%d" % (f.module.relpath, getattr(node, 'lineno', f.node.lineno))

    # ====================================================== classification
    def func_may_suspend(self, func, stack=()):
        if func.qualname in self._suspend_cache:
            return self._suspend_cache[func.qualname]
        if func.qualname in stack:
            return False
        res = False
        from .index import walk_local
        for n in walk_local(func.node):
            if isinstance(n, ast.Await):
                if self._await_may_suspend(n.value, func, stack + (func.qualname,)):
                    res = True
                    break
            elif isinstance(n, (ast.AsyncFor, ast.AsyncWith)):
                res = True
                break
        self._suspend_cache[func.qualname] = res
        return res

    def _await_may_suspend(self, e, func, stack):
        if not isinstance(e, ast.Call):
            return True                      # opaque awaitable (self.corun ...)
        d = dotted(e.func)
        if d in SUSPENDING_EXTERNALS:
            return True
        if isinstance(e.func, ast.Attribute):
            m = e.func.attr
            base = e.func.value
            if m in USER_COROUTINES and not (isinstance(base, ast.Name) and base.id in self.prog.classes):
                if isinstance(base, ast.Name) and base.id == 'self' and func.cls is not None:
                    cands = self.prog.dispatch_set(func.cls, m)
                    return any(self.func_may_suspend(c, stack) for c in cands) or True
                return True
            if isinstance(base, ast.Name) and base.id == 'self' and func.cls is not None:
                cands = self.prog.dispatch_set(func.cls, m)
                if cands:
                    return any(self.func_may_suspend(c, stack) for c in cands)
            if isinstance(base, ast.Name) and base.id in self.prog.classes:
                c = self.prog.supplier(base.id, m)
                if c is not None:
                    return self.func_may_suspend(c, stack)
            if m in SUSPENDING_METHODS:
                return True
            cands = [self.prog.supplier(c, m) for c in self.prog.classes.values()]
            cands = [c for c in cands if c is not None]
            if cands:
                return any(self.func_may_suspend(c, stack) for c in cands)
            return True
        if isinstance(e.func, ast.Name):
            f = func
            while f is not None:
                if e.func.id in f.nested:
                    return self.func_may_suspend(f.nested[e.func.id], stack)
                f = f.parent
            mf = func.module.functions.get(e.func.id)
            if mf is not None:
                return self.func_may_suspend(mf, stack)
        return True

    def term_may_suspend(self, term):
        if term[0] == 'awaited':
            term = term[1]
        k = term[0]
        if k == 'call':
            return term[1] in SUSPENDING_EXTERNALS or not term[1].startswith(('len', 'print'))
        if k == 'coro':
            f = self.prog.funcs.get(term[1])
            return True if f is None else self.func_may_suspend(f)
        if k == 'mcall':
            m = term[2]
            if m in USER_COROUTINES:
                return True
            cands = [self.prog.supplier(c, m) for c in self.prog.classes.values()]
            cands = [c for c in cands if c is not None and c.is_async]
            if cands:
                return any(self.func_may_suspend(c) for c in cands)
            return True
        return True

    def term_is_user_code(self, term):
        if term[0] == 'awaited':
            term = term[1]
        k = term[0]
        if k == 'mcall' and term[2] in USER_COROUTINES:
            return True
        if k == 'coro':
            f = self.prog.funcs.get(term[1])
            return f is not None and f.name in USER_COROUTINES
        if k in ('attr', 'var', 'unk', 'elem', 'sub', 'item'):
            return True                 # awaiting a stored awaitable (self.corun)
        return False

    # ============================================================== blocks
    def exec_block(self, stmts, states, fr):
        out = Out()
        cur = dedup(states)
        for s in stmts:
            if not cur:
                break
            nxt = []
            for st in cur:
                o = self.exec_stmt(s, st, fr)
                out.absorb(o)
                nxt += o.nxt
            cur = dedup(nxt)
            self.nstates += len(cur)
            if self.nstates > 400000:
                raise AnalysisError("state explosion in %s" % fr.func.qualname)
            if (self.nstates & 1023) < len(cur) and time.time() - self.t0 > TIME_BUDGET:
                raise AnalysisError("state explosion in %s (exploration over its time budget of %d s)"
                                    % (fr.func.qualname, TIME_BUDGET))
        out.nxt = cur
        if len(out.ret) > 1:
            seen = set()
            keep = []
            for r in out.ret:
                k = (r[0].key(), r[1], id(r[2]))
                if k not in seen:
                    seen.add(k)
                    keep.append(r)
            out.ret = keep
        if len(out.exc) > 1:
            seen = set()
            keep = []
            for r in out.exc:
                k = (r[0].key(), r[1], id(r[2]))
                if k not in seen:
                    seen.add(k)
                    keep.append(r)
            out.exc = keep
        out.brk = dedup(out.brk)
        out.cont = dedup(out.cont)
        return out

    def exec_stmt(self, s, st, fr):
        m = getattr(self, 'x_' + type(s).__name__, None)
        if m is None:
            raise AnalysisError("statement kind %s not handled (%s)"
                                % (type(s).__name__, self.where(s, fr)))
        return m(s, st, fr)

    # ---------------------------------------------------------- statements
    def x_Pass(self, s, st, fr):
        o = Out()
        o.nxt = [st]
        return o

    x_Global = x_Nonlocal = x_Pass

    def x_Match(self, s, st, fr):
        from .desugar import match_as_ifs, Unsupported
        try:
            stmts = match_as_ifs(s)
        except Unsupported as e:
            raise AnalysisError("match statement at %s outside the supported fragment (%s)" % (self.where(s, fr), e))
        return self.exec_block(stmts, [st], fr)

    def x_Import(self, s, st, fr):
        o = Out()
        for a in s.names:
            nm = a.asname or a.name.split('.')[0]
            st = st.with_var(fr.fid, nm, ('mod', a.name if a.asname else a.name.split('.')[0]))
        o.nxt = [st]
        return o

    def x_ImportFrom(self, s, st, fr):
        o = Out()
        for a in s.names:
            nm = a.asname or a.name
            if a.name in self.prog.classes:
                t = ('class', a.name)
            else:
                t = ('mod', ((s.module + '.') if s.module else '') + a.name)
            st = st.with_var(fr.fid, nm, t)
        o.nxt = [st]
        return o

    def x_Delete(self, s, st, fr):
        o = Out()
        o.nxt = [st]
        return o

    def x_Assert(self, s, st, fr):
        o = Out()
        o.nxt = [x for x, _ in self.eval(s.test, st, fr, o)]
        return o

    def x_Expr(self, s, st, fr):
        o = Out()
        if isinstance(s.value, ast.Constant):
            o.nxt = [st]
            return o
        o.nxt = [x for x, _ in self.eval(s.value, st, fr, o)]
        return o

    def x_FunctionDef(self, s, st, fr):
        o = Out()
        f = fr.func.nested.get(s.name)
        if f is None:
            o.nxt = [st]
            return o
        free = {n.id for n in ast.walk(s) if isinstance(n, ast.Name)}
        binds = tuple(sorted((k[1], v) for k, v in st.vars.items()
                             if k[0] == fr.fid and k[1] in free and k[1] != s.name))
        o.nxt = [st.with_var(fr.fid, s.name, ('closure', f.qualname, binds))]
        return o

    x_AsyncFunctionDef = x_FunctionDef

    def x_ClassDef(self, s, st, fr):
        return self.x_Pass(s, st, fr)

    def _all_any_loop(self, s):
        """`return all(c(x) for x in S)` is `for x in S: if not c(x): return False` + `return True`
        (and dually for any); built once per statement"""
        cache = self.__dict__.setdefault('_aa_cache', {})
        if id(s) in cache:
            return cache[id(s)]
        v = s.value
        synth = None
        if isinstance(v, ast.Call) and isinstance(v.func, ast.Name) and v.func.id in ('all', 'any') \
                and len(v.args) == 1 and not v.keywords and isinstance(v.args[0], ast.GeneratorExp) \
                and not any(g.is_async for g in v.args[0].generators):
            ge = v.args[0]
            is_all = v.func.id == 'all'
            test = ast.UnaryOp(op=ast.Not(), operand=ge.elt) if is_all else ge.elt
            body = [ast.If(test=test, body=[ast.Return(value=ast.Constant(value=not is_all))], orelse=[])]
            for g in reversed(ge.generators):
                if g.ifs:
                    t2 = g.ifs[0] if len(g.ifs) == 1 else ast.BoolOp(op=ast.And(), values=list(g.ifs))
                    body = [ast.If(test=t2, body=body, orelse=[])]
                body = [ast.For(target=g.target, iter=g.iter, body=body, orelse=[])]
            synth = [body[0], ast.Return(value=ast.Constant(value=is_all))]
            for top in synth:
                for n in ast.walk(top):
                    if not hasattr(n, 'lineno'):
                        ast.copy_location(n, s)
                for n in ast.walk(top):
                    for c in ast.iter_child_nodes(n):
                        if isinstance(c, (ast.For, ast.If, ast.Return, ast.UnaryOp)) and not hasattr(c, '_parent'):
                            c._parent = n
                top._parent = getattr(s, '_parent', None)
                ast.fix_missing_locations(top)
        cache[id(s)] = synth
        return synth

    def x_Return(self, s, st, fr):
        if getattr(self.an, 'desugar_all_any', False) and s.value is not None:
            synth = self._all_any_loop(s)
            if synth is not None:
                return self.exec_block(synth, [st], fr)
        o = Out()
        if s.value is None:
            res = [(st, T.NONE)]
        else:
            res = self.eval(s.value, st, fr, o)
        for x, t in res:
            x = self.an.on_return_stmt(self, s, t, x, fr) if fr.depth == 0 else x
            if x is not None:
                o.ret.append((x, t, s))
        return o

    def x_Raise(self, s, st, fr):
        o = Out()
        if s.exc is None:
            kind = self.handling[-1] if self.handling else ('Other',)
            x = self.an.on_raise(self, s, kind, st, fr)
            if x is not None:
                o.exc.append((x, kind, s))
            return o
        for x, t in self.eval(s.exc, st, fr, o, raising=True):
            kind = self.exc_kind_of(t)
            x = self.an.on_raise(self, s, kind, x, fr)
            if x is not None:
                o.exc.append((x.note(self.where(s, fr), "raise " + T.show(t, 3)), kind, s))
        return o

    def exc_kind_of(self, t):
        if t[0] == 'call' and t[1] in EXC_TABLE:
            return ('Raise', t[1], t)
        if t[0] == 'call' and t[1].split('.')[-1] in EXC_TABLE:
            return ('Raise', t[1].split('.')[-1], t)
        if t[0] == 'builtin' and t[1] in EXC_TABLE:
            return ('Raise', t[1], t)
        if t[0] == 'exc':
            return t[1]
        return ('Raise', None, t)

    def x_Break(self, s, st, fr):
        o = Out()
        o.brk = [st]
        return o

    def x_Continue(self, s, st, fr):
        o = Out()
        o.cont = [st]
        return o

    def x_Assign(self, s, st, fr):
        o = Out()
        res = self.eval(s.value, st, fr, o)
        for x, t in res:
            sts = [x]
            for tgt in s.targets:
                nxt = []
                for y in sts:
                    nxt += self.assign(tgt, t, y, fr, o, s)
                sts = nxt
            o.nxt += sts
        return o

    def x_AnnAssign(self, s, st, fr):
        o = Out()
        if s.value is None:
            o.nxt = [st]
            return o
        for x, t in self.eval(s.value, st, fr, o):
            o.nxt += self.assign(s.target, t, x, fr, o, s)
        return o

    def x_AugAssign(self, s, st, fr):
        o = Out()
        opn = type(s.op).__name__
        tgt = s.target
        if isinstance(tgt, ast.Name):
            for x, v in self.eval(s.value, st, fr, o):
                cur = self.lookup(tgt.id, x, fr, tgt)
                new = self.aug(opn, cur, v, tgt.id)
                r = self.an.on_store_name(self, s, tgt.id, new, x, fr)
                if r is not None:
                    o.nxt += r if isinstance(r, list) else [r]
                else:
                    o.nxt.append(x.with_var(fr.fid, tgt.id, new))
        elif isinstance(tgt, ast.Attribute):
            for x, obj in self.eval(tgt.value, st, fr, o):
                for y, v in self.eval(s.value, x, fr, o):
                    new = ('binop', opn, ('attr', obj, tgt.attr), v)
                    cur = y.var(HEAP, (obj, tgt.attr)) if obj[0] == 'new' else None
                    if cur is not None:
                        # a counter (or collection) kept in a fresh helper object
                        new = self.aug(opn, cur, v, tgt.attr)
                        y = y.with_var(HEAP, (obj, tgt.attr), new)
                        r0 = self.an.on_store_name(self, s, tgt.attr, new, y, fr)
                        if r0 is not None and not isinstance(r0, list):
                            # (the hook files the counter under its name: a local variable of the same name - `done`
                            # next to `counts.done` - keeps its own value)
                            key = T.mk((fr.fid, tgt.attr))
                            local = y.vars.get(key)
                            y = r0.with_var(HEAP, (obj, tgt.attr), new)
                            if local is not None:
                                y = y.with_var(fr.fid, tgt.attr, local)
                            elif key in y.vars:
                                v = dict(y.vars)
                                del v[key]
                                y = y._new(vars=v)
                    r = self.an.on_store_attr(self, s, obj, tgt.attr, new, y, fr, aug=opn)
                    if r is None:
                        r = self.default_store_attr(obj, tgt.attr, y)
                    o.nxt += r if isinstance(r, list) else [r]
        else:
            for x, v in self.eval(s.value, st, fr, o):
                for y, _ in self.eval(tgt.value, x, fr, o):
                    o.nxt.append(y)
        return o

    def aug(self, opn, cur, v, name):
        if opn == 'Add':
            if cur[0] == 'const' and isinstance(cur[1], (int, float)) and not isinstance(cur[1], bool) \
                    and v[0] == 'const' and isinstance(v[1], (int, float)) and v[1] > 0 and cur[1] >= 0:
                return ('pos',)
            if cur[0] == 'pos' and (v[0] == 'pos' or (v[0] == 'const' and isinstance(v[1], (int, float)) and v[1] >= 0)):
                return ('pos',)
            if cur[0] == 'const' and isinstance(cur[1], (int, float)):
                return ('acc', cur, frozenset([v]))
            if cur[0] == 'acc':
                incs = cur[2] | frozenset([v])
                if len(incs) > 3:
                    return ('unk', name)
                return ('acc', cur[1], incs)
            if cur[0] == 'const' and isinstance(cur[1], str):
                return ('strcat', frozenset([cur, v]))
            if cur[0] == 'strcat':
                return ('strcat', cur[1] | frozenset([v]))
            if cur[0] in ('union', 'comp', 'list', 'tuple') or cur == EMPTY:
                return T.union(cur, v)
        if opn == 'Sub' and v == ('const', 1):
            # remaining = len(S); ...; remaining -= 1  -- a count-down from the size of a collection
            if cur[0] == 'call' and cur[1] == 'len' and len(cur[2]) == 1:
                return ('rem', cur)
            if cur[0] == 'rem':
                return cur
        if opn == 'BitOr' and (cur[0] in ('union', 'comp', 'set') or cur == EMPTY):
            return T.union(cur, v)
        return T.cap(('binop', opn, cur, v), name)

    def assign(self, tgt, t, st, fr, o, stmt):
        """returns list of states"""
        if isinstance(tgt, ast.Name):
            r = self.an.on_store_name(self, stmt, tgt.id, t, st, fr)
            if r is not None:
                return r if isinstance(r, list) else [r]
            return [st.with_var(fr.fid, tgt.id, t)]
        if isinstance(tgt, ast.Attribute):
            res = []
            for x, obj in self.eval(tgt.value, st, fr, o):
                r = self.an.on_store_attr(self, stmt, obj, tgt.attr, t, x, fr)
                if r is None:
                    r = self.default_store_attr(obj, tgt.attr, x)
                if obj[0] == 'new':
                    # remember what a fresh object holds
                    r = [y.with_var(HEAP, (obj, tgt.attr), t) for y in (r if isinstance(r, list) else [r])]
                res += r if isinstance(r, list) else [r]
            return res
        if isinstance(tgt, (ast.Tuple, ast.List)):
            items = None
            if t[0] in ('tuple', 'list') and len(t[1]) == len(tgt.elts):
                items = list(t[1])
            sts = [st]
            for i, e in enumerate(tgt.elts):
                if isinstance(e, ast.Starred):
                    e = e.value
                sub = items[i] if items is not None else ('item', t, i)
                nxt = []
                for x in sts:
                    nxt += self.assign(e, sub, x, fr, o, stmt)
                sts = nxt
            return sts
        if isinstance(tgt, ast.Subscript):
            res = []
            for x, obj in self.eval(tgt.value, st, fr, o):
                for y, idx in self.eval(tgt.slice, x, fr, o):
                    r = self.an.on_store_sub(self, stmt, obj, idx, t, y, fr)
                    if r is None:
                        # a store through a local name makes its term unknown-ish
                        if isinstance(tgt.value, ast.Name) and y.var(fr.fid, tgt.value.id) is not None:
                            r = y.with_var(fr.fid, tgt.value.id,
                                           T.cap(('updated', obj, idx, t), 'sub'))
                        else:
                            r = y
                    res += r if isinstance(r, list) else [r]
            return res
        if isinstance(tgt, ast.Starred):
            return self.assign(tgt.value, t, st, fr, o, stmt)
        raise AnalysisError("assignment target %s not handled" % type(tgt).__name__)

    def default_store_attr(self, obj, attr, st):
        return st.forget(store_invalidates(obj, attr))

    def x_If(self, s, st, fr):
        o = Out()
        for x, t in self.eval(s.test, st, fr, o):
            sides = []
            for val, body in ((True, s.body), (False, s.orelse)):
                y = self.branch(s.test, t, val, x, fr)
                if y is None:
                    continue
                added = [k for k in y.facts if k not in x.facts]
                if getattr(self.an, 'keep_type_facts', False):
                    # what an object *is* does not change: isinstance facts may survive the join
                    added = [k for k in added if not (k[0] == 'call' and k[1] == 'isinstance')]
                if not body:
                    sides.append((added, [y]))
                    continue
                r = self.exec_block(body, [y], fr)
                o.absorb(r)
                sides.append((added, r.nxt))
            if len(sides) == 2 and sides[0][1] and sides[1][1] and not self.in_summary:
                # join point reached from both sides: the facts contributed by
                # the test alone are dropped (sound: fewer facts, more paths);
                # correlations that matter are carried by constant-valued locals
                for added, lst in sides:
                    for y in lst:
                        if added:
                            f = {k: v for k, v in y.facts.items() if k not in added}
                            if getattr(self.an, 'note_quant_drop', False) and any(
                                    k[0] in ('forall', 'exists') and k in y.facts for k in added):
                                # a statement about every element of a collection (derived from the emptiness of a
                                # filtered list, from any() / all()) is forgotten here: a rule that later misses
                                # it can tell "never tested" from "tested, then joined away"
                                y = y.set(qdropped=True)
                            y = y._new(facts=f)
                        o.nxt.append(y)
            else:
                for _added, lst in sides:
                    o.nxt += lst
        o.nxt = dedup(o.nxt)
        return o

    def branch(self, node, t, val, st, fr):
        y = st.assume(t, val)
        if y is None:
            return None
        # the analyses see the tested value itself: `not`, `bool(...)` wrappers removed
        while isinstance(t, tuple) and ((t[:2] == ('unop', 'not')) or
                                        (t[0] == 'call' and t[1] == 'bool' and len(t[2]) == 1 and not t[3])):
            if t[0] == 'unop':
                t, val = t[2], not val
            else:
                t = t[2][0]
        # a local that holds the tested value now holds a known boolean (`ok = len(p) == 0; if not ok: ...`):
        # the fact itself may be dropped where the branches join, the variable keeps what was learnt
        if isinstance(t, tuple) and (t[0] == 'cmp' or (t[0] == 'call' and t[1] in (
                'all', 'any', 'bool', 'isinstance', 'issubclass', 'hasattr', 'callable'))):
            for k, tv in list(y.vars.items()):
                if k[0] == fr.fid and tv == t:
                    y = y.with_var(fr.fid, k[1], ('const', bool(val)))
        lt = _len_test(t) if isinstance(t, tuple) else None
        if lt is not None:
            # len(x) == 0, len(x) > 0 ...: a test of the emptiness of x
            t, val = lt[0], (val if lt[1] else not val)
        y = self.an.on_branch(self, node, t, val, y, fr)
        if y is None:
            return None
        if fr.depth == 0 or True:
            y = y.note(self.where(node, fr), "%s is %s" % (_short(node), val))
        return y

    def x_While(self, s, st, fr):
        o = Out()
        seen = set()
        work = [(st, None)]
        key = ('while', s.lineno, s.col_offset, fr.fid)
        ctx = LoopCtx('while', s, None, None, key)
        n = 0
        # `while flag:` / `while a < b:` -- what the body learnt about the test is used at the back edge, before the
        # facts of the iteration are dropped
        pure_test = not _has_effects(s.test)

        def leave(y):
            y = self.an.on_loop_exit(self, ctx, y, fr)
            if y is not None:
                y = self.drop_loop_locals(s, y, fr)
                if s.orelse:
                    r = self.exec_block(s.orelse, [y], fr)
                    o.absorb(r, nxt=True)
                else:
                    o.nxt.append(y)
        while work:
            cur, known = work.pop()
            k = (cur.key(), known)
            if k in seen:
                continue
            seen.add(k)
            n += 1
            if n > MAX_STATES:
                raise AnalysisError("state explosion in loop at %s" % self.where(s, fr))
            cur = self.an.on_while_head(self, ctx, cur, fr)
            for x, t in self.eval(s.test, cur, fr, o):
                if known is not True:
                    y = self.branch(s.test, t, False, x, fr)
                    if y is not None:
                        leave(y)
                y = self.branch(s.test, t, True, x, fr)
                if y is None:
                    continue
                y = self.an.on_iter(self, ctx, y, fr)
                if y is None:
                    continue
                self.loopctx.append(ctx)
                try:
                    r = self.exec_block(s.body, [y], fr)
                finally:
                    self.loopctx.pop()
                o.ret += r.ret
                o.exc += r.exc
                for y in r.brk:
                    y = self.an.on_loop_exit(self, ctx, y, fr)
                    if y is not None:
                        o.nxt.append(self.drop_loop_locals(s, y, fr))
                self.loopctx.append(ctx)
                try:
                    for y in r.nxt + r.cont:
                        tv = None
                        if pure_test:
                            scratch = Out()
                            vals = self.eval(s.test, y, fr, scratch)
                            if len(vals) == 1 and not scratch.exc:
                                tv = truth(vals[0][1], vals[0][0])
                        if tv is False:
                            # the test is known to fail: this path leaves the loop
                            self.loopctx.pop()
                            try:
                                z = self.branch(s.test, vals[0][1], False, vals[0][0], fr)
                                if z is not None:
                                    leave(z)
                            finally:
                                self.loopctx.append(ctx)
                            continue
                        work.append((self.an.on_back_edge(self, self.back_edge(st, cur, y)) or y,
                                     True if tv is True else None))
                finally:
                    self.loopctx.pop()
        o.nxt = dedup(o.nxt)
        return o

    def stale_elem(self, st, elem, s, fr):
        """when a loop rebinds (or leaves) its element, a local whose value was computed
        from the previous element no longer describes anything: make it unknown.
        Collections (unions) keep their per-element items: "for every element"."""
        v = None
        tnames = {n.id for n in ast.walk(s.target) if isinstance(n, ast.Name)}
        for k, t in st.vars.items():
            if k[0] == fr.fid and k[1] not in tnames and t == elem:
                # `previous = x` at the end of the body: at the next iteration it is the element before this one
                if v is None:
                    v = dict(st.vars)
                v[k] = T.mk(('prev', elem))
                continue
            if k[0] != fr.fid or k[1] in tnames or t[0] in ('union', 'acc', 'strcat', 'unk', 'elem', 'last', 'prev'):
                continue
            if T.contains(t, elem):
                if v is None:
                    v = dict(st.vars)
                v[k] = T.mk(('unk', k[1]))
        if v is None:
            return st
        return st._new(vars=v)

    def back_edge(self, entry, head, back):
        """state carried round a loop: locals born inside the body and facts
        learned inside it do not survive the iteration (sound: fewer facts mean
        more paths); growing terms are widened"""
        v = {k: t for k, t in back.vars.items() if k in entry.vars}
        f = {k: val for k, val in back.facts.items() if entry.facts.get(k) == val}
        if len(v) != len(back.vars) or len(f) != len(back.facts):
            back = back._new(vars=v, facts=f)
        return self.widen(head, back)

    def widen(self, head, back):
        """a local whose new value strictly contains its value at the loop head
        grows without bound: widen it to unknown"""
        v = None
        for k, new in back.vars.items():
            old = head.vars.get(k)
            if old is None or old == new or new[0] in ('union', 'acc', 'strcat', 'unk', 'rem'):
                continue
            if old[0] in ('var',) :
                continue
            if T.contains(new, old) and T.depth(new) > T.depth(old):
                if v is None:
                    v = dict(back.vars)
                v[k] = ('unk', k[1])
        if v is None:
            return back
        return back._new(vars=v)

    def _comp_loop(self, s, fr):
        """`edges = ((a, b) for x in X for a in f(x)); for a, b in edges: body` is the nest
        `for x in X: for a in f(x): (a, b) = ...; body`: built once per loop, when the name has exactly one
        definition in the function, a comprehension, and the body has no break / else"""
        cache = self.__dict__.setdefault('_cl_cache', {})
        if id(s) in cache:
            return cache[id(s)]
        synth = None
        if isinstance(s.iter, ast.Name) and not s.orelse and isinstance(s, ast.For) \
                and not any(isinstance(n, ast.Break) for b in s.body for n in ast.walk(b)):
            defs = [n for n in walk_local(fr.func.node) if isinstance(n, (ast.Assign, ast.AugAssign, ast.For, ast.AnnAssign))
                    and any(isinstance(t, ast.Name) and t.id == s.iter.id
                            for t in (n.targets if isinstance(n, ast.Assign) else [n.target])
                            for t in ast.walk(t))]
            if len(defs) == 1 and isinstance(defs[0], ast.Assign) and len(defs[0].targets) == 1 \
                    and isinstance(defs[0].value, (ast.GeneratorExp, ast.ListComp)) \
                    and len(defs[0].value.generators) >= (1 if isinstance(defs[0].value, ast.GeneratorExp) and (
                        getattr(self.an, 'desugar_all_any', False) or defs[0].value.generators[0].ifs) else 2) \
                    and defs[0].lineno < s.lineno \
                    and s.iter.id not in fr.func.params:
                v = defs[0].value
                body = [ast.Assign(targets=[s.target], value=v.elt)] + list(s.body)
                for g in reversed(v.generators):
                    if g.is_async:
                        body = None
                        break
                    if g.ifs:
                        test = g.ifs[0] if len(g.ifs) == 1 else ast.BoolOp(op=ast.And(), values=list(g.ifs))
                        body = [ast.If(test=test, body=body, orelse=[])]
                    body = [ast.For(target=g.target, iter=g.iter, body=body, orelse=[])]
                if body:
                    synth = body[0]
                    for n in ast.walk(synth):
                        if not hasattr(n, 'lineno'):
                            ast.copy_location(n, s)
                    for n in ast.walk(synth):
                        for c in ast.iter_child_nodes(n):
                            if isinstance(c, (ast.For, ast.If, ast.Assign)) and not (c in s.body):
                                c._parent = n
                    synth._parent = getattr(s, '_parent', None)
                    ast.fix_missing_locations(synth)
        cache[id(s)] = synth
        return synth

    def _for_else_flag(self, s):
        """`for x in S: if c(x): break` + `else: E` is the flag loop `b = False; for x in S: if c(x): b = True` followed
        by `if not b: E` (c is evaluated for the elements after the first hit too: it must have no effect, which
        holds for the tests the fold summaries accept); built once per loop"""
        cache = self.__dict__.setdefault('_fe_cache', {})
        if id(s) in cache:
            return cache[id(s)]
        synth = None
        body = [b for b in s.body if not (isinstance(b, ast.Expr) and isinstance(b.value, ast.Constant))
                and not isinstance(b, ast.Pass)]
        if s.orelse and isinstance(s, ast.For) and len(body) == 1 and isinstance(body[0], ast.If) and not body[0].orelse:
            inner = [b for b in body[0].body if not (isinstance(b, ast.Expr) and isinstance(b.value, ast.Constant))
                     and not isinstance(b, ast.Pass)]
            if len(inner) == 1 and isinstance(inner[0], ast.Break) and not _has_effects(body[0].test, allow_calls=True):
                flag = '_broke_%d_%d' % (s.lineno, s.col_offset)
                init = ast.Assign(targets=[ast.Name(id=flag, ctx=ast.Store())], value=ast.Constant(value=False))
                hit = ast.Assign(targets=[ast.Name(id=flag, ctx=ast.Store())], value=ast.Constant(value=True))
                loop = ast.For(target=s.target, iter=s.iter, orelse=[],
                               body=[ast.If(test=body[0].test, body=[hit], orelse=[])])
                after = ast.If(test=ast.UnaryOp(op=ast.Not(), operand=ast.Name(id=flag, ctx=ast.Load())),
                               body=list(s.orelse), orelse=[])
                synth = [init, loop, after]
                for top in synth:
                    for n in ast.walk(top):
                        if not hasattr(n, 'lineno'):
                            ast.copy_location(n, s)
                    for n in ast.walk(top):
                        for c in ast.iter_child_nodes(n):
                            if isinstance(c, (ast.For, ast.If, ast.Assign, ast.UnaryOp)) and not hasattr(c, '_parent'):
                                c._parent = n
                    top._parent = getattr(s, '_parent', None)
                    ast.fix_missing_locations(top)
                for b in s.orelse:
                    b._parent = after
        cache[id(s)] = synth
        return synth

    def _fission(self, s):
        """`for x in S: A; B; C` with A, B, C pairwise independent (none writes what another reads or writes, none
        leaves the loop) is `for x in S: A` then `for x in S: B` then `for x in S: C`: each of them is then a loop the
        fold summaries know (a reset of every element, a count, a filtered list); built once per loop"""
        cache = self.__dict__.setdefault('_fi_cache', {})
        if id(s) in cache:
            return cache[id(s)]
        synth = None
        body = [b for b in s.body if not (isinstance(b, ast.Expr) and isinstance(b.value, ast.Constant))
                and not isinstance(b, ast.Pass)]
        if isinstance(s, ast.For) and not s.orelse and len(body) >= 2 and isinstance(s.target, ast.Name) \
                and isinstance(s.iter, (ast.Name, ast.Attribute)) \
                and not any(isinstance(n, (ast.Break, ast.Continue, ast.Return, ast.Yield, ast.YieldFrom, ast.Await,
                                           ast.Raise, ast.Try, ast.With, ast.For, ast.While, ast.NamedExpr))
                            for b in body for n in ast.walk(b)):
            tgt = s.target.id

            def rw(b):
                R, W, opaque = set(), set(), False
                for n in ast.walk(b):
                    if isinstance(n, ast.Name):
                        if n.id == tgt:
                            continue
                        (W if isinstance(n.ctx, (ast.Store, ast.Del)) else R).add(n.id)
                    elif isinstance(n, ast.Attribute):
                        (W if isinstance(n.ctx, (ast.Store, ast.Del)) else R).add('.' + n.attr)
                    elif isinstance(n, ast.AugAssign) and isinstance(n.target, ast.Name):
                        R.add(n.target.id)
                    if isinstance(n, ast.Call):
                        f = n.func
                        if isinstance(f, ast.Attribute) and f.attr in ADDERS and isinstance(f.value, ast.Name) \
                                and f.value.id != tgt:
                            W.add(f.value.id)
                        elif isinstance(f, ast.Name) and f.id in ('len', 'isinstance', 'bool', 'int', 'str'):
                            pass
                        else:
                            opaque = True
                return R, W, opaque
            infos = [rw(b) for b in body]
            ok = not any(o for _r, _w, o in infos) and any(w for _r, w, _o in infos)
            iter_names = {n.id for n in ast.walk(s.iter) if isinstance(n, ast.Name)} | \
                {'.' + n.attr for n in ast.walk(s.iter) if isinstance(n, ast.Attribute)}
            for i, (r1, w1, _o) in enumerate(infos):
                if w1 & iter_names:
                    ok = False
                for j, (r2, w2, _o2) in enumerate(infos):
                    if i != j and (w1 & (r2 | w2)):
                        ok = False
            if ok:
                synth = []
                for b in body:
                    lp = ast.For(target=ast.Name(id=tgt, ctx=ast.Store()), iter=s.iter, body=[b], orelse=[])
                    ast.copy_location(lp, b)
                    ast.copy_location(lp.target, b)
                    lp._parent = getattr(s, '_parent', None)
                    lp._fissioned = s
                    synth.append(lp)
        cache[id(s)] = synth
        return synth

    def _enumerate_loop(self, s):
        """`for i, x in enumerate(X[, start]): body` is `for x in X: i = <some index>; body` (the index is a number
        nothing else depends on); `tuple(X)` / `list(X)` snapshots of X are iterated as X is.  Built once per loop"""
        cache = self.__dict__.setdefault('_en_cache', {})
        if id(s) in cache:
            return cache[id(s)]
        synth = None
        it = s.iter

        def snapshot_of(e):
            # `tuple(X)` / `list(X)`: the elements of X, in the order of X (the copy matters to what mutates X
            # meanwhile, not to what the loop sees)
            while isinstance(e, ast.Call) and isinstance(e.func, ast.Name) and e.func.id in ('list', 'tuple') \
                    and len(e.args) == 1 and not e.keywords and not isinstance(e.args[0], (ast.Starred, ast.GeneratorExp,
                                                                                        ast.ListComp, ast.SetComp)):
                e = e.args[0]
            return e
        if isinstance(s, ast.For) and isinstance(it, ast.Call) and isinstance(it.func, ast.Name) and it.func.id == 'enumerate' \
                and 1 <= len(it.args) <= 2 and all(k.arg == 'start' for k in it.keywords) \
                and isinstance(s.target, ast.Tuple) and len(s.target.elts) == 2 and isinstance(s.target.elts[0], ast.Name):
            idx = ast.Assign(targets=[ast.Name(id=s.target.elts[0].id, ctx=ast.Store())],
                             value=ast.Call(func=ast.Name(id='__enumerate_index__', ctx=ast.Load()), args=[], keywords=[]))
            synth = ast.For(target=s.target.elts[1], iter=snapshot_of(it.args[0]), body=[idx] + list(s.body),
                            orelse=list(s.orelse))
        elif isinstance(s, ast.For) and snapshot_of(it) is not it:
            idx = None
            synth = ast.For(target=s.target, iter=snapshot_of(it), body=list(s.body), orelse=list(s.orelse))
        if synth is not None and idx is None:
            ast.copy_location(synth, s)
            synth._parent = getattr(s, '_parent', None)
            ast.fix_missing_locations(synth)
            cache[id(s)] = synth
            return synth
        if synth is not None:
            ast.copy_location(synth, s)
            for n in ast.walk(idx):
                ast.copy_location(n, s)
            idx._parent = synth
            synth._parent = getattr(s, '_parent', None)
            ast.fix_missing_locations(synth)
        cache[id(s)] = synth
        return synth

    def x_For(self, s, st, fr):
        synth = self._enumerate_loop(s)
        if synth is not None:
            saved = [(b, getattr(b, '_parent', None)) for b in s.body + s.orelse]
            for b in s.body + s.orelse:
                b._parent = synth
            try:
                return self.x_For(synth, st, fr)
            finally:
                for b, par in saved:
                    b._parent = par
        synth = self._comp_loop(s, fr)
        if synth is not None:
            return self.x_For(synth, st, fr)
        synth = self._fission(s) if self.an.loop_fission else None
        if synth is not None:
            saved = [(b, getattr(b, '_parent', None)) for lp in synth for b in lp.body]
            for lp in synth:
                for b in lp.body:
                    b._parent = lp
            try:
                return self.exec_block(synth, [st], fr)
            finally:
                for b, par in saved:
                    b._parent = par
        o = Out()
        for x, it in self.eval(s.iter, st, fr, o):
            if it[0] in ('tuple', 'list') and isinstance(s.iter, (ast.Tuple, ast.List)) and 1 <= len(it[1]) <= 4 \
                    and not s.orelse and not any(isinstance(n, ast.Break) for b in s.body for n in ast.walk(b)):
                # a loop over a small literal table: one pass per entry, in order
                states = [x]
                for item in it[1]:
                    nxt = []
                    for y in states:
                        for b in self.assign(s.target, item, y, fr, o, s):
                            r = self.exec_block(s.body, [b], fr)
                            nxt += r.nxt + r.cont
                            o.ret += r.ret
                            o.exc += r.exc
                    states = dedup(nxt)
                o.nxt += states
                continue
            if it[0] == 'gen':
                done = self._for_over_gen(s, it, x, fr, o)
                if done is not None:
                    o.nxt += done
                    continue
            if _one_shot(it):
                if it in (x.a('spent') or ()):
                    # a generator that has been run to its end yields nothing more
                    it = EMPTY
                else:
                    inner = self._for_over(s, it, x, fr, o)
                    for y in inner:
                        o.nxt.append(y.set(spent=(y.a('spent') or frozenset()) | frozenset([it])))
                    continue
            o.nxt += self._for_over(s, it, x, fr, o)
        o.nxt = dedup(o.nxt)
        return o

    def _for_over(self, s, it, x, fr, outer):
        """the states that leave `for ... in it` normally (its other outcomes go to `outer`)"""
        o = Out()

        def run():
            r = self.an.on_loop(self, s, it, x, fr)
            if r is not None:
                o.absorb(r, nxt=True)
                return
            if it[0] in ('gen', 'call') and self.an.iter_may_raise(self, it):
                o.exc.append((x.note(self.where(s, fr), "iterating %s raises" % T.show(it, 2)),
                              ('Raise', None, T.mk(('unk', 'iteration'))), s))
            folded = self.try_fold(s, it, x, fr)
            if folded is not None:
                o.nxt.extend(folded)
                return
            fr_out = self.try_fold_return(s, it, x, fr)
            if fr_out is not None:
                o.absorb(fr_out, nxt=True)
                return
            acc = self.try_fold_accumulate(s, it, x, fr)
            if acc is not None:
                o.nxt.append(acc)
                return
            self.iterate(s, it, x, fr, o)
        run()
        outer.ret += o.ret
        outer.exc += o.exc
        outer.brk += o.brk
        outer.cont += o.cont
        return dedup(o.nxt)

    x_AsyncFor = x_For

    def loop_locals(self, s, fr):
        """names assigned inside the loop `s` all of whose reads lie inside it"""
        cache = getattr(self, '_ll', None)
        if cache is None:
            cache = self._ll = {}
        k = id(s)
        if k in cache:
            return cache[k]
        lo, hi = s.lineno, getattr(s, 'end_lineno', s.lineno)
        assigned = set()
        for n in ast.walk(s):
            if isinstance(n, ast.Name) and isinstance(n.ctx, (ast.Store, ast.Del)):
                assigned.add(n.id)
        out = set()
        fnode = fr.func.node
        for name in assigned:
            ok = True
            for n in ast.walk(fnode):
                if isinstance(n, ast.Name) and n.id == name and isinstance(n.ctx, ast.Load):
                    if not (lo <= n.lineno <= hi):
                        ok = False
                        break
            if ok:
                out.add(name)
        cache[k] = out
        return out

    def drop_loop_locals(self, s, st, fr):
        names = self.loop_locals(s, fr)
        if not names:
            return st
        v = {k: t for k, t in st.vars.items() if not (k[0] == fr.fid and k[1] in names)}
        if len(v) == len(st.vars):
            return st
        return st._new(vars=v)

    def loop_key(self, s, fr):
        return ('for', s.lineno, s.col_offset, fr.fid)

    def iterate(self, s, it, st, fr, o):
        key = self.loop_key(s, fr)
        elem = ('elem', it, key)
        ctx = LoopCtx('for', s, it, elem, key, s.target)
        seen = set()
        work = [(st, True)]
        n = 0
        while work:
            cur, first = work.pop()
            k = (cur.key(), first)
            if k in seen:
                continue
            seen.add(k)
            n += 1
            if n > MAX_STATES:
                raise AnalysisError("state explosion in loop at %s" % self.where(s, fr))
            nonempty = truth(it, cur) if first else None
            sized = first and nonempty is None and _is_sized(it)
            if not (first and nonempty is True):
                ctx.zero_iterations = first
                y = self.an.on_loop_exit(self, ctx, cur.assume(it, False) if sized else cur, fr)
                if y is not None:
                    y = self.stale_elem(y, elem, s, fr).forget(lambda t: t == elem)
                    if not first:
                        for tn in ast.walk(s.target):
                            if isinstance(tn, ast.Name):
                                y = y.with_var(fr.fid, tn.id, ('last', elem))
                    y = self.drop_loop_locals(s, y, fr)
                    if s.orelse:
                        r = self.exec_block(s.orelse, [y], fr)
                        o.absorb(r, nxt=True)
                    else:
                        o.nxt.append(y)
            if first and nonempty is False:
                continue
            b = cur.forget(lambda t: t == elem)
            if sized:
                b = b.assume(it, True)
            replay = _replay_items(it)
            if replay is None:
                bs = [(x, ctx) for x in self.assign(s.target, elem, b, fr, o, s)]
            else:
                # a list filled by an earlier loop, one element at a time under conditions on that element
                # (`picked = []; for x in S: if c(x): picked.append(x)`), is iterated: each element of the list is
                # an element x of S for which the conditions held when it was put there
                bs = []
                for x, conds in replay:
                    cx = LoopCtx('for', s, it, x, key, s.target)
                    for y in self.assign(s.target, x, b.forget(lambda t, x=x: t == x), fr, o, s):
                        for c, val in conds:
                            y = y.assume(c, val) if y is not None else None
                        if y is not None:
                            bs.append((y.note(self.where(s, fr), "element put in the list by an earlier loop, under %d "
                                                                 "condition(s)" % len(conds)), cx))
            for b, bctx in bs:
                b = self.an.on_iter(self, bctx, b, fr)
                if b is None:
                    continue
                self.loopctx.append(bctx)
                try:
                    r = self.exec_block(s.body, [b], fr)
                finally:
                    self.loopctx.pop()
                o.ret += r.ret
                o.exc += r.exc
                o.nxt += [self.drop_loop_locals(s, self.stale_elem(y, elem, s, fr).forget(lambda t: t == elem), fr)
                          for y in r.brk]
                for y in r.nxt + r.cont:
                    work.append((self.back_edge(st, cur, self.stale_elem(y, elem, s, fr)), False))

    # -------------------------------------------------- E5: fold summaries
    def try_fold(self, s, it, st, fr):
        if s.orelse:
            return None
        assigned = set()
        for n in _walk_stmts(s.body):
            if isinstance(n, (ast.Yield, ast.YieldFrom, ast.Return, ast.Raise, ast.Try,
                              ast.With, ast.AsyncWith, ast.While, ast.For, ast.AsyncFor)):
                return None
            if isinstance(n, (ast.Assign, ast.AugAssign, ast.AnnAssign)):
                tgts = n.targets if isinstance(n, ast.Assign) else [n.target]
                for t in tgts:
                    if isinstance(t, ast.Name):
                        assigned.add(t.id)
                    else:
                        return None
        # collections the body adds to: their contents are taken from the summary pass (each addition carries
        # the conditions on the element under which it is made); any other mutation of a local is not a fold
        mutated = set()
        for n in _walk_stmts(s.body):
            for c in ast.walk(n) if isinstance(n, (ast.Expr, ast.Assign, ast.AugAssign, ast.If)) else ():
                if isinstance(c, ast.Call) and isinstance(c.func, ast.Attribute) and isinstance(c.func.value, ast.Name) \
                        and c.func.value.id != 'self' and st.var(fr.fid, c.func.value.id) is not None:
                    if c.func.attr in ADDERS or c.func.attr in EXTENDERS:
                        mutated.add(c.func.value.id)
                    elif c.func.attr in SCRAMBLERS:
                        return None
        mvals = {}
        flags = [n for n in assigned
                 if T.is_const(st.var(fr.fid, n, ('unk', n))) and isinstance(st.var(fr.fid, n)[1], bool)]
        if len(flags) != 1:
            return None
        f = flags[0]
        v0 = st.var(fr.fid, f)[1]
        key = self.loop_key(s, fr)
        elem = ('elem', it, key)
        ctx = LoopCtx('for', s, it, elem, key, s.target)
        results = {}
        for v in (True, False):
            b = st.with_var(fr.fid, f, ('const', v)).forget(lambda t: t == elem)
            scratch = Out()
            bs = self.assign(s.target, elem, b, fr, scratch, s)
            outs = []
            for b in bs:
                b = self.an.on_iter(self, ctx, b, fr)
                if b is None:
                    continue
                self.loopctx.append(ctx)
                self.in_summary += 1
                try:
                    r = self.exec_block(s.body, [b], fr)
                finally:
                    self.in_summary -= 1
                    self.loopctx.pop()
                if r.ret or r.exc or scratch.exc:
                    return None
                for kind, lst in (('next', r.nxt), ('cont', r.cont), ('brk', r.brk)):
                    for x in lst:
                        if x.auto != b.auto:
                            return None
                        for mn in mutated:
                            mvals.setdefault(mn, set()).add(x.var(fr.fid, mn))
                        fv = x.var(fr.fid, f)
                        new = frozenset((k, val) for k, val in x.facts.items()
                                        if st.facts.get(k) != val)
                        if T.is_const(fv) and isinstance(fv[1], bool):
                            outs.append((fv[1], new, kind))
                        else:
                            for tv in (True, False):
                                y = x.assume(fv, tv)
                                if y is not None:
                                    new2 = frozenset((k, val) for k, val in y.facts.items()
                                                     if st.facts.get(k) != val)
                                    outs.append((tv, new2, kind))
            results[v] = outs
        oT, oF = results[True], results[False]
        if oF and all(not r[0] for r in oF) and any(not r[0] for r in oT):
            sticky = False
        elif oT and all(r[0] for r in oT) and any(r[0] for r in oF):
            sticky = True
        else:
            return None
        for r in results[not sticky]:
            if r[2] == 'brk' and r[0] != sticky:
                return None
        base = st
        for n in assigned:
            if n != f:
                base = base.with_var(fr.fid, n, ('unk', n))
        tgt_names = [n.id for n in ast.walk(s.target) if isinstance(n, ast.Name)]
        for n in tgt_names:
            base = base.with_var(fr.fid, n, ('unk', n))
        where = self.where(s, fr)
        base = self.drop_loop_locals(s, base, fr)
        for mn, vals in mvals.items():
            vals = [v for v in vals if v is not None]
            if vals:
                base = base.with_var(fr.fid, mn, T.union(*vals))
        if v0 == sticky:
            return [base]
        stay = frozenset(r[1] for r in results[not sticky] if r[0] == (not sticky))
        flip = frozenset(r[1] for r in results[not sticky] if r[0] == sticky)
        a = base.with_var(fr.fid, f, ('const', not sticky))
        a = a.assume(('forall', it, key, stay), True)
        a = a.note(where, "fold: %s stays %s for every element" % (f, not sticky))
        b = base.with_var(fr.fid, f, ('const', sticky))
        b = b.assume(('exists', it, key, flip), True)
        b = b.note(where, "fold: %s becomes %s for some element" % (f, sticky))
        return [x for x in (a, b) if x is not None]

    def try_fold_accumulate(self, s, it, st, fr):
        """collecting loops: `for x in S: [locals] if c(x): V.append(e(x))` -- summarised as
        V = V + [e(x) for x in S if c(x)], the same term a comprehension would give"""
        if s.orelse or not isinstance(s.target, ast.Name):
            return None
        adders = set()
        counters = {}
        for n in _walk_stmts(s.body):
            if isinstance(n, ast.AugAssign) and isinstance(n.op, ast.Add) and isinstance(n.target, ast.Name) \
                    and isinstance(n.value, ast.Constant) and n.value.value == 1 \
                    and not isinstance(n.value.value, bool):
                counters[n.target.id] = n
                continue
            if isinstance(n, (ast.Yield, ast.YieldFrom, ast.Return, ast.Raise, ast.Try, ast.With, ast.AsyncWith,
                              ast.While, ast.For, ast.AsyncFor, ast.Break, ast.Await, ast.AugAssign)):
                return None
            if isinstance(n, ast.Assign) and not all(isinstance(t, ast.Name) for t in n.targets):
                return None
            if isinstance(n, ast.Call) and isinstance(n.func, ast.Attribute) and n.func.attr in ADDERS \
                    and isinstance(n.func.value, ast.Name) and len(n.args) == 1:
                adders.add(n.func.value.id)
        if not adders and not counters:
            return None
        key = self.loop_key(s, fr)
        elem = T.mk(('elem', it, key))
        ctx = LoopCtx('for', s, it, elem, key, s.target)
        b = st.forget(lambda t: t == elem)
        scratch = Out()
        bs = self.assign(s.target, elem, b, fr, scratch, s)
        outs = []
        counts = {}
        for b in bs:
            b = self.an.on_iter(self, ctx, b, fr)
            if b is None:
                return None
            self.loopctx.append(ctx)
            self.in_summary += 1
            try:
                r = self.exec_block(s.body, [b], fr)
            finally:
                self.in_summary -= 1
                self.loopctx.pop()
            if r.ret or r.exc or r.brk or scratch.exc:
                return None
            for x in r.nxt + r.cont:
                if x.auto != b.auto:
                    return None
                outs.append(x)
        if not outs:
            return None
        locs = self.loop_locals(s, fr)
        comps = {}
        for x in outs:
            for k, v in x.vars.items():
                if k[0] != fr.fid or v == st.vars.get(k):
                    continue
                name = k[1]
                if name == s.target.id or name in locs:
                    continue
                old = st.vars.get(k)
                if name in counters and old is not None:
                    # `n += 1` under the conditions this path learnt about the element
                    conds = tuple(sorted((c if val else T.mk(('unop', 'not', c)) for c, val in x.facts.items()
                                          if st.facts.get(c) != val and T.contains(c, elem) and c != it), key=repr))
                    counts.setdefault(name, set()).add(
                        T.mk(('call', 'len', (('comp', 'list', elem, ((key, it, conds),)),), ())))
                    continue
                if name not in adders or old is None or v[0] != 'union':
                    return None
                new_items = T.union_items(v) - T.union_items(old)
                if T.union_items(old) - T.union_items(v):
                    return None
                for item in new_items:
                    conds = ()
                    if item[0] == 'when':
                        if item[2]:
                            return None
                        conds = tuple(sorted((c if val else T.mk(('unop', 'not', c)) for c, val in item[1]), key=repr))
                        item = item[3]
                    if item[0] != 'single':
                        return None
                    comps.setdefault(name, set()).add(T.mk(('comp', 'list', item[1], ((key, it, conds),))))
        if not comps and not counts:
            return None
        y = self.drop_loop_locals(s, st, fr)
        for name, cs in comps.items():
            y = y.with_var(fr.fid, name, T.union(st.var(fr.fid, name), *cs))
        for name, ls in counts.items():
            if len(ls) != 1:
                return None
            new = self.aug('Add', st.var(fr.fid, name), tuple(ls)[0], name)
            r2 = self.an.on_store_name(self, counters[name], name, new, y, fr)
            if r2 is not None:
                y = r2 if not isinstance(r2, list) else r2[0]
            else:
                y = y.with_var(fr.fid, name, new)
        return y.note(self.where(s, fr), "fold: collecting loop summarised as a comprehension over %s" % T.show(it, 2))

    def try_fold_return(self, s, it, st, fr):
        """search loops: `for x in S: if p(x): return c` -- summarised as
        (return c, exists x: p) | (fall through, forall x: not p)"""
        has_ret = False
        for n in _walk_stmts(s.body):
            if isinstance(n, (ast.Yield, ast.YieldFrom, ast.Raise, ast.Try, ast.With, ast.AsyncWith,
                              ast.While, ast.For, ast.AsyncFor, ast.Assign, ast.AugAssign,
                              ast.AnnAssign, ast.Await)):
                return None
            if isinstance(n, (ast.Return, ast.Break)):
                # (`for x in S: if p(x): break` + `else: E` -- the same search, leaving by break: E runs when
                # nothing was found)
                has_ret = True
        if not has_ret:
            return None
        key = self.loop_key(s, fr)
        elem = T.mk(('elem', it, key))
        ctx = LoopCtx('for', s, it, elem, key, s.target)
        b = st.forget(lambda t: t == elem)
        scratch = Out()
        bs = self.assign(s.target, elem, b, fr, scratch, s)
        stay, rets, brks = [], [], []
        for b in bs:
            b = self.an.on_iter(self, ctx, b, fr)
            if b is None:
                continue
            self.loopctx.append(ctx)
            self.in_summary += 1
            try:
                r = self.exec_block(s.body, [b], fr)
            finally:
                self.in_summary -= 1
                self.loopctx.pop()
            if r.exc or scratch.exc:
                return None
            for x in r.nxt + r.cont:
                if x.auto != b.auto:
                    return None
                stay.append(frozenset((k, v) for k, v in x.facts.items() if st.facts.get(k) != v))
            tn = {n.id for n in ast.walk(s.target) if isinstance(n, ast.Name)}
            for x in r.brk + r.nxt + r.cont:
                # (a body that changes a variable of the function - `found.update(...)` before the break - is not
                # a mere search)
                if any(v != b.vars.get(k) for k, v in x.vars.items() if k[0] == fr.fid and k[1] not in tn) and r.brk:
                    return None
            for x in r.brk:
                if x.auto != b.auto:
                    return None
                brks.append(frozenset((k, v) for k, v in x.facts.items() if st.facts.get(k) != v))
            for (x, t, node) in r.ret:
                if x.auto != b.auto or T.contains(t, elem):
                    return None
                rets.append((t, node, frozenset((k, v) for k, v in x.facts.items() if st.facts.get(k) != v)))
        out = Out()
        base = self.drop_loop_locals(s, st, fr)
        where = self.where(s, fr)
        a = base.assume(T.mk(('forall', it, key, frozenset(stay))), True)
        if a is not None and stay:
            a = a.note(where, "fold: the search loop finds nothing")
            if s.orelse:
                out.absorb(self.exec_block(s.orelse, [a], fr), nxt=True)
            else:
                out.nxt.append(a)
        elif not stay:
            pass
        if brks:
            y = base.assume(T.mk(('exists', it, key, frozenset(brks))), True)
            if y is not None:
                out.nxt.append(y.note(where, "fold: the search loop is left by `break` for some element"))
        byval = {}
        for t, node, facts in rets:
            byval.setdefault((t, id(node)), (t, node, set()))[2].add(facts)
        for t, node, alts in byval.values():
            y = base.assume(T.mk(('exists', it, key, frozenset(alts))), True)
            if y is not None:
                y = y.note(where, "fold: the search loop returns %s for some element" % T.show(t, 3))
                if fr.depth == 0:
                    y = self.an.on_return_stmt(self, node, t, y, fr)
                if y is not None:
                    out.ret.append((y, t, node))
        return out

    # ----------------------------------------------------------- try / with
    def x_Try(self, s, st, fr):
        body = self.exec_block(s.body, [st], fr)
        mid = Out()
        mid.brk, mid.cont, mid.ret = body.brk, body.cont, body.ret
        if s.orelse and body.nxt:
            r = self.exec_block(s.orelse, body.nxt, fr)
            mid.absorb(r, nxt=True)
        else:
            mid.nxt += body.nxt
        for (x, kind, node) in body.exc:
            routed = False
            remaining = True
            for h in s.handlers:
                c = self.catches(h.type, kind, x, fr)
                if c == 'no':
                    continue
                y = x
                if h.name:
                    y = y.with_var(fr.fid, h.name, ('exc', kind))
                y = self.an.on_except(self, h, kind, y, fr)
                if y is not None:
                    y = y.note(self.where(h, fr), "caught %s" % (kind[0] if kind[0] != 'Raise' else kind[1]))
                    self.handling.append(kind)
                    try:
                        r = self.exec_block(h.body, [y], fr)
                    finally:
                        self.handling.pop()
                    mid.absorb(r, nxt=True)
                routed = True
                if c == 'yes':
                    remaining = False
                    break
            if remaining:
                mid.exc.append((x, kind, node))
        if not s.finalbody:
            return mid
        out = Out()
        fin = s.finalbody

        def through(states):
            r = self.exec_block(fin, states, fr)
            out.brk += r.brk
            out.cont += r.cont
            out.ret += r.ret
            out.exc += r.exc
            return r.nxt
        if mid.nxt:
            out.nxt += through(mid.nxt)
        if mid.brk:
            out.brk += through(mid.brk)
        if mid.cont:
            out.cont += through(mid.cont)
        for (x, t, node) in mid.ret:
            for y in through([x]):
                out.ret.append((y, t, node))
        for (x, kind, node) in mid.exc:
            self.handling.append(kind)
            try:
                for y in through([x.note(self.where(s, fr), "finally (propagating %s)" % kind[0])]):
                    out.exc.append((y, kind, node))
            finally:
                self.handling.pop()
        return out

    x_TryStar = x_Try

    def catches(self, tnode, kind, st, fr):
        if tnode is None:
            return 'yes'
        names = []
        if isinstance(tnode, ast.Tuple):
            names = [dotted(e) for e in tnode.elts]
        else:
            names = [dotted(tnode)]
        res = 'no'
        for n in names:
            c = self._catch1(n, kind)
            if c == 'yes':
                return 'yes'
            if c == 'maybe':
                res = 'maybe'
        return res

    def _catch1(self, name, kind):
        if name is None:
            return 'maybe'
        short = name.split('.')[-1]
        if short == 'BaseException':
            return 'yes'
        k = kind[0]
        if k == 'Cancelled':
            return 'yes' if short == 'CancelledError' else 'no'
        if k == 'BodyExc':
            if short == 'Exception':
                return 'yes'
            if short == 'CancelledError':
                return 'no'
            return 'maybe'
        if k == 'Raise':
            tn = kind[1]
            if tn is None:
                return 'yes' if short == 'Exception' else 'maybe'
            tshort = tn.split('.')[-1]
            if tshort == short:
                return 'yes'
            anc = EXC_TABLE.get(tn) or EXC_TABLE.get(tshort)
            if anc is None:
                return 'yes' if short == 'Exception' else 'maybe'
            return 'yes' if short in anc else 'no'
        if k == 'Other':
            return 'yes' if short == 'Exception' else 'maybe'
        return 'maybe'

    def _cm_function(self, t, fr):
        """the package generator function behind a `with f(...)`, when f is a @contextmanager / @asynccontextmanager"""
        if t[0] in ('coro', 'gen'):
            f = self.prog.funcs.get(t[1])
            if f is not None and f.is_generator and fr.depth < self.an.max_inline and f.qualname not in fr.stack \
                    and any((dotted(d) or '').split('.')[-1] in ('contextmanager', 'asynccontextmanager')
                            for d in f.node.decorator_list):
                return f
        return None

    def _cm_class(self, t, s, fr):
        """the package class of a context-manager object built in place (`with _Slot(q, job):`)"""
        if t[0] == 'new' and isinstance(t[1], str) and t[1] in self.prog.classes and fr.depth < self.an.max_inline:
            cls = self.prog.classes[t[1]]
            names = ('__aenter__', '__aexit__') if isinstance(s, ast.AsyncWith) else ('__enter__', '__exit__')
            if all(self.prog.supplier(cls, n) is not None for n in names):
                return cls
        return None

    def _with_object(self, s, items, item, obj, st, fr):
        """`async with M(...) [as v]: rest` for a class M of the package:
        v = await m.__aenter__(); rest; await m.__aexit__(None, None, None) on every way out of rest but an exception,
        and for an exception e: it is swallowed iff `await m.__aexit__(type(e), e, tb)` is true"""
        o = Out()
        is_async = isinstance(s, ast.AsyncWith)
        tmp = '_cm_%d_%d' % (item.context_expr.lineno, item.context_expr.col_offset)

        def call(name, args, x, out):
            c = ast.Call(func=ast.Attribute(value=ast.Name(id=tmp, ctx=ast.Load()), attr=name, ctx=ast.Load()),
                         args=args, keywords=[])
            e = ast.Await(value=c) if is_async else c
            ast.copy_location(e, item.context_expr)
            for n in ast.walk(e):
                ast.copy_location(n, item.context_expr)
            e._parent = s
            return self.eval(e, x, fr, out)
        none3 = [ast.Constant(value=None), ast.Constant(value=None), ast.Constant(value=None)]
        st = st.with_var(fr.fid, tmp, obj)
        for y, v in call('__aenter__' if is_async else '__enter__', [], st, o):
            sts = self.assign(item.optional_vars, v, y, fr, o, s) if item.optional_vars is not None else [y]
            for b in sts:
                r = self._with_items(s, items[1:], b, fr)
                ex = '__aexit__' if is_async else '__exit__'
                for z in r.nxt:
                    o.nxt += [w for w, _v in call(ex, none3, z, o)]
                for z in r.brk:
                    o.brk += [w for w, _v in call(ex, none3, z, o)]
                for z in r.cont:
                    o.cont += [w for w, _v in call(ex, none3, z, o)]
                for (z, val, node) in r.ret:
                    o.ret += [(w, val, node) for w, _v in call(ex, none3, z, o)]
                for (z, kind, node) in r.exc:
                    etmp = tmp + '_exc'
                    z = z.with_var(fr.fid, etmp, ('exc', kind))
                    args = [ast.Call(func=ast.Name(id='type', ctx=ast.Load()), args=[ast.Name(id=etmp, ctx=ast.Load())],
                                     keywords=[]), ast.Name(id=etmp, ctx=ast.Load()), ast.Constant(value=None)]
                    self.handling.append(kind)
                    try:
                        for w, res in call(ex, args, z, o):
                            tv = truth(res, w)
                            if tv is not True:
                                o.exc.append((w, kind, node))
                            if tv is not False:
                                o.nxt.append(w.note(self.where(s, fr), "%s swallows the exception" % ex))
                    finally:
                        self.handling.pop()
        return o

    def _with_items(self, s, items, st, fr):
        """`with a, b: body` is `with a: with b: body`; a context manager written as a decorated generator of the
        package is walked in a callee frame: the rest of the statement runs (in this frame) at its `yield`, what the
        rest raises is raised at that yield - inside the generator's own try blocks - and a return / break /
        continue of the rest takes effect once the generator has run to its end"""
        if not items:
            return self.exec_block(s.body, [st], fr)
        o = Out()
        item = items[0]
        for y, t in self.eval(item.context_expr, st, fr, o):
            f = self._cm_function(t, fr)
            if f is None and self._cm_class(t, s, fr) is not None:
                o.absorb(self._with_object(s, items, item, t, y, fr), nxt=True)
                continue
            if f is None:
                if item.optional_vars is not None:
                    sts = self.assign(item.optional_vars, ('ctx', t), y, fr, o, s)
                else:
                    sts = [y]
                for z in sts:
                    o.absorb(self._with_items(s, items[1:], z, fr), nxt=True)
                continue
            pend = self.__dict__.setdefault('_cmpend', [])
            caller = fr

            def sink(z, val, oc, item=item):
                sts = self.assign(item.optional_vars, val, z, caller, oc, s) if item.optional_vars is not None else [z]
                out = []
                for b in sts:
                    r = self._with_items(s, items[1:], b, caller)
                    out += r.nxt
                    for (w, v, n) in r.ret:
                        pend.append(('ret', v, n))
                        out.append(w.set(cmpend=len(pend) - 1))
                    for w in r.brk:
                        pend.append(('brk',))
                        out.append(w.set(cmpend=len(pend) - 1))
                    for w in r.cont:
                        pend.append(('cont',))
                        out.append(w.set(cmpend=len(pend) - 1))
                    oc.exc += r.exc
                return out
            sinks = self.__dict__.setdefault('_ysinks', [])
            sinks.append((f, fr.depth + 1, sink, 'cm'))
            try:
                res = self.inline(f, None, (), (), None, y, fr, o, s, bindings=t[2])
            finally:
                sinks.pop()
            for z, _v in res:
                tok = z.a('cmpend')
                if tok is None:
                    o.nxt.append(z)
                    continue
                z = z.set(cmpend=None)
                what = pend[tok]
                if what[0] == 'ret':
                    o.ret.append((z, what[1], what[2]))
                elif what[0] == 'brk':
                    o.brk.append(z)
                else:
                    o.cont.append(z)
        return o

    def x_With(self, s, st, fr):
        return self._with_items(s, list(s.items), st, fr)

    x_AsyncWith = x_With

    # ========================================================= expressions
    def eval(self, e, st, fr, o, raising=False):
        """returns [(St, term)]; exceptional outcomes are appended to o.exc"""
        m = getattr(self, 'e_' + type(e).__name__, None)
        if m is None:
            return [(st, T.mk(('unk', type(e).__name__)))]
        return [(x, T.mk(t)) for x, t in m(e, st, fr, o)]

    def eval_seq(self, exprs, st, fr, o):
        """evaluate expressions left to right; returns [(St, [terms])]"""
        res = [(st, [])]
        for e in exprs:
            nxt = []
            for x, ts in res:
                for y, t in self.eval(e, x, fr, o):
                    nxt.append((y, ts + [t]))
            res = nxt
        return res

    def e_Constant(self, e, st, fr, o):
        v = e.value
        if v is None or isinstance(v, (bool, int, float, str)):
            return [(st, ('const', v))]
        return [(st, ('unk', 'const'))]

    def lookup(self, name, st, fr, node=None):
        t = st.var(fr.fid, name)
        if t is not None:
            return t
        r = self.an.on_name(self, node, name, st, fr)
        if r is not None:
            return r
        f = fr.func
        while f is not None:
            if name in f.nested:
                return ('closure', f.nested[name].qualname, ())
            f = f.parent
        mod = fr.func.module
        if name in mod.classes or (name in mod.imports and mod.imports[name][1] in self.prog.classes):
            cn = name if name in mod.classes else mod.imports[name][1]
            return ('class', cn)
        if name in mod.functions:
            return ('func', mod.functions[name].qualname)
        c = self.module_const(mod, name)
        if c is not None:
            return c
        if name in mod.imports:
            m, orig, _ = mod.imports[name]
            return ('mod', (m + '.' + orig) if orig else m)
        if name in self.prog.classes:
            return ('class', name)
        import builtins
        if hasattr(builtins, name):
            return ('builtin', name)
        return ('var', name)

    def module_const(self, mod, name):
        """a module-level name bound exactly once, to a literal"""
        cache = self.__dict__.setdefault('_mc', {})
        ck = (mod.name, name)
        if ck not in cache:
            cache[ck] = self._module_const(mod, name)
        return cache[ck]

    def _module_const(self, mod, name):
        found = []
        for n in ast.walk(mod.tree):
            if isinstance(n, ast.Name) and n.id == name and isinstance(n.ctx, (ast.Store, ast.Del)):
                found.append(n)
            if isinstance(n, ast.Global) and name in n.names:
                return None
        if len(found) != 1:
            return None
        par = getattr(found[0], '_parent', None)
        if isinstance(par, ast.Assign) and par in mod.tree.body and isinstance(par.value, ast.Constant) \
                and (par.value.value is None or isinstance(par.value.value, (bool, int, float, str))):
            return ('const', par.value.value)
        return None

    def e_Name(self, e, st, fr, o):
        t = self.lookup(e.id, st, fr, e)
        sp = st.a('spent')
        if sp and t in sp and _one_shot(t):
            # reading a generator that has already been run to its end: whoever iterates it gets nothing
            t = EMPTY
        return [(st, t)]

    def e_Attribute(self, e, st, fr, o):
        res = []
        for x, b in self.eval(e.value, st, fr, o):
            r = self.an.on_attr(self, e, b, e.attr, x, fr)
            if r is None and b[0] == 'new':
                r = x.var(HEAP, (b, e.attr))      # what was stored in this fresh object
            if r is None and isinstance(getattr(e, 'ctx', None), ast.Load):
                r = self.class_const(e, b, fr)
            if r is None and isinstance(getattr(e, 'ctx', None), ast.Load):
                # a property of the class of `self` (or of a helper object): reading it runs its getter
                pf = self.property_getter(e, b, fr)
                if pf is not None:
                    res += self.inline(pf, b, (), (), T.mk(('attr', b, e.attr)), x, fr, o, e)
                    continue
            if r is not None:
                res.append((x, r))
            elif b[0] == 'mod':
                res.append((x, ('mod', b[1] + '.' + e.attr)))
            else:
                res.append((x, T.cap(('attr', b, e.attr), e.attr)))
        return res

    def property_getter(self, e, b, fr):
        cls = None
        if b[0] == 'new' and isinstance(b[1], str) and b[1] in self.prog.classes:
            cls = self.prog.classes[b[1]]
        elif fr.func.cls is not None and fr.self_term is not None and b == fr.self_term:
            cls = self.self_class(fr)
        if cls is None or fr.depth >= self.an.max_inline:
            return None
        f = self.prog.supplier(cls, e.attr)
        if f is None or f.is_async or f.is_generator or f.qualname in fr.stack or len(f.params) != 1:
            return None
        if not any((dotted(d) or '').split('.')[-1] in ('property', 'cached_property') for d in f.node.decorator_list):
            return None
        # (dispatch: the getter must be the same for every class `self` may be)
        if b == fr.self_term and getattr(self, 'root_cls', None) is None and len(self.prog.dispatch_set(cls, e.attr)) > 1:
            return None
        return f

    def class_const(self, e, b, fr):
        """`self.X` / `cls.X` / `Class.X` where X is a constant of the class: bound once, in the class body, to a literal,
        and never assigned through an instance anywhere in the package"""
        cls = None
        if b[0] == 'class' and b[1] in self.prog.classes:
            cls = self.prog.classes[b[1]]
        elif fr.func.cls is not None and (b == fr.self_term or (isinstance(e.value, ast.Name) and e.value.id in ('cls', 'self')
                                                              and fr.func.params and e.value.id == fr.func.params[0])):
            cls = self.self_class(fr)
        if cls is None:
            return None
        cache = self.__dict__.setdefault('_cc', {})
        key = (cls.name, e.attr)
        if key not in cache:
            val = None
            for c in cls.mro:
                defs = [n for n in c.node.body if isinstance(n, (ast.Assign, ast.AnnAssign)) and any(
                    isinstance(t, ast.Name) and t.id == e.attr for t in (n.targets if isinstance(n, ast.Assign) else [n.target]))]
                if defs:
                    d = defs[-1]
                    if len(defs) == 1 and isinstance(d.value, ast.Constant) and (
                            d.value.value is None or isinstance(d.value.value, (bool, int, float, str))):
                        val = ('const', d.value.value)
                    break
            if val is not None:
                # overridden in a subclass, or stored through an instance somewhere: not a constant
                for c2 in self.prog.classes.values():
                    if c2 is not cls and cls in c2.mro and any(
                            isinstance(n, (ast.Assign, ast.AnnAssign)) and any(isinstance(t, ast.Name) and t.id == e.attr
                            for t in (n.targets if isinstance(n, ast.Assign) else [n.target])) for n in c2.node.body):
                        val = None
                for f in self.prog.funcs.values():
                    if val is None:
                        break
                    for n in walk_local(f.node):
                        if isinstance(n, ast.Attribute) and n.attr == e.attr and isinstance(n.ctx, (ast.Store, ast.Del)):
                            val = None
                            break
            cache[key] = val
        return cache[key]

    def e_Tuple(self, e, st, fr, o):
        kind = {'Tuple': 'tuple', 'List': 'list', 'Set': 'set'}[type(e).__name__]
        if kind in ('list', 'set') and not e.elts:
            return [(st, EMPTY)]
        return [(x, (kind, tuple(ts))) for x, ts in self.eval_seq(e.elts, st, fr, o)]

    e_List = e_Set = e_Tuple

    def e_Dict(self, e, st, fr, o):
        res = [(st, [])]
        parts = [p for p in list(e.keys) + list(e.values) if p is not None]
        return [(x, ('dict', tuple(ts))) for x, ts in self.eval_seq(parts, st, fr, o)]

    def e_Starred(self, e, st, fr, o):
        return [(x, ('star', t)) for x, t in self.eval(e.value, st, fr, o)]

    def e_Subscript(self, e, st, fr, o):
        res = []
        for x, b in self.eval(e.value, st, fr, o):
            for y, i in self.eval(e.slice, x, fr, o):
                rows = self._decision_table(b, i, y)
                if rows is not None:
                    res += rows
                    continue
                res.append((y, T.cap(('sub', b, i), 'sub')))
        return res

    def _decision_table(self, b, i, st):
        """`{(True, True): a, (True, False): b, ...}[bool(x), bool(y)]`: a literal table whose keys are booleans (or
        tuples of booleans), indexed by truth values - one outcome per row, under what the row says of the index"""
        if b[0] != 'dict' or len(b[1]) < 2 or len(b[1]) % 2:
            return None
        n = len(b[1]) // 2
        keys, vals = b[1][:n], b[1][n:]

        def comps(k):
            if k[0] == 'const' and isinstance(k[1], bool):
                return (k[1],)
            if k[0] == 'tuple' and k[1] and all(c[0] == 'const' and isinstance(c[1], bool) for c in k[1]):
                return tuple(c[1] for c in k[1])
            return None
        kc = [comps(k) for k in keys]
        if any(c is None for c in kc) or len({len(c) for c in kc}) != 1 or len(set(kc)) != len(kc):
            return None
        idx = list(i[1]) if i[0] == 'tuple' else [i]
        if len(idx) != len(kc[0]):
            return None
        for t in idx:
            # only what is a truth value by construction: bool(x), not x, a comparison, a constant
            if not (t[0] == 'const' and isinstance(t[1], bool)) and not (t[0] == 'call' and t[1] == 'bool') \
                    and not (t[0] == 'unop' and t[1] == 'not') and t[0] != 'cmp':
                return None
        if len(kc) != 2 ** len(idx):
            return None         # a missing row is a KeyError on some input: leave that to the symbolic form
        out = []
        for c, v in zip(kc, vals):
            y = st
            for t, want in zip(idx, c):
                y = y.assume(t, want)
                if y is None:
                    break
            if y is not None:
                out.append((y, v))
        return out

    def e_Slice(self, e, st, fr, o):
        parts = [p for p in (e.lower, e.upper, e.step)]
        res = [(st, [])]
        for p in parts:
            nxt = []
            for x, ts in res:
                if p is None:
                    nxt.append((x, ts + [T.NONE]))
                else:
                    for y, t in self.eval(p, x, fr, o):
                        nxt.append((y, ts + [t]))
            res = nxt
        return [(x, ('slice',) + tuple(ts)) for x, ts in res]

    def e_JoinedStr(self, e, st, fr, o):
        vals = [v.value if isinstance(v, ast.FormattedValue) else v for v in e.values]
        return [(x, ('fmt', tuple(ts))) for x, ts in self.eval_seq(vals, st, fr, o)]

    def e_FormattedValue(self, e, st, fr, o):
        return self.eval(e.value, st, fr, o)

    def e_Lambda(self, e, st, fr, o):
        if not self.an.lambda_values:
            return [(st, ('unk', 'lambda'))]
        t = T.mk(('lam', e.lineno, e.col_offset, fr.fid))
        self.__dict__.setdefault('_lams', {})[t] = (e, fr)
        return [(st, t)]

    def e_NamedExpr(self, e, st, fr, o):
        res = []
        for x, t in self.eval(e.value, st, fr, o):
            for y in self.assign(e.target, t, x, fr, o, e):
                res.append((y, t))
        return res

    def e_UnaryOp(self, e, st, fr, o):
        res = []
        for x, t in self.eval(e.operand, st, fr, o):
            if isinstance(e.op, ast.Not):
                v = truth(t, x)
                if v is not None and t[0] == 'const':
                    res.append((x, ('const', not v)))
                else:
                    res.append((x, ('unop', 'not', t)))
            elif isinstance(e.op, ast.USub) and t[0] == 'const' and isinstance(t[1], (int, float)):
                res.append((x, ('const', -t[1])))
            else:
                res.append((x, ('unop', type(e.op).__name__, t)))
        return res

    def e_BinOp(self, e, st, fr, o):
        res = []
        for x, (l, r) in self.eval_seq([e.left, e.right], st, fr, o):
            res.append((x, T.cap(('binop', type(e.op).__name__, l, r), 'binop')))
        return res

    def e_Compare(self, e, st, fr, o):
        ops = {'Is': 'is', 'IsNot': 'is not', 'Eq': '==', 'NotEq': '!=', 'Lt': '<', 'LtE': '<=',
               'Gt': '>', 'GtE': '>=', 'In': 'in', 'NotIn': 'not in'}
        res = []
        for x, ts in self.eval_seq([e.left] + list(e.comparators), st, fr, o):
            parts = []
            for i, op in enumerate(e.ops):
                parts.append(('cmp', ops[type(op).__name__], ts[i], ts[i + 1]))
            t = parts[0] if len(parts) == 1 else ('boolop', 'and', tuple(parts))
            v = truth(t, None)
            res.append((x, ('const', v) if v is not None else T.cap(t, 'cmp')))
        return res

    def e_BoolOp(self, e, st, fr, o):
        is_and = isinstance(e.op, ast.And)
        opn = 'and' if is_and else 'or'
        res = []
        # (state, collected terms so far); short-circuit with forks only where an
        # operand to the right has effects (a call or an await)
        work = [(st, [], 0)]
        while work:
            x, ts, i = work.pop()
            if i == len(e.values):
                # (an operand too deep to be kept is unknown on its own: the others stay readable)
                t = ts[0] if len(ts) == 1 else ('boolop', opn, tuple(
                    (T.mk(('unk', 'operand')) if T.mk(ti)._d > T.MAX_DEPTH - 3 else ti) for ti in ts))
                res.append((x, T.cap(t, 'boolop')))
                continue
            for y, t in self.eval(e.values[i], x, fr, o):
                v = truth(t, y)
                last = (i == len(e.values) - 1)
                if not last and v is not None and (v != is_and):
                    # decides: short-circuit, value is t
                    res.append((y, t if not ts else t))
                    continue
                if not last and v is not None and (v == is_and):
                    # transparent operand: drop it
                    work.append((y, ts, i + 1))
                    continue
                rest_has_effects = any(_has_effects(r) for r in e.values[i + 1:])
                if last or not rest_has_effects:
                    work.append((y, ts + [t], i + 1))
                else:
                    # (through branch(): the analysis hooks see these decisions like those of an `if`)
                    ya = self.branch(e.values[i], t, not is_and, y, fr)
                    if ya is not None:
                        res.append((ya, t))
                    yb = self.branch(e.values[i], t, is_and, y, fr)
                    if yb is not None:
                        work.append((yb, ts, i + 1))
        return res

    def e_IfExp(self, e, st, fr, o):
        res = []
        for x, c in self.eval(e.test, st, fr, o):
            v = truth(c, x)
            if v is True:
                res += self.eval(e.body, x, fr, o)
            elif v is False:
                res += self.eval(e.orelse, x, fr, o)
            elif _has_effects(e.body) or _has_effects(e.orelse) or _is_none_const(e.body) or _is_none_const(e.orelse):
                # (`x if c else None`: which arm was taken is what the caller will test next)
                for val, br in ((True, e.body), (False, e.orelse)):
                    y = self.branch(e.test, c, val, x, fr)
                    if y is not None:
                        res += self.eval(br, y, fr, o)
            else:
                for y, (a, b) in self.eval_seq([e.body, e.orelse], x, fr, o):
                    res.append((y, T.cap(('ifexp', c, a, b), 'ifexp')))
        return res

    # ----------------------------------------------------- comprehensions
    def comp(self, e, st, fr, o, kind, elts):
        saved = {}
        res = [(st, [])]
        ctxs = []
        gens_out = []
        cur = [(st, ())]        # (state, gens so far)
        for g in e.generators:
            nxt = []
            for x, gens in cur:
                for y, it in self.eval(g.iter, x, fr, o):
                    if it[0] in ('gen', 'call') and self.an.iter_may_raise(self, it):
                        o.exc.append((y.note(self.where(e, fr), "iterating %s raises" % T.show(it, 2)),
                                      ('Raise', None, T.mk(('unk', 'iteration'))), e))
                    key = ('comp', g.iter.lineno, g.iter.col_offset, fr.fid)
                    elem = ('elem', it, key)
                    ctx = LoopCtx('comp', e, it, elem, key, g.target)
                    for n in ast.walk(g.target):
                        if isinstance(n, ast.Name) and n.id not in saved:
                            saved[n.id] = st.var(fr.fid, n.id)
                    ys = self.assign(g.target, elem, y.forget(lambda t, el=elem: t == el), fr, o, e)
                    self.loopctx.append(ctx)
                    ctxs.append(ctx)
                    for z in ys:
                        z = self.an.on_iter(self, ctx, z, fr)
                        if z is None:
                            continue
                        conds = []
                        zs = [(z, [])]
                        for c in g.ifs:
                            zn = []
                            for w, cs in zs:
                                for w2, ct in self.eval(c, w, fr, o):
                                    w3 = w2.assume(ct, True) or w2
                                    zn.append((w3, cs + [ct]))
                            zs = zn
                        for w, cs in zs:
                            ctx.conds = cs
                            nxt.append((w, gens + ((key, it, tuple(cs)),)))
            cur = nxt
        out = []
        try:
            for x, gens in cur:
                for y, ts in self.eval_seq(elts, x, fr, o):
                    elt = ts[0] if len(ts) == 1 else ('tuple', tuple(ts))
                    out.append((y, T.cap(('comp', kind, elt, gens), 'comp')))
        finally:
            for _ in ctxs:
                self.loopctx.pop()
        # restore shadowed names, drop facts about the bound elements
        fin = []
        for y, t in out:
            for n, old in saved.items():
                if old is None:
                    v = dict(y.vars)
                    v.pop(T.mk((fr.fid, n)), None)
                    y = y._new(vars=v)
                else:
                    y = y.with_var(fr.fid, n, old)
            keys = {c.key for c in ctxs}
            y = y.forget(lambda s: s[0] == 'elem' and s[2] in keys)
            fin.append((y, t))
        if not fin and not cur:
            return []
        return fin

    def e_ListComp(self, e, st, fr, o):
        return self.comp(e, st, fr, o, 'list', [e.elt])

    def e_SetComp(self, e, st, fr, o):
        return self.comp(e, st, fr, o, 'set', [e.elt])

    def e_GeneratorExp(self, e, st, fr, o):
        res = []
        for x, t in self.comp(e, st, fr, o, 'gen', [e.elt]):
            sp = x.a('spent')
            if sp and t in sp:
                x = x.set(spent=sp - frozenset([t]))       # a new generator object
            res.append((x, t))
        return res

    def e_DictComp(self, e, st, fr, o):
        return self.comp(e, st, fr, o, 'dict', [e.key, e.value])

    # --------------------------------------------------------------- yield
    def e_Yield(self, e, st, fr, o):
        res = []
        vals = self.eval(e.value, st, fr, o) if e.value is not None else [(st, T.NONE)]
        sinks = self.__dict__.get('_ysinks') or []
        for x, t in vals:
            sink = next((sk for sk in reversed(sinks) if sk[0] is fr.func and sk[1] == fr.depth), None)
            if sink is not None:
                # the generator is being run by a `for` loop (or a `with`) of its caller: the body is executed here
                for y in (sink[2](x, t, o) if len(sink) > 3 else sink[2](x, t)):
                    res.append((y, T.NONE))
                continue
            y = self.an.on_yield(self, e, t, x, fr)
            if y is not None:
                res.append((y, ('unk', 'sent')))
        return res

    def run_generator(self, it, x, fr, o, node, on_item):
        """walk the body of the package generator `it` (a ('gen', qualname, bindings) term) in a callee frame,
        calling on_item(state, yielded term) -> [states] at each of its yields; returns the final states or None"""
        f = self.prog.funcs.get(it[1])
        if f is None or not f.is_generator or fr.depth >= self.an.max_inline or f.qualname in fr.stack:
            return None
        sinks = self.__dict__.setdefault('_ysinks', [])
        sinks.append((f, fr.depth + 1, on_item))
        try:
            res = self.inline(f, None, (), (), None, x, fr, o, node, bindings=it[2])
        finally:
            sinks.pop()
        return [y for y, _v in res]

    def _for_over_gen(self, s, it, x, fr, o):
        """`for v in self._private_generator(...): body` -- the generator's body is walked in a callee frame, and
        at each of its yields the loop body is executed (in the caller's frame) with v bound to what is yielded.
        Only for bodies without break / else; returns the states that leave the loop, or None"""
        f = self.prog.funcs.get(it[1])
        if f is None or not f.is_generator or s.orelse or fr.depth >= self.an.max_inline or f.qualname in fr.stack \
                or not (f.name.startswith('_') and not f.name.startswith('__')) \
                or any(isinstance(n, ast.Break) for b in s.body for n in ast.walk(b)) \
                or not self.an.want_inline_gen(self, f, fr):
            return None
        caller = fr

        def sink(y, val):
            out = []
            for b in self.assign(s.target, val, y, caller, o, s):
                r = self.exec_block(s.body, [b], caller)
                out += r.nxt + r.cont
                o.ret += r.ret
                o.exc += r.exc
            return out
        sinks = self.__dict__.setdefault('_ysinks', [])
        sinks.append((f, fr.depth + 1, sink))
        try:
            res = self.inline(f, None, (), (), None, x, fr, o, s, bindings=it[2])
        finally:
            sinks.pop()
        return [y for y, _v in res]

    def _yield_loop(self, e):
        """`yield from (elt for x in it if c)` and `yield from filter(f, it)` are the loops
        `for x in it: if c: yield elt` / `for x in it: if f(x): yield x`; the equivalent statement
        is built once per node, so that the rules see a yield under its path conditions"""
        cache = self.__dict__.setdefault('_yl_cache', {})
        if id(e) in cache:
            return cache[id(e)]
        v = e.value
        synth = None
        if isinstance(v, (ast.GeneratorExp, ast.ListComp, ast.SetComp)):
            body = [ast.Expr(value=ast.Yield(value=v.elt))]
            for g in reversed(v.generators):
                if g.is_async:
                    body = None
                    break
                if g.ifs:
                    test = g.ifs[0] if len(g.ifs) == 1 else ast.BoolOp(op=ast.And(), values=list(g.ifs))
                    body = [ast.If(test=test, body=body, orelse=[])]
                body = [ast.For(target=g.target, iter=g.iter, body=body, orelse=[])]
            synth = body[0] if body else None
        elif isinstance(v, ast.Call) and (dotted(v.func) or '').endswith('chain.from_iterable') and len(v.args) == 1 \
                and not v.keywords:
            # yield from chain.from_iterable(f(x) for x in X)  is  for x in X: yield from f(x)
            a = v.args[0]
            if isinstance(a, (ast.GeneratorExp, ast.ListComp)):
                body = [ast.Expr(value=ast.YieldFrom(value=a.elt))]
                for g in reversed(a.generators):
                    if g.ifs:
                        test = g.ifs[0] if len(g.ifs) == 1 else ast.BoolOp(op=ast.And(), values=list(g.ifs))
                        body = [ast.If(test=test, body=body, orelse=[])]
                    body = [ast.For(target=g.target, iter=g.iter, body=body, orelse=[])]
                synth = body[0]
            else:
                var = '_chained_%d_%d' % (v.lineno, v.col_offset)
                synth = ast.For(target=ast.Name(id=var, ctx=ast.Store()), iter=a, orelse=[],
                                body=[ast.Expr(value=ast.YieldFrom(value=ast.Name(id=var, ctx=ast.Load())))])
        elif isinstance(v, ast.Call) and isinstance(v.func, ast.Name) and v.func.id == 'filter' \
                and len(v.args) == 2 and not v.keywords and not isinstance(v.args[0], ast.Constant):
            var = '_filtered_%d_%d' % (v.lineno, v.col_offset)
            test = ast.Call(func=v.args[0], args=[ast.Name(id=var, ctx=ast.Load())], keywords=[])
            synth = ast.For(target=ast.Name(id=var, ctx=ast.Store()), iter=v.args[1], orelse=[],
                            body=[ast.If(test=test, orelse=[],
                                         body=[ast.Expr(value=ast.Yield(value=ast.Name(id=var, ctx=ast.Load())))])])
        if synth is not None:
            for n in ast.walk(synth):
                if not hasattr(n, 'lineno'):
                    ast.copy_location(n, v)
                for c in ast.iter_child_nodes(n):
                    if not hasattr(c, '_parent') or isinstance(c, (ast.For, ast.If, ast.Expr, ast.Yield, ast.YieldFrom)):
                        try:
                            c._parent = n
                        except AttributeError:
                            pass
            synth._parent = getattr(e, '_parent', None)
            ast.fix_missing_locations(synth)
        cache[id(e)] = synth
        return synth

    def e_YieldFrom(self, e, st, fr, o):
        res = []
        synth = self._yield_loop(e)
        if synth is not None:
            r = self.x_For(synth, st, fr)
            o.exc += r.exc
            o.ret += r.ret
            return [(y, ('unk', 'yieldfrom')) for y in r.nxt]
        for x, t in self.eval(e.value, st, fr, o):
            if t[0] == 'gen':
                f = self.prog.funcs.get(t[1])
                if f is not None and fr.depth < self.an.max_inline and f.qualname not in fr.stack \
                        and self.an.want_inline_gen(self, f, fr):
                    # what the delegate yields goes where the yields of this generator go (a for loop of the caller,
                    # a "".join(...) that collects them)
                    sinks = self.__dict__.setdefault('_ysinks', [])
                    mine = next((sk for sk in reversed(sinks) if sk[0] is fr.func and sk[1] == fr.depth), None)
                    if mine is not None:
                        sinks.append((f, fr.depth + 1) + tuple(mine[2:]))
                    try:
                        for y, _ in self.inline(f, None, (), (), None, x, fr, o, e, bindings=t[2]):
                            res.append((y, ('unk', 'yieldfrom')))
                    finally:
                        if mine is not None:
                            sinks.pop()
                    continue
            y = self.an.on_yield(self, e, ('star', t), x, fr)
            if y is not None:
                res.append((y, ('unk', 'yieldfrom')))
        return res

    # --------------------------------------------------------------- calls
    def e_Call(self, e, st, fr, o):
        res = []
        kwnodes = [k.value for k in e.keywords]
        for x, ts in self.eval_seq([e.func] + list(e.args) + kwnodes, st, fr, o):
            fterm = ts[0]
            args = tuple(ts[1:1 + len(e.args)])
            if any(a[0] == 'star' and a[1][0] in ('tuple', 'list') for a in args):
                # f(*(a, b)) is f(a, b): a known argument tuple is spliced (varargs handed on by a helper)
                flat = []
                for a in args:
                    if a[0] == 'star' and a[1][0] in ('tuple', 'list'):
                        flat.extend(a[1][1])
                    else:
                        flat.append(a)
                args = tuple(flat)
            kws = tuple((k.arg or '**', t) for k, t in zip(e.keywords, ts[1 + len(e.args):]))
            res += self.call(e, fterm, args, kws, x, fr, o)
        return res

    def call(self, e, fterm, args, kws, st, fr, o):
        if fterm[0] == 'lam':
            # a lambda of the function being read (`lambda: tasks`), called while the frame that made it is alive
            ent = self.__dict__.get('_lams', {}).get(fterm)
            if ent is not None and not kws:
                node, dfr = ent
                a = node.args
                names = [x.arg for x in a.posonlyargs + a.args]
                if not a.vararg and not a.kwarg and not a.kwonlyargs and len(names) - len(a.defaults) <= len(args) <= len(names) \
                        and any(k[0] == dfr.fid for k in st.vars):
                    y = st
                    for n, v in zip(names, args):
                        y = y.with_var(dfr.fid, n, v)
                    if len(args) == len(names):
                        return self.eval(node.body, y, dfr, o)
            return [(st, T.mk(('unk', 'lambda-call')))]
        if fterm[0] == 'ifexp':
            # f = a if c else b ; f(x)  -- call whichever the path condition selects
            res = []
            for val, sub in ((True, fterm[2]), (False, fterm[3])):
                y = self.branch(e, fterm[1], val, st, fr)
                if y is not None:
                    res += self.call(e, sub, args, kws, y, fr, o)
            return res
        if fterm[0] == 'builtin' and fterm[1] == 'next' and len(args) == 2 and not kws and args[0][0] == 'gen':
            # next(self._candidates(), default): the first thing the package generator yields, or the default
            hits = []
            scratch = Out()
            ends = self.run_generator(args[0], st, fr, scratch, e, lambda y, val: (hits.append((y, val)), [])[1])
            if ends is not None and not scratch.exc:
                return hits + [(y, args[1]) for y in ends]
        if fterm[0] == 'builtin' and fterm[1] == 'next' and len(args) == 2 and not kws \
                and args[0][0] == 'comp' and len(args[0]) == 4 and len(args[0][3]) == 1:
            # next((e(x) for x in S if c(x)), default): the first element that qualifies, or the default
            c = T.flatten_comp(T.mk(args[0]))
            key, it, conds = c[3][0]
            if it[0] in ('tuple', 'list') and all(isinstance(x, tuple) for x in it[1]):
                # a literal table: the elements are tried in order
                elem = T.mk(('elem', it, key))
                res = []
                cur = st
                for item in it[1]:
                    if cur is None:
                        break
                    cj = [_simplify_items(T.replace(cd, elem, item)) for cd in conds]
                    ej = _simplify_items(T.replace(c[2], elem, item))
                    hit = cur
                    for cd in cj:
                        hit = self.branch(e, T.mk(cd), True, hit, fr) if hit is not None else None
                    if hit is not None:
                        res.append((hit, T.mk(ej)))
                    if len(cj) == 1:
                        cur = self.branch(e, T.mk(cj[0]), False, cur, fr)
                    elif not cj:
                        cur = None
                if cur is not None:
                    res.append((cur.note(self.where(e, fr), "next(): no entry of the table qualifies"), args[1]))
                return res
            lits = []
            for cd in conds:
                pol = True
                while cd[0] == 'unop' and cd[1] == 'not':
                    cd, pol = cd[2], not pol
                lits.append((T.mk(cd), pol))
            res = []
            found = st
            for cd, pol in lits:
                found = found.assume(cd, pol) if found is not None else None
            if found is not None:
                found = found.assume(('exists', it, key, frozenset({frozenset(lits)})), True) if lits else found
            if found is not None:
                res.append((found.note(self.where(e, fr), "next(): an element qualifies"), c[2]))
            none = st.assume(('forall', it, key, frozenset(frozenset({(cd, not pol)}) for cd, pol in lits)), True) \
                if lits else st
            if none is not None:
                res.append((none.note(self.where(e, fr), "next(): no element qualifies"), args[1]))
            return res
        if fterm[0] == 'call' and fterm[1] in ('functools.partial', 'partial') and fterm[2]:
            # functools.partial(f, a, k=v)(c)  is  f(a, c, k=v)
            return self.call(e, fterm[2][0], tuple(fterm[2][1:]) + tuple(args), tuple(fterm[3]) + tuple(kws),
                             st, fr, o)
        self.calls_seen += 1
        r = self.an.on_call(self, e, fterm, args, kws, st, fr)
        if r is not None:
            return self._split(r, o, e)
        return self.call_generic(e, fterm, args, kws, st, fr, o)

    def call_generic(self, e, fterm, args, kws, st, fr, o=None):
        """what a call does when the analysis has nothing to say about it"""
        if o is None:
            o = Out()
        # local collection mutators
        if isinstance(e.func, ast.Attribute) and isinstance(e.func.value, ast.Name):
            nm = e.func.value.id
            cur = st.var(fr.fid, nm)
            if cur is not None and nm != 'self' and cur[0] not in ('var', 'new', 'attr', 'class', 'mod', 'elem'):
                m = e.func.attr
                if m in ADDERS and len(args) == 1:
                    item = self.conditioned(('single', args[0]), st, fr)
                    return [(st.with_var(fr.fid, nm, T.union(cur, item)), T.NONE)]
                if m in EXTENDERS and len(args) == 1:
                    item = self.conditioned(args[0], st, fr)
                    return [(st.with_var(fr.fid, nm, T.union(cur, item)), T.NONE)]
                if m in SCRAMBLERS:
                    return [(st.with_var(fr.fid, nm, T.cap(('mutated', cur, m, args), nm)), ('unk', m))]
                if m == 'copy' and not args:
                    return [(st, cur)]
        if fterm[0] == 'attr' and fterm[2] == 'format' and fterm[1][0] == 'const' and isinstance(fterm[1][1], str) \
                and not kws:
            parts = _format_parts(fterm[1][1], args)
            if parts is not None:
                return [(st, T.cap(('fmt', parts), 'fmt'))]
        callee, recv, kind = self.resolve(fterm, fr, e)
        if kind == 'new':
            obj = T.mk(('new', callee, args, kws))
            cls = self.prog.classes.get(callee) if isinstance(callee, str) else None
            init = self.prog.supplier(cls, '__init__') if cls is not None else None
            if cls is not None and cls.name.startswith('_') and init is not None and fr.depth < self.an.max_inline \
                    and init.qualname not in fr.stack:
                # a small helper object local to the package: its constructor is walked, so that what it stores
                # in the new object can be read back (the object is fresh: nothing else refers to it)
                return [(y, obj) for y, _v in self.inline(init, obj, args, kws, fterm, st, fr, o, e)]
            if cls is not None and init is None and _is_dataclass(cls):
                # a record: the synthesised constructor stores each argument in the field of the same rank / name
                fields = _dataclass_fields(cls)
                vals = dict(zip([n for n, _d in fields], args))
                vals.update({k: v for k, v in kws if k is not None})
                y = st
                ok = len(args) <= len(fields) and all(k in dict(fields) for k in vals)
                for name, dflt in fields:
                    if name in vals:
                        v = vals[name]
                    elif dflt is not None:
                        rs = self.eval(dflt, y, fr, o)
                        if len(rs) != 1:
                            ok = False
                            break
                        y, v = rs[0]
                    else:
                        ok = False
                        break
                    y = y.with_var(HEAP, (obj, name), v)
                if ok:
                    return [(y, obj)]
            return [(st, obj)]
        if kind == 'ext' and callee in ('types.SimpleNamespace', 'SimpleNamespace') and not args \
                and all(k not in (None, '**') for k, _v in kws) and getattr(e, 'lineno', None) is not None:
            # a record made on the spot: its fields are read and written like those of a helper object
            obj = T.mk(('new', 'SimpleNamespace@%d:%d' % (e.lineno, e.col_offset), (), ()))
            y = st
            for k, v in kws:
                y = y.with_var(HEAP, (obj, k), v)
            return [(y, obj)]
        if kind == 'ext' and callee == 'type' and len(args) == 1 and not kws and args[0][0] == 'exc':
            return [(st, T.mk(('exctype', args[0][1])))]
        if kind == 'ext' and callee == 'issubclass' and len(args) == 2 and not kws and args[0][0] == 'exctype':
            names = [x[1] for x in (args[1][1] if args[1][0] == 'tuple' else [args[1]])
                     if isinstance(x, tuple) and len(x) > 1 and isinstance(x[1], str)]
            cs = [self._catch1(n, args[0][1]) for n in names]
            if names and 'yes' in cs:
                return [(st, T.TRUE)]
            if names and all(c == 'no' for c in cs) and len(names) == len(args[1][1] if args[1][0] == 'tuple' else [1]):
                return [(st, T.FALSE)]
            return [(st, T.mk(('unk', 'issubclass')))]
        if kind == 'ext' and callee in ('str', 'format', 'repr') and len(args) == 1 and not kws and args[0][0] == 'new' \
                and isinstance(args[0][1], str) and args[0][1] in self.prog.classes:
            g = self.prog.supplier(self.prog.classes[args[0][1]], '__repr__' if callee == 'repr' else '__str__')
            if g is not None and fr.depth < self.an.max_inline and g.qualname not in fr.stack:
                return self.inline(g, args[0], (), (), fterm, st, fr, o, e)
        if kind == 'ext':
            short = callee.split('.')[-1]
            if callee == 'getattr' and len(args) >= 2 and args[1][0] == 'const' and isinstance(args[1][1], str):
                r = self.an.on_attr(self, e, args[0], args[1][1], st, fr)
                return [(st, r if r is not None else T.cap(('attr', args[0], args[1][1]), 'getattr'))]
            if short in ('set', 'list', 'BestSet', 'tuple', 'frozenset', 'dict', 'OrderedSet') and not args and not kws:
                return [(st, EMPTY)]
            if short in ('map', 'starmap') and len(args) == 2 and not kws and args[0][0] in ('attr', 'func', 'closure') \
                    and getattr(e, 'lineno', None) is not None:
                # map(f, S) is (f(x) for x in S); starmap(f, S) is (f(*x) for x in S)
                g, _recv, gk = self.resolve(args[0], fr, e)
                if gk == 'func' and not g.is_async and not g.is_generator:
                    key = T.mk(('comp', e.lineno, e.col_offset, fr.fid))
                    elem = T.mk(('elem', args[1], key))
                    if short == 'map':
                        a2 = (elem,)
                    else:
                        n_par = len(g.params) - (0 if (g.is_static or g.cls is None) else 1)
                        # the receiver is explicit when the function is reached through its class
                        a2 = tuple(T.mk(('item', elem, i)) for i in range(max(n_par, 0)))
                    out = []
                    for y, v in self.call(e, args[0], a2, (), st, fr, o):
                        out.append((y, T.cap(('comp', 'gen', v, ((key, args[1], ()),)), 'comp')))
                    if out:
                        return out
            if short == 'sum' and len(args) == 1 and not kws and args[0][0] == 'comp' and len(args[0]) == 4 \
                    and args[0][2] == ('const', 1):
                # sum(1 for x in S if c(x)) counts the elements that qualify
                c = args[0]
                counted = ('comp', 'list', ('elem', c[3][-1][1], c[3][-1][0]), c[3]) if len(c[3]) == 1 else c
                return [(st, T.cap(('call', 'len', (counted,), ()), 'call'))]
            if short in ('set', 'list', 'tuple', 'BestSet', 'frozenset', 'sorted', 'OrderedSet') and len(args) == 1:
                return [(st, ('call', 'sorted' if short == 'sorted' else 'set' if short in ('BestSet', 'OrderedSet', 'frozenset') else short, args, kws))]
            return [(st, T.cap(('call', callee, args, kws), 'call'))]
        if kind == 'func':
            f = callee
            if f.is_async or f.is_generator:
                b = self.bind(f, recv, args, kws, fterm)
                if fterm[0] == 'closure' and fterm[2]:
                    d = dict(fterm[2])
                    d.update(dict(b))
                    b = tuple(sorted(d.items()))
                return [(st, ('coro' if f.is_async else 'gen', f.qualname, b))]
            if self.can_inline(f, fr):
                return self.inline(f, recv, args, kws, fterm, st, fr, o, e)
            if recv is not None:
                return [(st, T.cap(('mcall', recv, f.name, args, kws), 'mcall'))]
            return [(st, T.cap(('call', f.qualname, args, kws), 'call'))]
        # symbolic method call
        if fterm[0] == 'attr':
            return [(st, T.cap(('mcall', fterm[1], fterm[2], args, kws), 'mcall'))]
        return [(st, T.cap(('call', T.show(fterm, 2), args, kws), 'call'))]

    def conditioned(self, item, st, fr):
        """an accumulation made inside a loop body under a condition on the loop
        element, or in a loop that may stop early, is not "for every element":
        wrap it so that provenance rules can tell"""
        elems = [c.elem for c in self.loopctx if c.kind == 'for' and c.elem is not None]
        if not elems:
            return item
        iters = [c.iter for c in self.loopctx if c.kind == 'for']
        conds = frozenset((k, v) for k, v in st.facts.items()
                          if any(T.contains(k, el) for el in elems) and not (v and k in iters))
        partial = False
        for c in self.loopctx:
            if c.kind == 'for' and _may_stop_early(c.node):
                partial = True
        if conds or partial:
            return T.mk(('when', conds, partial, item))
        return item

    def _split(self, results, o, node):
        out = []
        for r in results:
            if len(r) == 3 and r[2] is not None:
                o.exc.append((r[0], r[2], node))
            else:
                out.append((r[0], r[1]))
        return out

    def can_inline(self, f, fr):
        if fr.depth >= self.an.max_inline:
            if f.qualname not in fr.stack and self.an.want_inline(self, f, fr):
                # a function the analysis wants to walk, met too deep: what it does is lost
                self.__dict__.setdefault('cutoffs', set()).add(f.qualname)
            return False
        if f.qualname in fr.stack:
            return False
        return self.an.want_inline(self, f, fr)

    def resolve(self, fterm, fr, node=None):
        """-> (callee, recv_term, kind) with kind in new/ext/func/sym"""
        k = fterm[0]
        if k == 'class':
            return fterm[1], None, 'new'
        if k in ('mod', 'builtin'):
            return fterm[1], None, 'ext'
        if k == 'func':
            return self.prog.funcs[fterm[1]], None, 'func'
        if k == 'closure':
            f = self.prog.funcs.get(fterm[1])
            if f is not None:
                return f, None, 'func'
        if k == 'attr':
            base, m = fterm[1], fterm[2]
            if base[0] == 'class':
                f = self.prog.supplier(base[1], m)
                if f is not None:
                    return f, 'explicit', 'func'
                return None, None, 'sym'
            if base[0] == 'call' and base[1] == 'super' and fr.func.cls is not None:
                mro = fr.func.cls.mro
                for c in mro[1:]:
                    if m in c.methods:
                        return c.methods[m], fr.self_term, 'func'
                return None, None, 'sym'
            if base[0] == 'new':
                f = self.prog.supplier(base[1], m)
                if f is not None:
                    return f, base, 'func'
                return None, None, 'sym'
            if fr.self_term is not None and base == fr.self_term and fr.func.cls is not None:
                if getattr(self, 'root_cls', None) is not None and self.self_class(fr) is self.root_cls:
                    f1 = self.prog.supplier(self.root_cls, m)       # an instance of exactly that class
                    if f1 is not None:
                        return f1, base, 'func'
                cands = self.prog.dispatch_set(self.self_class(fr), m)
                if len(cands) == 1:
                    return cands[0], base, 'func'
                return None, None, 'sym'
            if base[0] == 'mod':
                return base[1] + '.' + m, None, 'ext'
            cands = []
            for c in self.prog.classes.values():
                f = self.prog.supplier(c, m)
                if f is not None and f not in cands:
                    cands.append(f)
            if len(cands) == 1 and not _is_collection_method(m):
                return cands[0], base, 'func'
        return None, None, 'sym'

    def self_class(self, fr):
        # the exploration may have been asked for instances of one given class (template methods whose hooks a
        # subclass overrides): `self` of the root activation, and of what is inlined on it, is of that class
        rc = getattr(self, 'root_cls', None)
        if rc is not None and fr.self_term == getattr(self.root, 'self_term', None) and fr.func.cls in rc.mro:
            return rc
        return fr.func.cls

    def bind(self, f, recv, args, kws, fterm=None):
        params = list(f.params)
        b = {}
        args = list(args)
        if f.cls is not None and not f.is_static and params and f.parent is None:
            # (a function nested in a method takes no receiver)
            if recv == 'explicit':
                if args:
                    b[params[0]] = args.pop(0)
                else:
                    b[params[0]] = ('unk', 'self')
            elif recv is not None:
                b[params[0]] = recv
            else:
                b[params[0]] = ('unk', 'self')
            params = params[1:]
        flat = []
        for a in args:
            flat.append(a)
        for p in params:
            if flat:
                a = flat.pop(0)
                if a[0] == 'star':
                    b[p] = ('unk', 'star')
                    flat = []
                else:
                    b[p] = a
        if f.vararg:
            b[f.vararg] = ('tuple', tuple(flat))
        for n, v in kws:
            if n in f.params or n in f.kwonly:
                b[n] = v
            elif f.kwarg:
                b.setdefault(f.kwarg, ('unk', 'kwargs'))
        for p, d in f.defaults().items():
            if p not in b:
                if isinstance(d, ast.Constant) and (d.value is None or isinstance(d.value, (bool, int, float, str))):
                    b[p] = ('const', d.value)
                else:
                    b[p] = ('unk', 'default')
        for p in list(f.params) + list(f.kwonly):
            b.setdefault(p, ('unk', p))
        if f.kwarg:
            b.setdefault(f.kwarg, ('unk', 'kwargs'))
        return tuple(sorted(b.items()))

    def inline(self, f, recv, args, kws, fterm, st, fr, o, node, bindings=None, closure=None):
        """walk the body of f in a callee frame; returns [(St, term)]"""
        b = bindings if bindings is not None else self.bind(f, recv, args, kws, fterm)
        fid = T.mk(fr.fid + ((getattr(node, 'lineno', 0), getattr(node, 'col_offset', 0), f.qualname),))
        selft = None
        if f.cls is not None and not f.is_static and f.params and f.parent is None:
            selft = dict(b).get(f.params[0])
        x = st
        if fterm is not None and fterm[0] == 'closure':
            for n, t in fterm[2]:
                x = x.with_var(fid, n, t)
                if n == 'self' and selft is None:
                    selft = t
        if closure:
            for n, t in closure:
                x = x.with_var(fid, n, t)
                if n == 'self' and selft is None:
                    selft = t
        for n, t in b:
            x = x.with_var(fid, n, t)
        nfr = Frame(fid, f, fr.depth + 1, selft, fr.stack + (f.qualname,), fr)
        self.inlined.add(f.qualname)
        x = x.note(self.where(node, fr), "enter %s" % f.qualname)
        r = self.exec_block(f.node.body, [x], nfr)
        res = []
        entry_facts = st.facts
        # a local collection handed to the callee and mutated there (`def step(self, acc): acc.add(x)`) is the
        # caller's object: what the callee added is copied back into the caller's variable
        outs = []
        call_args = node.args if isinstance(node, ast.Call) else None
        if isinstance(node, ast.Await) and isinstance(node.value, ast.Call):
            call_args = node.value.args
        if call_args and (bindings is None or isinstance(node, ast.Await)):
            ps = list(f.params)
            if f.cls is not None and not f.is_static and recv != 'explicit':
                ps = ps[1:]
            for pn, a in zip(ps, call_args):
                if isinstance(a, ast.Name) and st.var(fr.fid, a.id) is not None and a.id != 'self' \
                        and _mutates_param(f, pn, self.prog):
                    outs.append((pn, a.id))

        def leave(y):
            # facts learned inside the callee are local to it, except fold
            # summaries (forall/exists) and what the analysis asks to keep;
            # facts the callee invalidated stay invalidated
            for pn, cn in outs:
                v = y.var(fid, pn)
                if v is not None and v != y.var(fr.fid, cn):
                    y = y.with_var(fr.fid, cn, v)
            y = y.drop_frame(fid)
            keep = {}
            for k, v in y.facts.items():
                if k in entry_facts or k[0] in ('forall', 'exists') or self.an.keep_fact(self, f, k) \
                        or not self.an.drop_callee_facts:
                    keep[k] = v
            if len(keep) != len(y.facts):
                y = y._new(facts=keep)
            return y
        seen = set()
        for y in r.nxt:
            y = leave(y)
            if (y.key(), None) not in seen:
                seen.add((y.key(), None))
                res.append((y, T.NONE))
        for (y, t, _n) in r.ret:
            y = leave(y)
            if (y.key(), t) not in seen:
                seen.add((y.key(), t))
                res.append((y, t))
        for (y, kind, n) in r.exc:
            o.exc.append((leave(y), kind, n))
        if r.brk or r.cont:
            raise AnalysisError("break/continue escaped %s" % f.qualname)
        return res

    # -------------------------------------------------------------- awaits
    def e_Await(self, e, st, fr, o):
        res = []
        for x, t in self.eval(e.value, st, fr, o):
            r = self.an.on_await(self, e, t, x, fr)
            if r is not None:
                res += self._split(r, o, e)
                continue
            if t[0] == 'coro':
                f = self.prog.funcs.get(t[1])
                if f is not None and self.can_inline(f, fr):
                    res += self.inline(f, None, (), (), None, x, fr, o, e, bindings=t[2])
                    continue
            res += self._split(self.opaque_await(e, t, x, fr), o, e)
        return res

    def opaque_await(self, e, t, st, fr):
        out = []
        sus = self.an.suspends(self, t)
        usr = self.an.user_code(self, t)
        y = st
        if sus:
            # other tasks may run: heap-dependent facts do not survive
            y = st.forget(lambda s: T.is_attr(s) or s[0] == 'mcall')
            if self.an.gen_cancel:
                out.append((st.note(self.where(e, fr), "CancelledError delivered at await %s" % T.show(t, 3)),
                            None, ('Cancelled',)))
        if usr and self.an.gen_bodyexc:
            out.append((st.note(self.where(e, fr), "awaited user code raises: %s" % T.show(t, 3)),
                        None, ('BodyExc',)))
        if sus:
            y = self.an.on_suspend(self, e, t, y, fr) or y
        out.append((y, ('awaited', t), None))
        return out


# --------------------------------------------------------------- utilities
def _short(node, n=60):
    try:
        s = ast.unparse(node)
    except Exception:
        s = type(node).__name__
    s = " ".join(s.split())
    return s if len(s) <= n else s[:n - 1] + "…"


def _has_effects(e, allow_calls=False):
    for n in ast.walk(e):
        if isinstance(n, (ast.Await, ast.Yield, ast.YieldFrom, ast.NamedExpr)) or \
                (isinstance(n, ast.Call) and not allow_calls):
            return True
    return False


def _walk_stmts(body):
    """all nodes of a statement list, not entering nested defs"""
    stack = list(body)
    while stack:
        n = stack.pop()
        yield n
        for c in ast.iter_child_nodes(n):
            if isinstance(c, (ast.FunctionDef, ast.AsyncFunctionDef, ast.ClassDef, ast.Lambda)):
                continue
            stack.append(c)


def store_invalidates(obj, attr):
    """which attribute-read terms does `obj.attr = ...` invalidate?  A freshly
    created object (task, instance) aliases nothing but itself."""
    if obj[0] in ('task', 'new', 'coro'):
        return lambda s: T.is_attr(s, attr) and s[1] == obj
    return lambda s: T.is_attr(s, attr)


def _is_sized(t):
    """is truthiness of this collection term the same as non-emptiness?"""
    t0 = t[0]
    if t0 in ('attr', 'var', 'union', 'wdone', 'wpend', 'adone', 'apend', 'list', 'set', 'tuple'):
        return True
    if t0 == 'comp':
        return t[1] in ('list', 'set', 'dict')
    if t0 == 'call' and t[1] in ('list', 'set', 'tuple', 'BestSet', 'frozenset', 'sorted') and len(t[2]) == 1:
        return True
    return False


def _format_parts(tpl, args):
    """'a{}b{}'.format(x, y) -> ('a', x, 'b', y) as terms; None when the template is not a plain
    auto-numbered one"""
    import re
    t = tpl.replace('{{', '\x00').replace('}}', '\x01')
    pieces = re.split(r'(\{[^{}]*\})', t)
    out = []
    i = 0
    for pc in pieces:
        if pc.startswith('{') and pc.endswith('}'):
            if pc != '{}' or i >= len(args):
                return None
            out.append(args[i])
            i += 1
        elif pc:
            out.append(T.mk(('const', pc.replace('\x00', '{').replace('\x01', '}'))))
    if i != len(args):
        return None
    return tuple(out)


def _replay_items(it):
    """[(element, conditions)] when `it` is a list built by appending single elements of one set-like collection
    under conditions, in a loop that ran to its end; else None"""
    if it[0] != 'union' or not it[1] or len(it[1]) > 4:
        return None
    out = []
    for item in it[1]:
        conds = frozenset()
        if item[0] == 'when':
            if item[2]:
                return None
            conds, item = item[1], item[3]
        if item[0] != 'single' or item[1][0] != 'elem':
            return None
        src = item[1][1]
        while src[0] == 'call' and src[1] in ('list', 'tuple', 'sorted') and len(src[2]) == 1:
            src = src[2][0]
        setlike = src[0] in ('union', 'wdone', 'wpend') or (src[0] == 'mcall' and src[2] in ('union', 'difference', 'intersection', 'copy')) \
            or (src[0] == 'call' and src[1] in ('set', 'frozenset')) or (src[0] == 'comp' and src[1] == 'set') \
            or (src[0] == 'attr' and src[2] in ('jobs', 'required', '_s_successors'))
        if not setlike:
            return None
        out.append((item[1], conds))
    return out


def _is_dataclass(cls):
    return any((dotted(d.func if isinstance(d, ast.Call) else d) or '').split('.')[-1] == 'dataclass'
               for d in cls.node.decorator_list)


def _dataclass_fields(cls):
    out = []
    for n in cls.node.body:
        if isinstance(n, ast.AnnAssign) and isinstance(n.target, ast.Name) and \
                not (dotted(n.annotation) or '').endswith('ClassVar'):
            out.append((n.target.id, n.value))
    return out


def _may_stop_early(loop):
    """does the loop contain a break of its own, or a return?"""
    stack = list(loop.body)
    while stack:
        n = stack.pop()
        if isinstance(n, ast.Return):
            return True
        if isinstance(n, ast.Break):
            return True
        if isinstance(n, (ast.For, ast.AsyncFor, ast.While)):
            # a break inside a nested loop belongs to that loop; a return does not
            for m in ast.walk(n):
                if isinstance(m, ast.Return):
                    return True
            continue
        if isinstance(n, (ast.FunctionDef, ast.AsyncFunctionDef, ast.ClassDef, ast.Lambda)):
            continue
        stack.extend(ast.iter_child_nodes(n))
    return False


def _is_none_const(e):
    if isinstance(e, ast.Constant) and e.value is None:
        return True
    # an arm that takes the first / last element of something: legal only under the condition of the expression
    for n in ast.walk(e):
        if isinstance(n, ast.Subscript) and isinstance(n.slice, ast.Constant) and n.slice.value in (0, -1):
            return True
        if isinstance(n, ast.Subscript) and isinstance(n.slice, ast.UnaryOp) and isinstance(n.slice.operand, ast.Constant):
            return True
    return False


def _simplify_items(t):
    """('item', ('tuple', (a, b)), 0) -> a, recursively"""
    if not isinstance(t, tuple):
        return t
    if len(t) == 3 and t[0] == 'item' and isinstance(t[1], tuple) and t[1] and t[1][0] in ('tuple', 'list') \
            and isinstance(t[2], int) and t[2] < len(t[1][1]):
        return _simplify_items(t[1][1][t[2]])
    return tuple(_simplify_items(x) if isinstance(x, tuple) else x for x in t)


def _one_shot(t):
    """an iterator that can be run through only once: a generator expression, a generator object, the lazy
    builtins"""
    if t[0] == 'comp' and t[1] == 'gen':
        return True
    if t[0] == 'call' and t[1] in ('filter', 'map', 'zip', 'iter', 'reversed', 'enumerate'):
        return True
    return False


def _mutates_param(f, pname, prog=None, depth=0):
    """f mutates the collection it receives as `pname` in place (method calls only: never rebinds the name) - itself,
    or by handing it as it is to another method of its class that does"""
    c = f.__dict__.setdefault('_mutp', {}) if hasattr(f, '__dict__') else {}
    if pname in c:
        return c[pname]
    mut = reb = False
    for n in ast.walk(f.node):
        if isinstance(n, ast.Name) and n.id == pname and isinstance(n.ctx, (ast.Store, ast.Del)):
            reb = True
        if isinstance(n, ast.Call) and isinstance(n.func, ast.Attribute) and isinstance(n.func.value, ast.Name) \
                and n.func.value.id == pname and (n.func.attr in ADDERS or n.func.attr in EXTENDERS
                                                  or n.func.attr in SCRAMBLERS):
            mut = True
        if prog is not None and depth < 3 and f.cls is not None and isinstance(n, ast.Call) \
                and isinstance(n.func, ast.Attribute) and isinstance(n.func.value, ast.Name) and n.func.value.id == 'self':
            g = prog.supplier(f.cls, n.func.attr)
            if g is not None and g is not f:
                ps = list(g.params)[(0 if g.is_static else 1):]
                for pn, a in zip(ps, n.args):
                    if isinstance(a, ast.Name) and a.id == pname and _mutates_param(g, pn, prog, depth + 1):
                        mut = True
    c[pname] = mut and not reb
    return c[pname]


def _is_collection_method(m):
    return m in ADDERS or m in EXTENDERS or m in SCRAMBLERS or m in (
        'copy', 'get', 'put', 'items', 'keys', 'values', 'format', 'join', 'replace',
        'cancel', 'done', 'result', 'exception', 'cancelled', 'encode', 'split')
