"""
E5 (part) -- truth tables of pure predicates.

A small evaluator for side-effect-free method bodies (return / if / boolean
operators / comparisons / attribute reads / calls to sibling pure methods and to
the Future accessors) over an *enumerated abstract domain*: every attribute of
`self` is given one of finitely many abstract values (None, sentinels such as
RES/EXC, abstract task objects in each life-cycle state ...).  The result is the
table of the predicate over the domain, which the rules compare with the table
the property states.  Anything outside the supported fragment is "inconclusive".
"""

import ast

from .index import AnalysisError, dotted


_MISSING = object()


class Inconclusive(Exception):
    pass


class Sentinel:
    def __init__(self, name, truthy=True):
        self.name = name
        self.truthy = truthy

    def __bool__(self):
        return self.truthy

    def __repr__(self):
        return self.name


class Obj:
    """abstract object: a bag of attributes; unknown attributes are inconclusive"""

    def __init__(self, kind, **attrs):
        self.kind = kind
        self.attrs = dict(attrs)

    def __repr__(self):
        return "<%s %s>" % (self.kind, self.attrs)


class Raised(Exception):
    def __init__(self, typename, value=None):
        self.typename = typename
        self.value = value


class _Return(Exception):
    def __init__(self, value):
        self.value = value


def finished_constant():
    """T5: the constant behind asyncio.futures._FINISHED, read from the stdlib source"""
    import os
    import sysconfig
    p = os.path.join(sysconfig.get_paths()['stdlib'], 'asyncio', 'base_futures.py')
    try:
        tree = ast.parse(open(p).read())
        for n in tree.body:
            if isinstance(n, ast.Assign) and isinstance(n.targets[0], ast.Name) \
                    and n.targets[0].id == '_FINISHED' and isinstance(n.value, ast.Constant):
                return n.value.value
    except OSError:
        pass
    return 'FINISHED'


def task(state, exc=None, res=None):
    return Obj('task', _state=state, _exception=exc, _result=res)


class Evaluator:
    def __init__(self, prog, cls, externals=None, max_depth=6):
        self.prog = prog
        self.cls = cls                   # ClassInfo used for self.method() dispatch
        self.externals = externals or {}
        self.max_depth = max_depth
        self.calls = []                  # (method name) evaluated, in order
        self.stores = []                 # (object kind, attribute) stored by the evaluated code

    # ------------------------------------------------------------------
    def call_method(self, name, selfobj, args=(), kwargs=None, depth=0):
        f = self.prog.supplier(self.cls, name)
        if f is None:
            raise Inconclusive("method %s not found" % name)
        return self.call_func(f, selfobj, args, kwargs or {}, depth)

    def call_func(self, f, selfobj, args, kwargs, depth):
        if depth > self.max_depth:
            raise Inconclusive("recursion too deep in %s" % f.qualname)
        if f.is_async or f.is_generator:
            raise Inconclusive("%s is not a plain function" % f.qualname)
        env = {}
        params = list(f.params)
        if f.cls is not None and not f.is_static:
            env[params[0]] = selfobj
            params = params[1:]
        for p, a in zip(params, args):
            env[p] = a
        for p, d in f.defaults().items():
            if p not in env:
                env[p] = self.expr(d, {}, depth)
        env.update(kwargs)
        self.calls.append(f.qualname)
        try:
            self.block(f.node.body, env, depth)
        except _Return as r:
            return r.value
        return None

    def block(self, stmts, env, depth):
        for s in stmts:
            self.stmt(s, env, depth)

    def stmt(self, s, env, depth):
        if isinstance(s, ast.Return):
            raise _Return(self.expr(s.value, env, depth) if s.value is not None else None)
        if isinstance(s, ast.Expr):
            if isinstance(s.value, ast.Constant):
                return
            self.expr(s.value, env, depth)
            return
        if isinstance(s, ast.If):
            if self.truth(self.expr(s.test, env, depth)):
                self.block(s.body, env, depth)
            else:
                self.block(s.orelse, env, depth)
            return
        if isinstance(s, ast.Assign) and len(s.targets) == 1 and isinstance(s.targets[0], ast.Name):
            env[s.targets[0].id] = self.expr(s.value, env, depth)
            return
        if isinstance(s, ast.Assign) and len(s.targets) == 1 and isinstance(s.targets[0], ast.Attribute):
            base = self.expr(s.targets[0].value, env, depth)
            if isinstance(base, Obj):
                base.attrs[s.targets[0].attr] = self.expr(s.value, env, depth)
                self.stores.append((base.kind, s.targets[0].attr))
                return
            raise Inconclusive("store to attribute of %r" % (base,))
        if isinstance(s, ast.Raise):
            if s.exc is None:
                raise Raised('reraise')
            v = s.exc
            if isinstance(v, ast.Call):
                raise Raised(dotted(v.func) or 'Exception')
            val = self.expr(v, env, depth)
            raise Raised('object', val)
        if isinstance(s, ast.Pass):
            return
        if isinstance(s, (ast.Import, ast.ImportFrom)):
            for a in s.names:
                env[a.asname or a.name.split('.')[0]] = Sentinel("module:" + a.name)
            return
        if isinstance(s, ast.For):
            it = self.expr(s.iter, env, depth)
            if not isinstance(it, (list, tuple, set, frozenset)):
                raise Inconclusive("loop over %r" % (it,))
            for x in it:
                if isinstance(s.target, ast.Name):
                    env[s.target.id] = x
                else:
                    raise Inconclusive("loop target")
                try:
                    self.block(s.body, env, depth)
                except _Continue:
                    continue
                except _Break:
                    break
            return
        if isinstance(s, ast.Continue):
            raise _Continue()
        if isinstance(s, ast.Break):
            raise _Break()
        if isinstance(s, ast.Match):
            from .desugar import match_as_ifs, Unsupported
            try:
                stmts = match_as_ifs(s)
            except Unsupported as e:
                raise Inconclusive("match statement (%s)" % e)
            self.block(stmts, env, depth)
            return
        raise Inconclusive("statement %s" % type(s).__name__)

    def truth(self, v):
        if isinstance(v, Obj):
            return True
        return bool(v)

    def expr(self, e, env, depth):
        if isinstance(e, ast.Constant):
            return e.value
        if isinstance(e, ast.Name):
            if e.id in env:
                return env[e.id]
            if e.id in self.externals:
                return self.externals[e.id]
            if e.id in ('True', 'False', 'None'):
                return {'True': True, 'False': False, 'None': None}[e.id]
            v = self.module_value(e.id, depth)
            if v is not _MISSING:
                return v
            raise Inconclusive("name %s" % e.id)
        if isinstance(e, ast.Attribute):
            d = dotted(e)
            if d in self.externals:
                return self.externals[d]
            if isinstance(e.value, ast.Name) and e.value.id in self.prog.classes and e.value.id not in env:
                # a member of an enumeration / a constant of a class of the package: one object, always the same
                c = self.prog.classes[e.value.id]
                if any(isinstance(n, (ast.Assign, ast.AnnAssign)) and any(
                        isinstance(t, ast.Name) and t.id == e.attr
                        for t in (n.targets if isinstance(n, ast.Assign) else [n.target])) for n in c.node.body):
                    return self.externals.setdefault(d, Sentinel(d))
            base = self.expr(e.value, env, depth)
            if isinstance(base, Obj):
                if e.attr in base.attrs:
                    return base.attrs[e.attr]
                raise Inconclusive("attribute %s of %s" % (e.attr, base.kind))
            if base is None:
                raise Raised('AttributeError')
            raise Inconclusive("attribute %s of %r" % (e.attr, base))
        if isinstance(e, ast.BoolOp):
            val = None
            for sub in e.values:
                val = self.expr(sub, env, depth)
                if isinstance(e.op, ast.And) and not self.truth(val):
                    return val
                if isinstance(e.op, ast.Or) and self.truth(val):
                    return val
            return val
        if isinstance(e, ast.UnaryOp) and isinstance(e.op, ast.Not):
            return not self.truth(self.expr(e.operand, env, depth))
        if isinstance(e, ast.IfExp):
            if self.truth(self.expr(e.test, env, depth)):
                return self.expr(e.body, env, depth)
            return self.expr(e.orelse, env, depth)
        if isinstance(e, ast.Compare):
            left = self.expr(e.left, env, depth)
            for op, c in zip(e.ops, e.comparators):
                right = self.expr(c, env, depth)
                if isinstance(op, ast.Is):
                    ok = left is right
                elif isinstance(op, ast.IsNot):
                    ok = left is not right
                elif isinstance(op, ast.Eq):
                    ok = self.eq(left, right)
                elif isinstance(op, ast.NotEq):
                    ok = not self.eq(left, right)
                elif isinstance(op, ast.In):
                    ok = any(self.eq(left, x) for x in right)
                elif isinstance(op, ast.NotIn):
                    ok = not any(self.eq(left, x) for x in right)
                else:
                    raise Inconclusive("comparison %s" % type(op).__name__)
                if not ok:
                    return False
                left = right
            return True
        if isinstance(e, (ast.Tuple, ast.List)):
            return [self.expr(x, env, depth) for x in e.elts]
        if isinstance(e, (ast.GeneratorExp, ast.ListComp, ast.SetComp)):
            return self.comp(e, env, depth)
        if isinstance(e, ast.JoinedStr):
            return Sentinel("fmt:" + " ".join(ast.unparse(e).split()))
        if isinstance(e, ast.Call):
            return self.call(e, env, depth)
        if isinstance(e, ast.NamedExpr) and isinstance(e.target, ast.Name):
            v = self.expr(e.value, env, depth)
            env[e.target.id] = v
            return v
        raise Inconclusive("expression %s" % type(e).__name__)

    def module_value(self, name, depth):
        """a module-level name of the package bound exactly once, to an expression this evaluator can read
        (`_TASK_OVER = asyncio.futures._FINISHED`)"""
        cache = self.__dict__.setdefault('_modvals', {})
        if name in cache:
            return cache[name]
        found = []
        for mod in self.prog.modules.values():
            for n in mod.tree.body:
                if isinstance(n, (ast.Assign, ast.AnnAssign)) and n.value is not None and any(
                        isinstance(t, ast.Name) and t.id == name
                        for t in (n.targets if isinstance(n, ast.Assign) else [n.target])):
                    found.append(n.value)
        val = _MISSING
        if len(found) == 1 and depth < self.max_depth:
            cache[name] = _MISSING
            try:
                val = self.expr(found[0], {}, depth + 1)
            except (Inconclusive, Raised):
                val = _MISSING
        cache[name] = val
        return val

    def comp(self, e, env, depth):
        out = []

        def rec(i, env2):
            if i == len(e.generators):
                out.append(self.expr(e.elt, env2, depth))
                return
            g = e.generators[i]
            it = self.expr(g.iter, env2, depth)
            if not isinstance(it, (list, tuple, set, frozenset)):
                raise Inconclusive("comprehension over %r" % (it,))
            for x in it:
                env3 = dict(env2)
                if isinstance(g.target, ast.Name):
                    env3[g.target.id] = x
                else:
                    raise Inconclusive("comprehension target")
                if all(self.truth(self.expr(c, env3, depth)) for c in g.ifs):
                    rec(i + 1, env3)
        rec(0, env)
        return out

    def eq(self, a, b):
        if isinstance(a, (Obj, Sentinel)) or isinstance(b, (Obj, Sentinel)):
            return a is b
        return a == b

    def call(self, e, env, depth):
        f = e.func
        args = [self.expr(a, env, depth) for a in e.args]
        kwargs = {k.arg: self.expr(k.value, env, depth) for k in e.keywords if k.arg}
        if isinstance(f, ast.Attribute):
            # string formatting: opaque text
            if f.attr == 'format':
                return Sentinel("fmt:" + " ".join(ast.unparse(e).split()))
            base = self.expr(f.value, env, depth)
            if isinstance(base, Obj) and base.kind == 'task':
                return self.task_method(base, f.attr)
            if isinstance(base, Obj) and base.kind in ('job', 'sched'):
                cls = base.attrs.get('__class__', self.cls)
                saved = self.cls
                self.cls = cls
                try:
                    return self.call_method(f.attr, base, args, kwargs, depth + 1)
                finally:
                    self.cls = saved
            if isinstance(base, Sentinel) and base.name.startswith('class:'):
                cn = base.name[6:]
                fn = self.prog.supplier(cn, f.attr)
                if fn is not None and args:
                    return self.call_func(fn, args[0], args[1:], kwargs, depth + 1)
            raise Inconclusive("call of %s on %r" % (f.attr, base))
        if isinstance(f, ast.Name):
            if f.id == 'isinstance' and len(args) == 2:
                o, c = args
                if isinstance(o, Obj) and isinstance(c, Sentinel) and c.name.startswith('class:'):
                    k = o.attrs.get('__class__')
                    if k is None:
                        raise Inconclusive("isinstance on untyped object")
                    tgt = self.prog.classes.get(c.name[6:])
                    return tgt in k.mro
                if not isinstance(o, Obj):
                    return False
                raise Inconclusive("isinstance")
            if f.id in ('bool',) and len(args) == 1:
                return self.truth(args[0])
            if f.id in ('all', 'any') and len(args) == 1 and isinstance(args[0], (list, tuple)):
                return (all if f.id == 'all' else any)(self.truth(x) for x in args[0])
            if f.id == 'len' and len(args) == 1 and isinstance(args[0], (list, tuple, set, frozenset)):
                return len(args[0])
            if f.id in ('list', 'tuple') and len(args) == 1 and isinstance(args[0], (list, tuple)):
                return list(args[0])
            if f.id in self.prog.classes:
                return Sentinel("new:" + f.id)
            if f.id in ('print', 'str', 'len', 'type'):
                return Sentinel("STR")
        raise Inconclusive("call %s" % ast.unparse(e.func))

    def task_method(self, t, name):
        st = t.attrs['_state']
        if name == 'done':
            return st != 'PENDING'
        if name == 'cancelled':
            return st == 'CANCELLED'
        if name == 'exception':
            if st == 'PENDING':
                raise Raised('InvalidStateError')
            if st == 'CANCELLED':
                raise Raised('CancelledError')
            return t.attrs['_exception']
        if name == 'result':
            if st == 'PENDING':
                raise Raised('InvalidStateError')
            if st == 'CANCELLED':
                raise Raised('CancelledError')
            if t.attrs['_exception'] is not None:
                raise Raised('object', t.attrs['_exception'])
            return t.attrs['_result']
        raise Inconclusive("task method %s" % name)


class _Continue(Exception):
    pass


class _Break(Exception):
    pass


def table(ev, method, domain):
    """evaluate `method` on every point of `domain` (list of (label, selfobj));
    returns {label: ('ret', value) | ('raise', typename) }"""
    out = {}
    for label, obj in domain:
        try:
            out[label] = ('ret', ev.call_method(method, obj))
        except Raised as r:
            out[label] = ('raise', r.typename, r.value)
    return out
